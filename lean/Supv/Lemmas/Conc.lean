import Supv.Model.Conc
import Supv.Spec.C05
import Supv.Lemmas.Proc
import Supv.Model.Inst

/-! Helper lemmas for C05 (model `Supv.Conc`, specification `Supv.Spec.C05`). -/

namespace Supv.Conc
open Supv.Proc (PState Proc)

/-! ### `min` / `max` over the copies -/

theorem firstMin_isSome (l : List Copy) (h : l ≠ []) : ∃ k, firstMin l = some k := by
  cases l with
  | nil => exact absurd rfl h
  | cons c t =>
    simp only [firstMin]
    cases firstMin t with
    | none => exact ⟨c, rfl⟩
    | some m => by_cases hm : m.uptime < c.uptime <;> simp [hm]

theorem firstMin_mem (l : List Copy) (k : Copy) (h : firstMin l = some k) : k ∈ l := by
  induction l generalizing k with
  | nil => simp [firstMin] at h
  | cons c t ih =>
    simp only [firstMin] at h
    cases hm : firstMin t with
    | none => simp [hm] at h; simp [h]
    | some m =>
      simp only [hm] at h
      by_cases hlt : m.uptime < c.uptime
      · simp [hlt] at h; subst h; exact List.mem_cons_of_mem _ (ih m hm)
      · simp [hlt] at h; simp [h]

theorem firstMin_le (l : List Copy) (k : Copy) (h : firstMin l = some k) : ∀ c ∈ l, k.uptime ≤ c.uptime := by
  induction l generalizing k with
  | nil => simp
  | cons c t ih =>
    simp only [firstMin] at h
    cases hm : firstMin t with
    | none =>
      have ht : t = [] := by
        cases t with
        | nil => rfl
        | cons a b => obtain ⟨x, hx⟩ := firstMin_isSome (a :: b) (by simp); rw [hx] at hm; cases hm
      simp [hm] at h; subst h; subst ht; simp
    | some m =>
      simp only [hm] at h
      have hmle := ih m hm
      by_cases hlt : m.uptime < c.uptime
      · simp [hlt] at h; subst h
        intro x hx
        rcases List.mem_cons.mp hx with rfl | hx
        · omega
        · exact hmle x hx
      · simp [hlt] at h; subst h
        intro x hx
        rcases List.mem_cons.mp hx with rfl | hx
        · omega
        · have := hmle x hx; omega

theorem firstMax_isSome (l : List Copy) (h : l ≠ []) : ∃ k, firstMax l = some k := by
  cases l with
  | nil => exact absurd rfl h
  | cons c t =>
    simp only [firstMax]
    cases firstMax t with
    | none => exact ⟨c, rfl⟩
    | some m => by_cases hm : m.uptime > c.uptime <;> simp [hm]

theorem firstMax_mem (l : List Copy) (k : Copy) (h : firstMax l = some k) : k ∈ l := by
  induction l generalizing k with
  | nil => simp [firstMax] at h
  | cons c t ih =>
    simp only [firstMax] at h
    cases hm : firstMax t with
    | none => simp [hm] at h; simp [h]
    | some m =>
      simp only [hm] at h
      by_cases hlt : m.uptime > c.uptime
      · simp [hlt] at h; subst h; exact List.mem_cons_of_mem _ (ih m hm)
      · simp [hlt] at h; simp [h]

theorem firstMax_ge (l : List Copy) (k : Copy) (h : firstMax l = some k) : ∀ c ∈ l, c.uptime ≤ k.uptime := by
  induction l generalizing k with
  | nil => simp
  | cons c t ih =>
    simp only [firstMax] at h
    cases hm : firstMax t with
    | none =>
      have ht : t = [] := by
        cases t with
        | nil => rfl
        | cons a b => obtain ⟨x, hx⟩ := firstMax_isSome (a :: b) (by simp); rw [hx] at hm; cases hm
      simp [hm] at h; subst h; subst ht; simp
    | some m =>
      simp only [hm] at h
      have hmle := ih m hm
      by_cases hlt : m.uptime > c.uptime
      · simp [hlt] at h; subst h
        intro x hx
        rcases List.mem_cons.mp hx with rfl | hx
        · omega
        · exact hmle x hx
      · simp [hlt] at h; subst h
        intro x hx
        rcases List.mem_cons.mp hx with rfl | hx
        · omega
        · have := hmle x hx; omega

/-! ### lists without duplicates -/

theorem eq_of_nodup_map {α β : Type} (f : α → β) (l : List α) (h : (l.map f).Nodup) (a b : α)
    (ha : a ∈ l) (hb : b ∈ l) (hab : f a = f b) : a = b := by
  induction l with
  | nil => cases ha
  | cons x t ih =>
    simp only [List.map_cons, List.nodup_cons] at h
    rcases List.mem_cons.mp ha with hax | hat
    · rcases List.mem_cons.mp hb with hbx | hbt
      · rw [hax, hbx]
      · exfalso; apply h.1; rw [← hax, hab]; exact List.mem_map_of_mem hbt
    · rcases List.mem_cons.mp hb with hbx | hbt
      · exfalso; apply h.1; rw [← hbx, ← hab]; exact List.mem_map_of_mem hat
      · exact ih h.2 hat hbt

/-- the copies whose instance is that of `k` are `k` alone -/
theorem filter_inst_eq (l : List Copy) (k : Copy) (hnd : (l.map (·.inst)).Nodup) (hk : k ∈ l) :
    l.filter (fun c => decide (c.inst = k.inst)) = [k] := by
  induction l with
  | nil => cases hk
  | cons c t ih =>
    simp only [List.map_cons, List.nodup_cons] at hnd
    rcases List.mem_cons.mp hk with rfl | hk
    · have : t.filter (fun c => decide (c.inst = k.inst)) = [] := by
        rw [List.filter_eq_nil_iff]
        intro x hx
        simp only [decide_eq_true_eq]
        intro hxe
        exact hnd.1 (hxe ▸ List.mem_map_of_mem (f := (·.inst)) hx)
      simp [this]
    · have hne : c.inst ≠ k.inst := by
        intro hce
        exact hnd.1 (hce ▸ List.mem_map_of_mem (f := (·.inst)) hk)
      simp [hne, ih hnd.2 hk]

theorem length_le_one_of_all_eq {α : Type} (l : List α) (hnd : l.Nodup) (x : α) (h : ∀ y ∈ l, y = x) : l.length ≤ 1 := by
  match l, hnd, h with
  | [], _, _ => simp
  | [_], _, _ => simp
  | a :: b :: t, hnd, h =>
    have ha := h a (by simp); have hb := h b (by simp)
    subst ha; subst hb
    simp at hnd

/-! ### the plan of a conciliation -/

theorem mem_stopCommands (v : PView) (sel : Option (List Nat)) (x : Nat × Nat) :
    x ∈ stopCommands v sel ↔ x.1 = v.pid ∧ x.2 ∈ v.listed ∧
      (match sel with | none => True | some l => l = [] ∨ x.2 ∈ l) := by
  obtain ⟨p, i⟩ := x
  unfold stopCommands
  simp only [List.mem_map, List.mem_filter, Prod.mk.injEq]
  constructor
  · rintro ⟨j, ⟨hj, hs⟩, rfl, rfl⟩
    refine ⟨rfl, hj, ?_⟩
    cases sel with
    | none => trivial
    | some l => simpa [List.isEmpty_iff] using hs
  · rintro ⟨rfl, hi, hs⟩
    refine ⟨i, ⟨hi, ?_⟩, rfl, rfl⟩
    cases sel with
    | none => rfl
    | some l => simpa [List.isEmpty_iff] using hs

@[simp] theorem planStops_append (a b : List Action) : planStops (a ++ b) = planStops a ++ planStops b := by
  simp [planStops]
@[simp] theorem planDeferred_append (a b : List Action) : planDeferred (a ++ b) = planDeferred a ++ planDeferred b := by
  simp [planDeferred]
@[simp] theorem planDirect_append (a b : List Action) : planDirect (a ++ b) = planDirect a ++ planDirect b := by
  simp [planDirect]
@[simp] theorem planFailJobs_append (a b : List Action) : planFailJobs (a ++ b) = planFailJobs a ++ planFailJobs b := by
  simp [planFailJobs]
@[simp] theorem rpcStops_append (a b : List Action) : rpcStops (a ++ b) = rpcStops a ++ rpcStops b := by
  simp [rpcStops]

@[simp] theorem planStops_epilogue (s : Strategy) : planStops (epilogue s) = [] := by
  cases s <;> simp [epilogue, planStops, Action.stops]
@[simp] theorem planDeferred_epilogue (s : Strategy) : planDeferred (epilogue s) = [] := by
  cases s <;> simp [epilogue, planDeferred, Action.deferred]
@[simp] theorem planDirect_epilogue (s : Strategy) : planDirect (epilogue s) = [] := by
  cases s <;> simp [epilogue, planDirect, Action.direct]
@[simp] theorem planFailJobs_epilogue (s : Strategy) : planFailJobs (epilogue s) = [] := by
  cases s <;> simp [epilogue, planFailJobs, Action.failJobs]
@[simp] theorem rpcStops_epilogue (s : Strategy) : rpcStops (epilogue s) = [] := by
  cases s <;> simp [epilogue, rpcStops, rpcStopsOf]

/-- the calls made for one process when `min` / `max` do not raise -/
def callsOf (s : Strategy) (v : PView) : List Action :=
  match perProcess s v with
  | .ok a => a
  | .error _ => []

theorem perProcess_ok (s : Strategy) (v : PView) (h : v.copies ≠ []) : perProcess s v = .ok (callsOf s v) := by
  unfold callsOf
  cases s <;> simp only [perProcess]
  · obtain ⟨k, hk⟩ := firstMin_isSome v.copies h; simp [hk]
  · obtain ⟨k, hk⟩ := firstMax_isSome v.copies h; simp [hk]

theorem loop_ok (s : Strategy) (cs : List PView) (h : ∀ v ∈ cs, v.copies ≠ []) :
    loop s cs = { actions := cs.flatMap (callsOf s), err := none } := by
  induction cs with
  | nil => rfl
  | cons v t ih =>
    have hv := perProcess_ok s v (h v (by simp))
    have ht := ih (fun w hw => h w (List.mem_cons_of_mem _ hw))
    simp [loop, hv, ht]

/-- on conflicts that have at least one copy, `conciliate_conflicts` raises nothing and makes the calls of every
    process in turn, then the epilogue -/
theorem conciliate_ok (s : Strategy) (cs : List PView) (h : ∀ v ∈ cs, v.copies ≠ []) :
    conciliate s cs = { actions := cs.flatMap (callsOf s) ++ epilogue s, err := none } := by
  simp [conciliate, loop_ok s cs h]

theorem conflicts_copies_ne_nil (ctx : View) : ∀ v ∈ conflicts ctx, v.copies ≠ [] := by
  intro v hv
  simp only [conflicts, List.mem_filter, PView.conflicting, Bool.and_eq_true, decide_eq_true_eq] at hv
  intro h; rw [h] at hv; simp at hv

theorem mem_conflicts (ctx : View) (v : PView) :
    v ∈ conflicts ctx ↔ v ∈ ctx ∧ v.managed = true ∧ 2 ≤ v.copies.length := by
  simp only [conflicts, List.mem_filter, PView.conflicting, Bool.and_eq_true, decide_eq_true_eq]
  constructor
  · rintro ⟨a, b, c⟩; exact ⟨a, b, by omega⟩
  · rintro ⟨a, b, c⟩; exact ⟨a, b, by omega⟩

/-- stop commands planned for one process -/
def stopsOf (s : Strategy) (v : PView) : List (Nat × Nat) := planStops (callsOf s v)

theorem planStops_flatMap (s : Strategy) (cs : List PView) :
    planStops (cs.flatMap (callsOf s)) = cs.flatMap (stopsOf s) := by
  induction cs with
  | nil => rfl
  | cons v t ih => simp [List.flatMap_cons, ih, stopsOf]

/-- every planned stop command concerns a listed copy of the process it was planned for -/
theorem stopsOf_sub (s : Strategy) (v : PView) (x : Nat × Nat) (h : x ∈ stopsOf s v) :
    x.1 = v.pid ∧ x.2 ∈ v.listed := by
  unfold stopsOf callsOf at h
  cases s <;> simp only [perProcess] at h
  · cases hk : firstMin v.copies with
    | none => simp [hk, planStops] at h
    | some k =>
      simp [hk, planStops, Action.stops] at h
      have := (mem_stopCommands v _ x).mp h; exact ⟨this.1, this.2.1⟩
  · cases hk : firstMax v.copies with
    | none => simp [hk, planStops] at h
    | some k =>
      simp [hk, planStops, Action.stops] at h
      have := (mem_stopCommands v _ x).mp h; exact ⟨this.1, this.2.1⟩
  · simp [planStops] at h
  · simp [planStops, Action.stops] at h
    have := (mem_stopCommands v _ x).mp h; exact ⟨this.1, this.2.1⟩
  · simp [planStops, Action.stops] at h
    have := (mem_stopCommands v _ x).mp h.2; exact ⟨this.1, this.2.1⟩
  · simp [planStops, Action.stops] at h
    have := (mem_stopCommands v _ x).mp h; exact ⟨this.1, this.2.1⟩

/-- well-formed view: every process once (`Context.applications[..].processes[..]`), every instance listed once
    (`running_identifiers` is a set) -/
structure WF (ctx : View) : Prop where
  pids : (ctx.map (·.pid)).Nodup
  insts : ∀ v ∈ ctx, (v.copies.map (·.inst)).Nodup

/-- the stop commands planned by a conciliation over the conflicts of `ctx` -/
def modelStops (s : Strategy) (ctx : View) : List (Nat × Nat) := planStops (conciliate s (conflicts ctx)).actions

theorem modelStops_eq (s : Strategy) (ctx : View) : modelStops s ctx = (conflicts ctx).flatMap (stopsOf s) := by
  unfold modelStops
  rw [conciliate_ok s _ (conflicts_copies_ne_nil ctx)]
  simp [planStops_flatMap]

/-- with every process once in the view, the stop commands carrying the pid of `v` are those planned for `v` -/
theorem mem_modelStops (s : Strategy) (ctx : View) (hwf : WF ctx) (v : PView) (hv : v ∈ ctx) (i : Nat) :
    (v.pid, i) ∈ modelStops s ctx ↔ v ∈ conflicts ctx ∧ (v.pid, i) ∈ stopsOf s v := by
  rw [modelStops_eq, List.mem_flatMap]
  constructor
  · rintro ⟨w, hw, hx⟩
    have hwc := ((mem_conflicts ctx w).mp hw).1
    have hpid := (stopsOf_sub s w _ hx).1
    have : w = v := eq_of_nodup_map (·.pid) ctx hwf.pids w v hwc hv hpid.symm
    subst this; exact ⟨hw, hx⟩
  · rintro ⟨hc, hx⟩; exact ⟨v, hc, hx⟩

/-! ### stop acknowledgements on the process model -/

open Supv.Proc in
/-- well-formed `ProcessStatus`: no instance listed twice, every listed instance has an entry (both are invariants of
    the process model, `Supv.Proc.Rel`) -/
structure WFp (p : Proc) : Prop where
  nodup : p.running.Nodup
  entries : ∀ j ∈ p.running, (p.infos.get? j).isSome = true

open Supv.Proc in
/-- every process status reachable in the process model is well-formed (`Rel` is the C11 invariant) -/
theorem WFp.of_rel {p : Proc} {V : Nat → Supv.Spec.C11.View} (h : Rel p V) : WFp p :=
  ⟨h.nodup, fun j hj => by obtain ⟨v, hv, _⟩ := h.listedOk j hj; simp [hv]⟩

open Supv.Proc in
theorem updateStatus_stopped (p : Proc) (i : Nat) (s : PState) (hs : s.isStopped = true)
    (hinfo : ∀ j ∈ p.running, (p.infos.get? j).isSome = true) (hne : p.infos ≠ []) :
    ∃ p', updateStatus p i s = .ok p' ∧ p'.running = p.running.erase i ∧ p'.infos = p.infos := by
  unfold updateStatus
  have hrun : updRunning p i s = p.running.erase i := by simp [updRunning, hs]
  simp only [hrun]
  have hsub : ∀ j ∈ p.running.erase i, (p.infos.get? j).isSome = true :=
    fun j hj => hinfo j (List.mem_of_mem_erase hj)
  split
  · rw [if_pos (by rw [List.all_eq_true]; exact hsub)]
    exact ⟨_, rfl, rfl, rfl⟩
  · split
    · rename_i j hj
      have hjs : (p.infos.get? j).isSome = true := hsub j (by rw [hj]; simp)
      obtain ⟨v, hv⟩ := Option.isSome_iff_exists.mp hjs
      simp only [hv]
      exact ⟨_, rfl, hj.symm ▸ rfl, rfl⟩
    · split
      · exact ⟨_, rfl, rfl, rfl⟩
      · cases hl : latest p.infos with
        | none => exact absurd hl (latest_ne_none p.infos hne)
        | some v => exact ⟨_, rfl, rfl, rfl⟩

open Supv.Proc in
/-- a stopped-like event from an instance that has an entry: never a Python exception, the instance leaves the listing,
    nobody else moves, every entry stays -/
theorem upd_stopped (p : Proc) (now i : Nat) (s : PState) (e : Bool) (et : Nat) (dis : Bool)
    (hs : s.isStopped = true) (hwf : WFp p) (hi : (p.infos.get? i).isSome = true) :
    ∃ p', pstep p now (.upd i s e et dis) = .ok p' ∧ p'.running = p.running.erase i ∧ WFp p'
      ∧ ∀ j, (p.infos.get? j).isSome = true → (p'.infos.get? j).isSome = true := by
  obtain ⟨v, hv⟩ := Option.isSome_iff_exists.mp hi
  simp only [pstep, updateInfo, hv]
  have hkeep : ∀ (w : Info) (j : Nat), (p.infos.get? j).isSome = true → ((p.infos.set i w).get? j).isSome = true := by
    intro w j hj
    by_cases hji : j = i
    · subst hji; rw [Infos.get?_set_same]; rfl
    · rw [Infos.get?_set_other _ _ _ _ hji]; exact hj
  generalize hw : ({ state := s, expected := e, ltime := now, etime := et, nowm := et,
                      disabled := (some dis).getD v.disabled } : Info) = w
  have hrf : ∀ q : Proc, (resetForced q none).running = q.running ∧ (resetForced q none).infos = q.infos
      ∧ (resetForced q none).state = q.state := by
    intro q; unfold resetForced; split <;> simp
  obtain ⟨h1, h2, _⟩ := hrf { p with infos := p.infos.set i w }
  obtain ⟨p', hp', hr', hi'⟩ := updateStatus_stopped (resetForced { p with infos := p.infos.set i w } none) i s hs
    (by rw [h1, h2]; intro j hj; exact hkeep w j (hwf.entries j hj))
    (by rw [h2]; exact set_ne_nil _ _ _)
  refine ⟨p', hp', by rw [hr', h1], ⟨?_, ?_⟩, ?_⟩
  · rw [hr', h1]; exact hwf.nodup.erase i
  · intro j hj
    rw [hr', h1] at hj
    rw [hi', h2]
    exact hkeep w j (hwf.entries j (List.mem_of_mem_erase hj))
  · intro j hj; rw [hi', h2]; exact hkeep w j hj

open Supv.Proc in
/-- the instance an acknowledgement comes from -/
def ackInst : POp → Option Nat
  | .upd i _ _ _ _ => some i
  | _ => none

open Supv.Proc in
/-- a stopped-like process event from an instance that has an entry in `p0` -/
def IsAck (p0 : Proc) (op : POp) : Prop :=
  ∃ i s e et dis, op = .upd i s e et dis ∧ s.isStopped = true ∧ (p0.infos.get? i).isSome = true

open Supv.Proc in
/-- any sequence of stop acknowledgements: no exception, and the listing is the former one minus the instances that
    acknowledged -/
theorem prun_acks (ops : List (Nat × POp)) : ∀ (p0 p : Proc), WFp p →
    (∀ j, (p0.infos.get? j).isSome = true → (p.infos.get? j).isSome = true) →
    (∀ x ∈ ops, IsAck p0 x.2) →
    ∃ p', prun p ops = .ok p' ∧ WFp p'
      ∧ p'.running = p.running.filter (fun j => !(ops.filterMap (fun x => ackInst x.2)).contains j) := by
  induction ops with
  | nil => intro p0 p hwf _ _; exact ⟨p, rfl, hwf, (List.filter_eq_self.mpr (by simp)).symm⟩
  | cons x t ih =>
    intro p0 p hwf hkeep hacks
    obtain ⟨now, op⟩ := x
    obtain ⟨i, s, e, et, dis, rfl, hs, hi⟩ := hacks (now, op) (by simp)
    obtain ⟨p1, hp1, hr1, hwf1, hk1⟩ := upd_stopped p now i s e et dis hs hwf (hkeep i hi)
    obtain ⟨p', hp', hwf', hr'⟩ := ih p0 p1 hwf1 (fun j hj => hk1 j (hkeep j hj))
      (fun y hy => hacks y (List.mem_cons_of_mem _ hy))
    refine ⟨p', by simp only [prun, hp1]; exact hp', hwf', ?_⟩
    rw [hr', hr1, hwf.nodup.erase_eq_filter, List.filter_filter]
    apply List.filter_congr
    intro j _
    rw [show ((now, POp.upd i s e et dis) :: t).filterMap (fun x => ackInst x.2)
        = i :: t.filterMap (fun x => ackInst x.2) from rfl, List.contains_cons]
    generalize (t.filterMap (fun x => ackInst x.2)).contains j = b
    cases b <;> by_cases hji : j = i <;> simp [hji, bne]


/-! ### lemmas behind the C05 theorems (specification side) -/

section spec
open Supv.Spec.C05
open Supv.Proc (PState Proc POp Res prun pstep)

/-- what the model does for strategy `s` on the conflicts of `ctx`, as an observation for the specification -/
def modelObs (s : Strategy) (ctx : View) : Obs :=
  let a := (conciliate s (conflicts ctx)).actions
  { stops := planStops a, starts := planDeferred a, failJobs := planFailJobs a, failTriggered := planFailTriggered a }

/-- no listed instance is STOPPING: the listed instances are exactly the copies the statement speaks of -/
def NoStopping (ctx : View) : Prop := ∀ v ∈ ctx, ∀ c ∈ v.copies, c.stopping = false

theorem mem_stopsOf_keep (v : PView) (k : Copy) (hk : k ∈ v.copies) (hnd : (v.copies.map (·.inst)).Nodup)
    (h2 : 2 ≤ v.copies.length) (i : Nat) :
    (v.pid, i) ∈ stopCommands v (some (v.listed.erase k.inst)) ↔ i ∈ v.listed ∧ i ≠ k.inst := by
  rw [mem_stopCommands]
  have hkl : k.inst ∈ v.listed := List.mem_map_of_mem (f := (·.inst)) hk
  have hlen : (v.listed.erase k.inst).length = v.copies.length - 1 := by
    rw [List.length_erase_of_mem hkl]; simp [PView.listed]
  have hne : v.listed.erase k.inst ≠ [] := by
    intro h; rw [h] at hlen; simp at hlen; omega
  have hnd' : v.listed.Nodup := hnd
  simp only [true_and]
  constructor
  · rintro ⟨hi, h | h⟩
    · exact absurd h hne
    · exact ⟨hi, ((List.Nodup.mem_erase_iff hnd').mp h).1⟩
  · rintro ⟨hi, hik⟩
    exact ⟨hi, Or.inr ((List.Nodup.mem_erase_iff hnd').mpr ⟨hik, hi⟩)⟩

theorem stopsOf_senicide (v : PView) (k : Copy) (hk : firstMin v.copies = some k) :
    stopsOf .senicide v = stopCommands v (some (v.listed.erase k.inst)) := by
  simp [stopsOf, callsOf, perProcess, hk, planStops, Action.stops]

theorem stopsOf_infanticide (v : PView) (k : Copy) (hk : firstMax v.copies = some k) :
    stopsOf .infanticide v = stopCommands v (some (v.listed.erase k.inst)) := by
  simp [stopsOf, callsOf, perProcess, hk, planStops, Action.stops]

theorem stopsOf_user (v : PView) : stopsOf .user v = [] := by
  simp [stopsOf, callsOf, perProcess, planStops]

theorem stopsOf_stop (v : PView) : stopsOf .stop v = stopCommands v none := by
  simp [stopsOf, callsOf, perProcess, planStops, Action.stops]

theorem stopsOf_restart (v : PView) : stopsOf .restart v = if v.running then stopCommands v none else [] := by
  simp [stopsOf, callsOf, perProcess, planStops, Action.stops]

theorem stopsOf_failure (v : PView) : stopsOf .runningFailure v = stopCommands v none := by
  simp [stopsOf, callsOf, perProcess, planStops, Action.stops]

theorem mem_stopCommands_all (v : PView) (i : Nat) : (v.pid, i) ∈ stopCommands v none ↔ i ∈ v.listed := by
  rw [mem_stopCommands]; simp

theorem requested_iff (s : Strategy) (ctx : View) (hwf : WF ctx) (v : PView) (hv : v ∈ ctx) (c : Copy) :
    requested (modelObs s ctx) v c = true ↔ v ∈ conflicts ctx ∧ (v.pid, c.inst) ∈ stopsOf s v := by
  unfold requested modelObs
  simp only [List.contains_iff_mem]
  exact mem_modelStops s ctx hwf v hv c.inst

theorem live_eq_copies (ctx : View) (hns : NoStopping ctx) (v : PView) (hv : v ∈ ctx) : live v = v.copies := by
  unfold live
  rw [List.filter_eq_self]
  intro c hc; simp [hns v hv c hc]

theorem inConflict_conflicts (ctx : View) (hns : NoStopping ctx) (v : PView) (hv : v ∈ ctx) :
    inConflict v = true ↔ v ∈ conflicts ctx := by
  rw [mem_conflicts]
  unfold inConflict
  rw [live_eq_copies ctx hns v hv]
  simp [hv]

/-- a process with a live copy is `running()` -/
theorem running_of_live (v : PView) (h : 1 ≤ (live v).length) : v.running = true := by
  unfold PView.running
  rw [List.any_eq_true]
  match hl : live v, h with
  | c :: _, _ =>
    have : c ∈ live v := by rw [hl]; simp
    have := List.mem_filter.mp this
    exact ⟨c, this.1, this.2⟩

/-- keeping exactly `k`: the live copies left alone are `[k]` -/
theorem kept_singleton (o : Obs) (v : PView) (k : Copy) (hlive : live v = v.copies) (hk : k ∈ v.copies)
    (hnd : (v.copies.map (·.inst)).Nodup)
    (hreq : ∀ c ∈ v.copies, (requested o v c = true ↔ c.inst ≠ k.inst)) : kept o v = [k] := by
  unfold kept
  rw [hlive, ← filter_inst_eq v.copies k hnd hk]
  apply List.filter_congr
  intro c hc
  have := hreq c hc
  by_cases h : c.inst = k.inst
  · simp [h] at this ⊢; simpa using this
  · simp [h] at this ⊢; exact this

/-- a process in conflict (statement) is a member of `Context.conflicts()` -/
theorem conflicts_of_inConflict (ctx : View) (v : PView) (hv : v ∈ ctx) (hc : inConflict v = true) :
    v ∈ conflicts ctx := by
  rw [mem_conflicts]
  simp only [inConflict, Bool.and_eq_true, decide_eq_true_eq] at hc
  have : (live v).length ≤ v.copies.length := List.length_filter_le _ _
  exact ⟨hv, hc.1, by omega⟩

theorem planDeferred_flatMap (s : Strategy) (cs : List PView) :
    planDeferred (cs.flatMap (callsOf s)) = cs.flatMap (fun v => planDeferred (callsOf s v)) := by
  induction cs with
  | nil => rfl
  | cons v t ih => simp [List.flatMap_cons, ih]

theorem planFailJobs_flatMap (s : Strategy) (cs : List PView) :
    planFailJobs (cs.flatMap (callsOf s)) = cs.flatMap (fun v => planFailJobs (callsOf s v)) := by
  induction cs with
  | nil => rfl
  | cons v t ih => simp [List.flatMap_cons, ih]

theorem deferred_callsOf (s : Strategy) (v : PView) :
    planDeferred (callsOf s v) = if s = .restart ∧ v.running = true then [v.pid] else [] := by
  cases s <;> simp only [callsOf, perProcess]
  · cases firstMin v.copies <;> simp [planDeferred, Action.deferred]
  · cases firstMax v.copies <;> simp [planDeferred, Action.deferred]
  · simp [planDeferred]
  · simp [planDeferred, Action.deferred]
  · by_cases h : v.running = true <;> simp [planDeferred, Action.deferred, h]
  · simp [planDeferred, Action.deferred]

theorem failJobs_callsOf (s : Strategy) (v : PView) :
    planFailJobs (callsOf s v) = if s = .runningFailure then [v.pid] else [] := by
  cases s <;> simp only [callsOf, perProcess]
  · cases firstMin v.copies <;> simp [planFailJobs, Action.failJobs]
  · cases firstMax v.copies <;> simp [planFailJobs, Action.failJobs]
  · simp [planFailJobs]
  · simp [planFailJobs, Action.failJobs]
  · simp [planFailJobs, Action.failJobs]
  · simp [planFailJobs, Action.failJobs]

theorem starts_eq (s : Strategy) (ctx : View) :
    (modelObs s ctx).starts
      = if s = .restart then ((conflicts ctx).filter (·.running)).map (·.pid) else [] := by
  unfold modelObs
  simp only
  rw [conciliate_ok s _ (conflicts_copies_ne_nil ctx)]
  simp only [planDeferred_append, planDeferred_epilogue, List.append_nil, planDeferred_flatMap, deferred_callsOf]
  by_cases hs : s = .restart
  · simp only [hs, true_and, if_true]
    generalize conflicts ctx = cs
    induction cs with
    | nil => rfl
    | cons v t ih => by_cases hr : v.running = true <;> simp [List.flatMap_cons, hr, ih]
  · simp [hs]

theorem failJobs_eq (s : Strategy) (ctx : View) :
    (modelObs s ctx).failJobs = if s = .runningFailure then (conflicts ctx).map (·.pid) else [] := by
  unfold modelObs
  simp only
  rw [conciliate_ok s _ (conflicts_copies_ne_nil ctx)]
  simp only [planFailJobs_append, planFailJobs_epilogue, List.append_nil, planFailJobs_flatMap, failJobs_callsOf]
  by_cases hs : s = .runningFailure
  · simp only [hs, if_true]
    generalize conflicts ctx = cs
    induction cs with
    | nil => rfl
    | cons v t ih => simp [List.flatMap_cons, ih]
  · simp [hs]

theorem failTrigger_callsOf (s : Strategy) (v : PView) : (callsOf s v).any Action.isFailTrigger = false := by
  cases s <;> simp only [callsOf, perProcess]
  · cases firstMin v.copies <;> simp [Action.isFailTrigger]
  · cases firstMax v.copies <;> simp [Action.isFailTrigger]
  all_goals simp [Action.isFailTrigger]

theorem failTriggered_eq (s : Strategy) (ctx : View) :
    (modelObs s ctx).failTriggered = decide (s = .runningFailure) := by
  unfold modelObs
  simp only
  rw [conciliate_ok s _ (conflicts_copies_ne_nil ctx)]
  simp only [planFailTriggered, List.any_append, List.any_flatMap, failTrigger_callsOf]
  cases s <;> simp [epilogue, Action.isFailTrigger]

theorem loop_user (cs : List PView) : loop .user cs = {} := by
  induction cs with
  | nil => rfl
  | cons v t ih => simp [loop, perProcess, ih]

/-- one process of the Master's `Context`: identity, managed flag of its application, `ProcessStatus` (model) -/
structure Entry where
  pid : Nat
  managed : Bool
  proc : Proc

/-- a process event received by the Master: instance `inst` reports `state` for process `pid` at local time `now` -/
structure Ack where
  pid : Nat
  inst : Nat
  state : PState
  expected : Bool
  etime : Nat
  disabled : Bool
  now : Nat

/-- what the strategies see of the table (`up pid inst` = the uptime held for that copy) -/
def viewTbl (up : Nat → Nat → Nat) (tbl : List Entry) : View :=
  tbl.map (fun e => viewOf e.pid e.managed (up e.pid) e.proc)

/-- the events of a global sequence that `Context.on_process_state_event` routes to process `pid`, in order -/
def acksFor (pid : Nat) (acks : List Ack) : List (Nat × POp) :=
  (acks.filter (fun a => a.pid == pid)).map (fun a => (a.now, POp.upd a.inst a.state a.expected a.etime a.disabled))

/-- the table after the whole sequence (each `ProcessStatus` goes through `Supv.Proc.prun` on its own events) -/
def afterAcks (tbl : List Entry) (acks : List Ack) : List Entry :=
  tbl.map (fun e => match prun e.proc (acksFor e.pid acks) with
    | .ok p => { e with proc := p }
    | .err _ => e)

theorem listed_viewOf (pid : Nat) (m : Bool) (up : Nat → Nat) (p : Proc) : (viewOf pid m up p).listed = p.running := by
  simp only [PView.listed, viewOf, List.map_map]
  conv => rhs; rw [← List.map_id p.running]
  apply List.map_congr_left; intro i _; rfl

theorem viewTbl_wf (up : Nat → Nat → Nat) (tbl : List Entry) (hpids : (tbl.map (·.pid)).Nodup)
    (hwfp : ∀ e ∈ tbl, WFp e.proc) : WF (viewTbl up tbl) := by
  constructor
  · have : (viewTbl up tbl).map (·.pid) = tbl.map (·.pid) := by
      simp [viewTbl, List.map_map, Function.comp, viewOf]
    rw [this]; exact hpids
  · intro v hv
    obtain ⟨e, he, rfl⟩ := List.mem_map.mp hv
    have := listed_viewOf e.pid e.managed (up e.pid) e.proc
    unfold PView.listed at this
    rw [this]; exact (hwfp e he).nodup

/-- the instances left listed by a strategy other than USER number at most one -/
theorem survivors_le_one (s : Strategy) (hs : s ≠ .user) (v : PView) (hnd : (v.copies.map (·.inst)).Nodup)
    (h2 : 2 ≤ v.copies.length) (hr : s = .restart → v.running = true) (l : List Nat) (hl : l.Nodup)
    (hsurv : ∀ j ∈ l, j ∈ v.listed ∧ (v.pid, j) ∉ stopsOf s v) : l.length ≤ 1 := by
  have hne : v.copies ≠ [] := by intro h; rw [h] at h2; simp at h2
  have hall : stopsOf s v = stopCommands v none → l.length ≤ 1 := by
    intro hst
    have : l = [] := by
      cases l with
      | nil => rfl
      | cons j t =>
        have := hsurv j (by simp)
        rw [hst, mem_stopCommands_all] at this
        exact absurd this.1 this.2
    rw [this]; simp
  cases s with
  | senicide =>
    obtain ⟨k, hk⟩ := firstMin_isSome v.copies hne
    apply length_le_one_of_all_eq l hl k.inst
    intro j hj
    have := hsurv j hj
    rw [stopsOf_senicide v k hk, mem_stopsOf_keep v k (firstMin_mem _ _ hk) hnd h2] at this
    by_cases hjk : j = k.inst
    · exact hjk
    · exact absurd ⟨this.1, hjk⟩ this.2
  | infanticide =>
    obtain ⟨k, hk⟩ := firstMax_isSome v.copies hne
    apply length_le_one_of_all_eq l hl k.inst
    intro j hj
    have := hsurv j hj
    rw [stopsOf_infanticide v k hk, mem_stopsOf_keep v k (firstMax_mem _ _ hk) hnd h2] at this
    by_cases hjk : j = k.inst
    · exact hjk
    · exact absurd ⟨this.1, hjk⟩ this.2
  | user => exact absurd rfl hs
  | stop => exact hall (stopsOf_stop v)
  | restart => exact hall (by rw [stopsOf_restart, hr rfl]; rfl)
  | runningFailure => exact hall (stopsOf_failure v)

end spec

end Supv.Conc

/-! ### evaluation of the FSM model (`Supv.Inst`) on the decisions C05 is about -/

namespace Supv.Conc.Fsm
open Supv.Inst

theorem run_bind_eq {α β} (x : M α) (f : α → M β) (s : St) :
    (x >>= f).run s = (x.run s >>= fun p => (f p.1).run p.2) := rfl

theorem ok_bind {α β} (a : α) (g : α → Except Err β) : (Except.ok a >>= g) = g a := rfl

theorem run_pure {α} (a : α) (s : St) : (pure a : M α).run s = .ok (a, s) := rfl

/-- `ask`: consume one oracle answer -/
theorem run_ask (q : Query) (st : St) :
    (ask q).run st = match st.oracle with
      | (q', a) :: rest => if q' = q then .ok (a != 0, { st with oracle := rest })
                           else .ok (false, { st with oracleBad := st.oracleBad + 1 })
      | [] => .ok (false, { st with oracleBad := st.oracleBad + 1 }) := by
  cases ho : st.oracle with
  | nil =>
    simp [ask, askNat, ho, StateT.run, Bind.bind, StateT.bind, Except.bind, MonadState.get, getThe,
      MonadStateOf.get, StateT.get, Pure.pure, StateT.pure, Except.pure, _root_.modify, modifyGet,
      MonadStateOf.modifyGet, StateT.modifyGet]
  | cons x rest =>
    obtain ⟨q', a⟩ := x
    by_cases hq : q' = q <;>
    simp [ask, askNat, ho, hq, StateT.run, Bind.bind, StateT.bind, Except.bind, MonadState.get, getThe,
      MonadStateOf.get, StateT.get, Pure.pure, StateT.pure, Except.pure, _root_.modify, modifyGet,
      MonadStateOf.modifyGet, StateT.modifyGet]

/-- the local instance is the Master it knows -/
def IsMaster (c : Cfg) (st : St) : Prop := (st.modes.getD c.me {}).master = some c.me

instance (c : Cfg) (st : St) : Decidable (IsMaster c st) := by unfold IsMaster; infer_instance

theorem run_isMaster (c : Cfg) (st : St) : (isMaster c).run st = .ok (decide (IsMaster c st), st) := by
  simp [IsMaster, isMaster, localModes, getModes, StateT.run, Bind.bind, StateT.bind, Except.bind, MonadState.get, getThe,
    MonadStateOf.get, StateT.get, Pure.pure, StateT.pure, Except.pure]

theorem run_masterFailJobs (st : St) :
    masterFailJobs.run st = .ok ((), if st.lostProcs then { st with out := st.out ++ [Out.failJobs] } else st) := by
  cases hl : st.lostProcs <;>
  simp [masterFailJobs, emit, hl, StateT.run, Bind.bind, StateT.bind, Except.bind, MonadState.get, getThe,
      MonadStateOf.get, StateT.get, Pure.pure, StateT.pure, Except.pure, _root_.modify, modifyGet,
      MonadStateOf.modifyGet, StateT.modifyGet]

theorem run_emit (o : Out) (st : St) : (emit o).run st = .ok ((), { st with out := st.out ++ [o] }) := by
  simp [emit, StateT.run, _root_.modify, modifyGet, MonadStateOf.modifyGet, StateT.modifyGet, Pure.pure, Except.pure]

end Supv.Conc.Fsm
