import Supv.Model.Stats

/-!
# Helper lemmas for `Supv.Stats` (C20)

Per-history predicates (bounded, aligned, spaced, sane values), their preservation by one `push`, and the lifting of
a per-history invariant through the compilers (`HostComp.push`, `ProcComp.push`) to streams (`run`).
-/

namespace Supv.Stats

/-! ## lists -/

theorem length_trunc {α : Type} (d : Nat) (l : List α) : (trunc d l).length = min l.length d := by
  unfold trunc; simp [List.length_drop]; omega

theorem mem_trunc {α : Type} {d : Nat} {l : List α} {x : α} (h : x ∈ trunc d l) : x ∈ l :=
  List.mem_of_mem_drop h

theorem trunc_sublist {α : Type} (d : Nat) (l : List α) : (trunc d l).Sublist l := List.drop_sublist _ _

theorem mem_dedup {l : List Int} {x : Int} (h : x ∈ dedup l) : x ∈ l := by
  induction l with
  | nil => simp [dedup] at h
  | cons a t ih =>
    simp only [dedup, List.mem_cons, List.mem_filter] at h
    rcases h with h | ⟨h, _⟩
    · exact h ▸ List.mem_cons_self
    · exact List.mem_cons_of_mem _ (ih h)

/-! ## association lists -/
namespace AL
variable {β : Type}

theorem mem_set {m : List (Nat × β)} {k : Nat} {v : β} {e : Nat × β} (h : e ∈ set m k v) : e ∈ m ∨ e = (k, v) := by
  induction m with
  | nil => simp [set] at h; exact Or.inr h
  | cons a t ih =>
    obtain ⟨k', v'⟩ := a
    simp only [set] at h
    split at h
    · simp only [List.mem_cons] at h ⊢
      rcases h with h | h
      · exact Or.inr h
      · exact Or.inl (Or.inr h)
    · simp only [List.mem_cons] at h ⊢
      rcases h with h | h
      · exact Or.inl (Or.inl h)
      · rcases ih h with h | h
        · exact Or.inl (Or.inr h)
        · exact Or.inr h

theorem get?_mem {m : List (Nat × β)} {k : Nat} {v : β} (h : get? m k = some v) : (k, v) ∈ m := by
  induction m with
  | nil => simp [get?] at h
  | cons a t ih =>
    obtain ⟨k', v'⟩ := a
    simp only [get?] at h
    split at h
    · rename_i hk
      simp at h
      subst hk; subst h
      exact List.mem_cons_self
    · exact List.mem_cons_of_mem _ (ih h)

theorem get?_set_self (m : List (Nat × β)) (k : Nat) (v : β) : get? (set m k v) k = some v := by
  induction m with
  | nil => simp [set, get?]
  | cons a t ih =>
    obtain ⟨k', v'⟩ := a
    simp only [set]
    split
    · simp [get?]
    · rename_i hk
      simp [get?, hk, ih]

theorem get?_erase_self (m : List (Nat × β)) (k : Nat) : get? (erase m k) k = none := by
  induction m with
  | nil => simp [erase, get?]
  | cons a t ih =>
    obtain ⟨k', v'⟩ := a
    simp only [erase, List.filter_cons]
    split
    · rename_i hk
      simp at hk
      simp only [get?, hk, if_false]
      exact ih
    · exact ih

theorem mem_erase {m : List (Nat × β)} {k : Nat} {e : Nat × β} (h : e ∈ erase m k) : e ∈ m :=
  (List.mem_filter.mp h).1

theorem set_ne_nil (m : List (Nat × β)) (k : Nat) (v : β) : set m k v ≠ [] := by
  cases m with
  | nil => simp [set]
  | cons a t =>
    obtain ⟨k', v'⟩ := a
    simp only [set]
    split <;> simp

end AL

/-! ## one host history: bounded -/

/-- at most `depth` points in the time series and in every value series of one interface / disk / partition -/
def TimedBounded (depth : Nat) (t : Timed) : Prop :=
  t.uptimes.length ≤ depth ∧ ∀ v ∈ t.vals, v.length ≤ depth

/-- every series of one host history holds at most `depth` points -/
structure HostBounded (h : HostInst) : Prop where
  times : h.times.length ≤ h.depth
  mem : h.mem.length ≤ h.depth
  cpu : ∀ l ∈ h.cpu, l.length ≤ h.depth
  net : ∀ t ∈ h.net, TimedBounded h.depth t
  disk : ∀ t ∈ h.disk, TimedBounded h.depth t
  usage : ∀ t ∈ h.usage, TimedBounded h.depth t

theorem pushTimed_bounded (depth : Nat) (hd : 0 < depth) (ref : List Timed) (stats : List (Nat × List Q)) (uptime : Int)
    : ∀ t ∈ pushTimed depth ref stats uptime, TimedBounded depth t := by
  intro t ht
  unfold pushTimed at ht
  simp only [List.mem_append, List.mem_filterMap, List.mem_map, List.mem_filter] at ht
  rcases ht with ⟨t0, ht0, hsome⟩ | ⟨⟨k, vs⟩, _, rfl⟩
  · split at hsome
    · simp only [Option.some.injEq] at hsome
      subst hsome
      refine ⟨by simp [length_trunc]; omega, ?_⟩
      intro v hv
      simp only [List.mem_map] at hv
      obtain ⟨⟨l, x⟩, _, rfl⟩ := hv
      simp [length_trunc]; omega
    · simp at hsome
  · refine ⟨by simp; omega, ?_⟩
    intro v hv
    simp only [List.mem_map] at hv
    obtain ⟨x, _, rfl⟩ := hv
    simp; omega

theorem pushCpu_bounded (depth : Nat) (hist : List (List Q)) (vals : List Q) (h : ∀ l ∈ hist, l.length ≤ depth) :
    ∀ l ∈ pushCpu depth hist vals, l.length ≤ depth := by
  intro l hl
  unfold pushCpu at hl
  simp only [List.mem_append, List.mem_map] at hl
  rcases hl with ⟨⟨l0, v⟩, _, rfl⟩ | hl
  · simp [length_trunc]; omega
  · exact h l (List.mem_of_mem_drop hl)

theorem push_depth (u : Units) (h : HostInst) (s : Sample) : (h.push u s).1.depth = h.depth := by
  unfold HostInst.push
  split
  · rfl
  · split
    · split
      · unfold commit; split <;> rfl
      · rfl
    · rfl

theorem push_period (u : Units) (h : HostInst) (s : Sample) : (h.push u s).1.period = h.period := by
  unfold HostInst.push
  split
  · rfl
  · split
    · split
      · unfold commit; split <;> rfl
      · rfl
    · rfl

theorem push_bounded (u : Units) (h : HostInst) (s : Sample) (hd : 0 < h.depth) (hok : HostBounded h) :
    HostBounded (h.push u s).1 := by
  unfold HostInst.push
  split
  · refine ⟨hok.times, hok.mem, ?_, ?_, ?_, ?_⟩ <;>
      simp [HostInst.first, TimedBounded] <;> (intros; subst_vars; simp)
  · split
    · split
      · unfold commit
        split
        · exact ⟨by simp [length_trunc]; omega, hok.mem, pushCpu_bounded _ _ _ hok.cpu, hok.net, hok.disk, hok.usage⟩
        · exact ⟨by simp [length_trunc]; omega, by simp [length_trunc]; omega, pushCpu_bounded _ _ _ hok.cpu,
            pushTimed_bounded _ hd _ _ _, pushTimed_bounded _ hd _ _ _,
            pushTimed_bounded _ hd _ _ _⟩
      · exact hok
    · exact hok


/-! ## one host history: aligned -/

/-- every value series of one interface / disk / partition has exactly as many points as its time series -/
def TimedAligned (t : Timed) : Prop := ∀ v ∈ t.vals, v.length = t.uptimes.length

/-- the history and its reference measure know `n` CPU entries -/
def HostCores (n : Nat) (h : HostInst) : Prop := ∀ r, h.ref = some r → r.cpu.length = n ∧ h.cpu.length = n

/-- every value series of one host history has exactly as many points as its time series -/
structure HostAligned (h : HostInst) : Prop where
  fresh : h.ref = none → h.times = [] ∧ h.mem = []
  mem : h.mem.length = h.times.length
  cpu : ∀ l ∈ h.cpu, l.length = h.times.length
  net : ∀ t ∈ h.net, TimedAligned t
  disk : ∀ t ∈ h.disk, TimedAligned t
  usage : ∀ t ∈ h.usage, TimedAligned t

theorem integrate_some {u : Units} {h : HostInst} {r s : Sample} {p : HostPoint} (hi : integrate u h r s = some p) :
    p.t0 = r.now - h.refStart ∧ p.t1 = s.now - h.refStart ∧ p.cpu = cpuStats s.cpu r.cpu ∧ p.mem = s.mem
      ∧ ioStats u s.net r.net (s.now - r.now) = some p.net ∧ ioStats u s.disk r.disk (s.now - r.now) = some p.disk
      ∧ p.usage = s.usage := by
  unfold integrate at hi
  split at hi
  · rename_i net disk hn hd
    simp only [Option.some.injEq] at hi
    subst hi
    exact ⟨rfl, rfl, rfl, rfl, hn, hd, rfl⟩
  · simp at hi

theorem length_cpuStats (latest ref : List (Int × Int)) : (cpuStats latest ref).length = min latest.length ref.length := by
  simp [cpuStats, List.length_zip]

theorem length_pushCpu (depth : Nat) (hist : List (List Q)) (vals : List Q) : (pushCpu depth hist vals).length = hist.length := by
  simp [pushCpu, List.length_zip]; omega

theorem pushCpu_aligned (depth n : Nat) (hist : List (List Q)) (vals : List Q) (hv : hist.length ≤ vals.length)
    (h : ∀ l ∈ hist, l.length = n) : ∀ l ∈ pushCpu depth hist vals, l.length = min (n + 1) depth := by
  intro l hl
  unfold pushCpu at hl
  rw [List.drop_eq_nil_of_le hv, List.append_nil] at hl
  simp only [List.mem_map] at hl
  obtain ⟨⟨l0, v⟩, hm, rfl⟩ := hl
  have := h l0 (List.of_mem_zip hm).1
  simp [length_trunc, this]

theorem pushTimed_aligned (depth : Nat) (ref : List Timed) (stats : List (Nat × List Q)) (uptime : Int)
    (h : ∀ t ∈ ref, TimedAligned t) : ∀ t ∈ pushTimed depth ref stats uptime, TimedAligned t := by
  intro t ht
  unfold pushTimed at ht
  simp only [List.mem_append, List.mem_filterMap, List.mem_map, List.mem_filter] at ht
  rcases ht with ⟨t0, ht0, hsome⟩ | ⟨⟨k, vs⟩, _, rfl⟩
  · split at hsome
    · simp only [Option.some.injEq] at hsome
      subst hsome
      intro v hv
      simp only [List.mem_map] at hv
      obtain ⟨⟨l, x⟩, hlx, rfl⟩ := hv
      have hl := h t0 ht0 l (List.of_mem_zip hlx).1
      simp [length_trunc, hl]
    · simp at hsome
  · intro v hv
    simp only [List.mem_map] at hv
    obtain ⟨x, _, rfl⟩ := hv
    simp

/-- with a stable number of CPU entries `_push_cpu_stats` never runs out of values -/
theorem commit_ok_of_cores {u : Units} {h : HostInst} {r s : Sample} {p : HostPoint} {n : Nat}
    (hc : HostCores n h) (hr : h.ref = some r) (hs : s.cpu.length = n) (hi : integrate u h r s = some p) :
    ¬ p.cpu.length < h.cpu.length := by
  obtain ⟨h1, h2⟩ := hc r hr
  rw [(integrate_some hi).2.2.1, length_cpuStats]
  omega

theorem push_cores (u : Units) (h : HostInst) (s : Sample) (n : Nat) (hs : s.cpu.length = n) (hc : HostCores n h) :
    HostCores n (h.push u s).1 := by
  unfold HostInst.push
  split
  · intro r hr
    simp only [HostInst.first, Option.some.injEq] at hr
    subst hr
    simp [HostInst.first, hs]
  · rename_i r hr
    split
    · split
      · unfold commit
        split
        · intro r' hr'
          simp only [hr, Option.some.injEq] at hr'
          subst hr'
          exact ⟨(hc r hr).1, by simp [length_pushCpu, (hc r hr).2]⟩
        · intro r' hr'
          simp only [Option.some.injEq] at hr'
          subst hr'
          exact ⟨hs, by simp [length_pushCpu, (hc r hr).2]⟩
      · exact hc
    · exact hc

theorem push_aligned (u : Units) (h : HostInst) (s : Sample) (n : Nat) (hs : s.cpu.length = n) (hc : HostCores n h)
    (hok : HostAligned h) : HostAligned (h.push u s).1 := by
  unfold HostInst.push
  split
  · rename_i hr
    obtain ⟨ht, hm⟩ := hok.fresh hr
    refine ⟨by simp [HostInst.first], by simp [HostInst.first, ht, hm], ?_, ?_, ?_, ?_⟩ <;>
      simp [HostInst.first, TimedAligned, ht] <;> (intros; subst_vars; simp_all)
  · rename_i r hr
    split
    · split
      · rename_i p hi
        have hno := commit_ok_of_cores hc hr hs hi
        unfold commit
        rw [if_neg hno]
        refine ⟨by simp, by simp [length_trunc, hok.mem], ?_, pushTimed_aligned _ _ _ _ hok.net,
          pushTimed_aligned _ _ _ _ hok.disk, pushTimed_aligned _ _ _ _ hok.usage⟩
        intro l hl
        have := pushCpu_aligned h.depth h.times.length h.cpu p.cpu (by omega) hok.cpu l hl
        simp [length_trunc, this]
      · exact hok
    · exact hok


/-! ## one host history: points are at least one period apart -/

/-- consecutive (hence all) points of a time series are at least `period` apart and none is later than `bound` -/
def Spaced (period bound : Int) (l : List Int) : Prop :=
  l.Pairwise (fun a b => a + period ≤ b) ∧ ∀ t ∈ l, t ≤ bound

theorem spaced_nil (period bound : Int) : Spaced period bound [] := ⟨List.Pairwise.nil, by simp⟩

theorem spaced_single (period x : Int) : Spaced period x [x] := ⟨List.pairwise_singleton _ _, by simp⟩

theorem spaced_push {period bound x : Int} {l : List Int} (d : Nat) (hp : 0 ≤ period) (h : Spaced period bound l)
    (hx : bound + period ≤ x) : Spaced period x (trunc d (l ++ [x])) := by
  have hall : Spaced period x (l ++ [x]) := by
    refine ⟨List.pairwise_append.mpr ⟨h.1, List.pairwise_singleton _ _, ?_⟩, ?_⟩
    · intro a ha b hb
      simp only [List.mem_singleton] at hb
      have := h.2 a ha
      omega
    · intro t ht
      simp only [List.mem_append, List.mem_singleton] at ht
      rcases ht with ht | ht
      · have := h.2 t ht; omega
      · omega
  exact ⟨hall.1.sublist (trunc_sublist _ _), fun t ht => hall.2 t (mem_trunc ht)⟩

/-- every time series of one host history is `Spaced` by the period, up to the reference measure -/
structure HostSpaced (h : HostInst) : Prop where
  fresh : h.ref = none → h.times = [] ∧ h.net = [] ∧ h.disk = [] ∧ h.usage = []
  times : ∀ r, h.ref = some r → Spaced h.period (r.now - h.refStart) h.times
  net : ∀ r, h.ref = some r → ∀ t ∈ h.net, Spaced h.period (r.now - h.refStart) t.uptimes
  disk : ∀ r, h.ref = some r → ∀ t ∈ h.disk, Spaced h.period (r.now - h.refStart) t.uptimes
  usage : ∀ r, h.ref = some r → ∀ t ∈ h.usage, Spaced h.period (r.now - h.refStart) t.uptimes

theorem pushTimed_spaced {period bound x : Int} (depth : Nat) (ref : List Timed) (stats : List (Nat × List Q))
    (hp : 0 ≤ period) (hx : bound + period ≤ x) (h : ∀ t ∈ ref, Spaced period bound t.uptimes) :
    ∀ t ∈ pushTimed depth ref stats x, Spaced period x t.uptimes := by
  intro t ht
  unfold pushTimed at ht
  simp only [List.mem_append, List.mem_filterMap, List.mem_map, List.mem_filter] at ht
  rcases ht with ⟨t0, ht0, hsome⟩ | ⟨⟨k, vs⟩, _, rfl⟩
  · split at hsome
    · simp only [Option.some.injEq] at hsome
      subst hsome
      exact spaced_push depth hp (h t0 ht0) hx
    · simp at hsome
  · exact spaced_single _ _

theorem push_spaced (u : Units) (h : HostInst) (s : Sample) (n : Nat) (hs : s.cpu.length = n) (hc : HostCores n h)
    (hp : 0 ≤ h.period) (hok : HostSpaced h) : HostSpaced (h.push u s).1 := by
  unfold HostInst.push
  split
  · rename_i hr
    have ht := (hok.fresh hr).1
    refine ⟨by simp [HostInst.first], ?_, ?_, ?_, ?_⟩ <;>
      (intro r hr'; simp only [HostInst.first, Option.some.injEq] at hr'; subst hr'; simp [HostInst.first, ht, spaced_nil])
    all_goals (intros; subst_vars; exact spaced_nil _ _)
  · rename_i r hr
    split
    · rename_i hgate
      split
      · rename_i p hi
        have hno := commit_ok_of_cores hc hr hs hi
        have ht1 := (integrate_some hi).2.1
        have hx : (r.now - h.refStart) + h.period ≤ p.t1 := by omega
        unfold commit
        rw [if_neg hno]
        refine ⟨by simp, ?_, ?_, ?_, ?_⟩ <;>
          (intro r' hr'; simp only [Option.some.injEq] at hr'; subst hr'; rw [← ht1])
        · exact spaced_push _ hp (hok.times r hr) hx
        · exact pushTimed_spaced _ _ _ hp hx (hok.net r hr)
        · exact pushTimed_spaced _ _ _ hp hx (hok.disk r hr)
        · exact pushTimed_spaced _ _ _ hp hx (hok.usage r hr)
      · exact hok
    · exact hok

/-! ## one host history: I/O rates are non-negative fractions with a positive denominator -/

/-- a well-defined ("finite") non-negative fraction -/
def QSane (q : Q) : Prop := 0 < q.2 ∧ 0 ≤ q.1

theorem ioPairs_nonneg {last ref : List (Nat × Int × Int)} {x : Nat × Int × Int} (h : x ∈ ioPairs last ref) :
    0 ≤ x.2.1 ∧ 0 ≤ x.2.2 := by
  unfold ioPairs at h
  simp only [List.mem_filterMap] at h
  obtain ⟨⟨k, lin, lout⟩, _, hx⟩ := h
  simp only at hx
  split at hx
  · split at hx
    · simp only [Option.some.injEq] at hx
      subst hx
      simp only
      omega
    · simp at hx
  · simp at hx

theorem ioStats_sane {u : Units} {last ref : List (Nat × Int × Int)} {duration : Int} {res : List (Nat × List Q)}
    (htps : 0 < u.tps) (hd : 0 < duration) (h : ioStats u last ref duration = some res) :
    ∀ kv ∈ res, ∀ q ∈ kv.2, QSane q := by
  unfold ioStats at h
  simp only at h
  split at h
  · simp at h
  · simp only [Option.some.injEq] at h
    subst h
    intro kv hkv q hq
    simp only [List.mem_map] at hkv
    obtain ⟨⟨k, i, o⟩, hx, rfl⟩ := hkv
    have hnn := ioPairs_nonneg hx
    simp only [List.mem_cons, List.not_mem_nil, or_false] at hq
    rcases hq with rfl | rfl
    · exact ⟨by simp [rate]; omega, Int.mul_nonneg hnn.1 (Int.le_of_lt htps)⟩
    · exact ⟨by simp [rate]; omega, Int.mul_nonneg hnn.2 (Int.le_of_lt htps)⟩

def TimedSane (t : Timed) : Prop := ∀ l ∈ t.vals, ∀ q ∈ l, QSane q

/-- every stored network / disk I/O rate is sane -/
structure HostIoSane (h : HostInst) : Prop where
  net : ∀ t ∈ h.net, TimedSane t
  disk : ∀ t ∈ h.disk, TimedSane t

theorem pushTimed_sane (depth : Nat) (ref : List Timed) (stats : List (Nat × List Q)) (uptime : Int)
    (hs : ∀ kv ∈ stats, ∀ q ∈ kv.2, QSane q) (h : ∀ t ∈ ref, TimedSane t) :
    ∀ t ∈ pushTimed depth ref stats uptime, TimedSane t := by
  intro t ht
  unfold pushTimed at ht
  simp only [List.mem_append, List.mem_filterMap, List.mem_map, List.mem_filter] at ht
  rcases ht with ⟨t0, ht0, hsome⟩ | ⟨⟨k, vs⟩, ⟨hkv, _⟩, rfl⟩
  · split at hsome
    · rename_i k vs hfind
      simp only [Option.some.injEq] at hsome
      subst hsome
      intro l hl q hq
      simp only [List.mem_map] at hl
      obtain ⟨⟨l0, v⟩, hm, rfl⟩ := hl
      have hq' := mem_trunc hq
      simp only [List.mem_append, List.mem_singleton] at hq'
      rcases hq' with hq' | rfl
      · exact h t0 ht0 l0 (List.of_mem_zip hm).1 q hq'
      · exact hs _ (List.mem_of_find?_eq_some hfind) _ (List.of_mem_zip hm).2
    · simp at hsome
  · intro l hl q hq
    simp only [List.mem_map] at hl
    obtain ⟨v, hv, rfl⟩ := hl
    simp only [List.mem_singleton] at hq
    subst hq
    exact hs _ hkv _ hv

theorem push_ioSane (u : Units) (h : HostInst) (s : Sample) (htps : 0 < u.tps) (hp : 0 < h.period) (hok : HostIoSane h) :
    HostIoSane (h.push u s).1 := by
  unfold HostInst.push
  split
  · refine ⟨?_, ?_⟩ <;> (intro t ht; simp only [HostInst.first, List.mem_map] at ht; obtain ⟨kv, _, rfl⟩ := ht;
                          intro l hl q hq; simp at hl; rcases hl with rfl | rfl <;> simp at hq)
  · rename_i r hr
    split
    · rename_i hgate
      split
      · rename_i p hi
        obtain ⟨_, _, _, _, hn, hd, _⟩ := integrate_some hi
        have hdur : 0 < s.now - r.now := by omega
        unfold commit
        split
        · exact ⟨hok.net, hok.disk⟩
        · exact ⟨pushTimed_sane _ _ _ _ (ioStats_sane htps hdur hn) hok.net,
                 pushTimed_sane _ _ _ _ (ioStats_sane htps hdur hd) hok.disk⟩
      · exact hok
    · exact hok


/-! ## CPU percentages -/

/-- a fraction in [0, 100] with a positive denominator -/
def CpuOk (q : Q) : Prop := 0 < q.2 ∧ 0 ≤ q.1 ∧ q.1 ≤ 100 * q.2

/-- non-decreasing counters: every (work, idle) pair of `latest` is at least the pair of `ref` for the same core -/
def CpuLe (ref latest : List (Int × Int)) : Prop := ∀ p ∈ latest.zip ref, p.2.1 ≤ p.1.1 ∧ p.2.2 ≤ p.1.2

theorem cpuStats_ok {latest ref : List (Int × Int)} (hmono : CpuLe ref latest) : ∀ q ∈ cpuStats latest ref, CpuOk q := by
  intro q hq
  unfold cpuStats at hq
  simp only [List.mem_map] at hq
  obtain ⟨⟨⟨lw, li⟩, ⟨rw, ri⟩⟩, hp, rfl⟩ := hq
  have := hmono _ hp
  simp only at this ⊢
  unfold CpuOk
  split <;> simp <;> omega

/-- every stored CPU percentage is in range -/
def HostCpuSane (h : HostInst) : Prop := ∀ l ∈ h.cpu, ∀ q ∈ l, CpuOk q

theorem pushCpu_sane (depth : Nat) (hist : List (List Q)) (vals : List Q) (hv : ∀ q ∈ vals, CpuOk q)
    (h : ∀ l ∈ hist, ∀ q ∈ l, CpuOk q) : ∀ l ∈ pushCpu depth hist vals, ∀ q ∈ l, CpuOk q := by
  intro l hl q hq
  unfold pushCpu at hl
  simp only [List.mem_append, List.mem_map] at hl
  rcases hl with ⟨⟨l0, v⟩, hm, rfl⟩ | hl
  · have hq' := mem_trunc hq
    simp only [List.mem_append, List.mem_singleton] at hq'
    rcases hq' with hq' | rfl
    · exact h l0 (List.of_mem_zip hm).1 q hq'
    · exact hv _ (List.of_mem_zip hm).2
  · exact h l (List.mem_of_mem_drop hl) q hq

/-- one push keeps the stored CPU percentages in range when the counters did not decrease since the reference -/
theorem push_cpuSane (u : Units) (h : HostInst) (s : Sample) (hmono : ∀ r, h.ref = some r → CpuLe r.cpu s.cpu)
    (hok : HostCpuSane h) : HostCpuSane (h.push u s).1 := by
  unfold HostInst.push
  split
  · intro l hl q hq
    simp only [HostInst.first, List.mem_map] at hl
    obtain ⟨_, _, rfl⟩ := hl
    simp at hq
  · rename_i r hr
    split
    · split
      · rename_i p hi
        have hcpu := (integrate_some hi).2.2.1
        have hv : ∀ q ∈ p.cpu, CpuOk q := by rw [hcpu]; exact cpuStats_ok (hmono r hr)
        unfold commit
        split <;> exact pushCpu_sane _ _ _ hv hok
      · exact hok
    · exact hok

/-- the reference measure after a push is the old one or the pushed measure -/
theorem push_ref (u : Units) (h : HostInst) (s : Sample) :
    (h.push u s).1.ref = some s ∨ (h.push u s).1.ref = h.ref := by
  unfold HostInst.push
  split
  · exact Or.inl rfl
  · split
    · split
      · unfold commit
        split
        · exact Or.inr rfl
        · exact Or.inl rfl
      · exact Or.inr rfl
    · exact Or.inr rfl

/-! ## one process history -/

/-- every series of one process history holds at most `depth` points -/
structure ProcBounded (p : ProcInst) : Prop where
  times : p.times.length ≤ p.depth
  cpu : p.cpu.length ≤ p.depth
  mem : p.mem.length ≤ p.depth

/-- the CPU and memory series of one process history have exactly as many points as its time series -/
structure ProcAligned (p : ProcInst) : Prop where
  cpu : p.cpu.length = p.times.length
  mem : p.mem.length = p.times.length

/-- the points of one process history are at least one period apart -/
structure ProcSpaced (p : ProcInst) : Prop where
  fresh : p.ref = none → p.times = []
  times : ∀ r, p.ref = some r → Spaced p.period (r.now - p.refStart) p.times

theorem ppush_depth (u : Units) (p : ProcInst) (s : PSample) : (p.push u s).1.depth = p.depth := by
  unfold ProcInst.push
  split
  · rfl
  · split
    · split <;> rfl
    · rfl

theorem ppush_period (u : Units) (p : ProcInst) (s : PSample) : (p.push u s).1.period = p.period := by
  unfold ProcInst.push
  split
  · rfl
  · split
    · split <;> rfl
    · rfl

theorem ppush_pid (u : Units) (p : ProcInst) (s : PSample) : (p.push u s).1.pid = p.pid := by
  unfold ProcInst.push
  split
  · rfl
  · split
    · split <;> rfl
    · rfl

theorem ppush_bounded (u : Units) (p : ProcInst) (s : PSample) (hok : ProcBounded p) : ProcBounded (p.push u s).1 := by
  unfold ProcInst.push
  split
  · exact ⟨hok.times, hok.cpu, hok.mem⟩
  · split
    · split
      · exact hok
      · exact ⟨by simp [length_trunc]; omega, by simp [length_trunc]; omega, by simp [length_trunc]; omega⟩
    · exact hok

theorem ppush_aligned (u : Units) (p : ProcInst) (s : PSample) (hok : ProcAligned p) : ProcAligned (p.push u s).1 := by
  unfold ProcInst.push
  split
  · exact ⟨hok.cpu, hok.mem⟩
  · split
    · split
      · exact hok
      · exact ⟨by simp [length_trunc, hok.cpu], by simp [length_trunc, hok.mem]⟩
    · exact hok

theorem ppush_spaced (u : Units) (p : ProcInst) (s : PSample) (hp : 0 ≤ p.period) (hok : ProcSpaced p) :
    ProcSpaced (p.push u s).1 := by
  unfold ProcInst.push
  split
  · rename_i hr
    refine ⟨by simp, ?_⟩
    intro r hr'
    simp only [Option.some.injEq] at hr'
    subst hr'
    simp [hok.fresh hr, spaced_nil]
  · rename_i r hr
    split
    · split
      · exact hok
      · refine ⟨by simp, ?_⟩
        intro r' hr'
        simp only [Option.some.injEq] at hr'
        subst hr'
        have hx : (r.now - p.refStart) + p.period ≤ s.now - p.refStart := by omega
        exact spaced_push _ hp (hok.times r hr) hx
    · exact hok


/-! ## lifting a per-history invariant through the compilers -/

theorem pushAll_mem (u : Units) (s : Sample) : ∀ (hs : List HostInst) (h' : HostInst),
    h' ∈ (pushAll u hs s).1 → ∃ h ∈ hs, h' = h ∨ h' = (h.push u s).1 := by
  intro hs
  induction hs with
  | nil => intro h' hm; simp [pushAll] at hm
  | cons h t ih =>
    intro h' hm
    unfold pushAll at hm
    split at hm
    · rename_i h1 e heq
      simp only [List.mem_cons] at hm
      rcases hm with rfl | hm
      · exact ⟨h, List.mem_cons_self, Or.inr (by rw [heq])⟩
      · exact ⟨h', List.mem_cons_of_mem _ hm, Or.inl rfl⟩
    · rename_i h1 heq
      simp only [List.mem_cons] at hm
      rcases hm with rfl | hm
      · exact ⟨h, List.mem_cons_self, Or.inr (by rw [heq])⟩
      · obtain ⟨h0, hm0, hh⟩ := ih h' hm
        exact ⟨h0, List.mem_cons_of_mem _ hm0, hh⟩
    · rename_i h1 p heq
      simp only [List.mem_cons] at hm
      rcases hm with rfl | hm
      · exact ⟨h, List.mem_cons_self, Or.inr (by rw [heq])⟩
      · obtain ⟨h0, hm0, hh⟩ := ih h' hm
        exact ⟨h0, List.mem_cons_of_mem _ hm0, hh⟩

/-- a point returned by the loop over the periods was returned by the history of that period -/
theorem pushAll_points (u : Units) (s : Sample) : ∀ (hs : List HostInst) (x : Int × HostPoint),
    x ∈ (pushAll u hs s).2.1 → ∃ h ∈ hs, h.period = x.1 ∧ (h.push u s).2 = .point x.2 := by
  intro hs
  induction hs with
  | nil => intro x hm; simp [pushAll] at hm
  | cons h t ih =>
    intro x hm
    unfold pushAll at hm
    split at hm
    · simp at hm
    · obtain ⟨h0, hm0, hh⟩ := ih x hm
      exact ⟨h0, List.mem_cons_of_mem _ hm0, hh⟩
    · rename_i h1 p heq
      simp only [List.mem_cons] at hm
      rcases hm with rfl | hm
      · exact ⟨h, List.mem_cons_self, rfl, by rw [heq]⟩
      · obtain ⟨h0, hm0, hh⟩ := ih x hm
        exact ⟨h0, List.mem_cons_of_mem _ hm0, hh⟩

theorem HostComp.push_insts (u : Units) (depth : Nat) (periods : List Int) (c : HostComp) (id : Nat) (s : Sample) :
    (c.push u depth periods id s).1.insts
      = AL.set (c.ensure depth periods id).insts id
          (pushAll u ((AL.get? (c.ensure depth periods id).insts id).getD []) s).1 := by
  unfold HostComp.push
  simp only
  split <;> rfl

theorem HostComp.ensure_mem {depth : Nat} {periods : List Int} {c : HostComp} {id : Nat} {e : Nat × List HostInst}
    (h : e ∈ (c.ensure depth periods id).insts) : e ∈ c.insts ∨ e = (id, freshHost depth periods) := by
  unfold HostComp.ensure at h
  split at h
  · exact Or.inl h
  · exact AL.mem_set h

/-- every history of the compiler after a push is: an untouched one, a pushed one, or a fresh one that got its
    first measure -/
theorem HostComp.push_all (u : Units) (depth : Nat) (periods : List Int) (c : HostComp) (id : Nat) (s : Sample)
    {P P' : Nat → HostInst → Prop} (hkeep : ∀ i h, P i h → P' i h)
    (hfresh : ∀ p ∈ dedup periods, P id { period := p, depth := depth })
    (hstep : ∀ h, P id h → P' id (h.push u s).1)
    (hc : ∀ e ∈ c.insts, ∀ h ∈ e.2, P e.1 h) :
    ∀ e ∈ (c.push u depth periods id s).1.insts, ∀ h ∈ e.2, P' e.1 h := by
  have h1 : ∀ e ∈ (c.ensure depth periods id).insts, ∀ h ∈ e.2, P e.1 h := by
    intro e he h hh
    rcases HostComp.ensure_mem he with he | rfl
    · exact hc e he h hh
    · simp only [freshHost, List.mem_map] at hh
      obtain ⟨p, hp, rfl⟩ := hh
      exact hfresh p hp
  intro e he h hh
  rw [HostComp.push_insts] at he
  rcases AL.mem_set he with he | rfl
  · exact hkeep _ _ (h1 e he h hh)
  · obtain ⟨h0, hm0, hh0⟩ := pushAll_mem u s _ h hh
    have hP : P id h0 := by
      cases hg : AL.get? (c.ensure depth periods id).insts id with
      | none => simp [hg] at hm0
      | some hs =>
        simp only [hg, Option.getD_some] at hm0
        exact h1 _ (AL.get?_mem hg) h0 hm0
    rcases hh0 with rfl | rfl
    · exact hkeep _ _ hP
    · exact hstep _ hP

theorem ppushAll_mem (u : Units) (s : PSample) : ∀ (ps : List ProcInst) (p' : ProcInst),
    p' ∈ (ppushAll u ps s).1 → ∃ p ∈ ps, p' = p ∨ p' = (p.push u s).1 := by
  intro ps
  induction ps with
  | nil => intro p' hm; simp [ppushAll] at hm
  | cons p t ih =>
    intro p' hm
    unfold ppushAll at hm
    split at hm
    · rename_i p1 e heq
      simp only [List.mem_cons] at hm
      rcases hm with rfl | hm
      · exact ⟨p, List.mem_cons_self, Or.inr (by rw [heq])⟩
      · exact ⟨p', List.mem_cons_of_mem _ hm, Or.inl rfl⟩
    · rename_i p1 heq
      simp only [List.mem_cons] at hm
      rcases hm with rfl | hm
      · exact ⟨p, List.mem_cons_self, Or.inr (by rw [heq])⟩
      · obtain ⟨p0, hm0, hh⟩ := ih p' hm
        exact ⟨p0, List.mem_cons_of_mem _ hm0, hh⟩
    · rename_i p1 x heq
      simp only [List.mem_cons] at hm
      rcases hm with rfl | hm
      · exact ⟨p, List.mem_cons_self, Or.inr (by rw [heq])⟩
      · obtain ⟨p0, hm0, hh⟩ := ih p' hm
        exact ⟨p0, List.mem_cons_of_mem _ hm0, hh⟩

theorem ppushAll_points (u : Units) (s : PSample) : ∀ (ps : List ProcInst) (x : Int × ProcPoint),
    x ∈ (ppushAll u ps s).2.1 → ∃ p ∈ ps, p.period = x.1 ∧ (p.push u s).2 = .point x.2 := by
  intro ps
  induction ps with
  | nil => intro x hm; simp [ppushAll] at hm
  | cons p t ih =>
    intro x hm
    unfold ppushAll at hm
    split at hm
    · simp at hm
    · obtain ⟨p0, hm0, hh⟩ := ih x hm
      exact ⟨p0, List.mem_cons_of_mem _ hm0, hh⟩
    · rename_i p1 y heq
      simp only [List.mem_cons] at hm
      rcases hm with rfl | hm
      · exact ⟨p, List.mem_cons_self, rfl, by rw [heq]⟩
      · obtain ⟨p0, hm0, hh⟩ := ih x hm
        exact ⟨p0, List.mem_cons_of_mem _ hm0, hh⟩

theorem Holder.current_mem {depth : Nat} {periods : List Int} {h : Holder} {id : Nat} {s : PSample} {p : ProcInst}
    (hp : p ∈ h.current depth periods id s) :
    (∃ x ∈ h.entries, p ∈ x.2.2) ∨ p ∈ freshProc depth periods s.pid := by
  unfold Holder.current at hp
  split at hp
  · rename_i rpid x t hg
    split at hp
    · exact Or.inl ⟨_, AL.get?_mem hg, hp⟩
    · exact Or.inr hp
  · exact Or.inr hp

theorem Holder.push_all (u : Units) (depth : Nat) (periods : List Int) (h : Holder) (id : Nat) (s : PSample)
    {P P' : ProcInst → Prop} (hkeep : ∀ p, P p → P' p)
    (hfresh : ∀ q ∈ dedup periods, P { pid := s.pid, period := q, depth := depth })
    (hstep : ∀ p, P p → P' (p.push u s).1)
    (hc : ∀ x ∈ h.entries, ∀ p ∈ x.2.2, P p) :
    ∀ x ∈ (h.push u depth periods id s).1.entries, ∀ p ∈ x.2.2, P' p := by
  intro x hx p hp
  unfold Holder.push at hx
  split at hx
  · exact hkeep _ (hc x (AL.mem_erase hx) p hp)
  · have hcur : ∀ p0 ∈ h.current depth periods id s, P p0 := by
      intro p0 hp0
      rcases Holder.current_mem hp0 with ⟨x0, hx0, hm⟩ | hf
      · exact hc x0 hx0 p0 hm
      · simp only [freshProc, List.mem_map] at hf
        obtain ⟨q, hq, rfl⟩ := hf
        exact hfresh q hq
    have hx' : x ∈ AL.set h.entries id (s.pid, (ppushAll u (h.current depth periods id s) s).1) := by
      simp only at hx
      split at hx <;> exact hx
    rcases AL.mem_set hx' with hx' | rfl
    · exact hkeep _ (hc x hx' p hp)
    · obtain ⟨p0, hm0, hh⟩ := ppushAll_mem u s _ p hp
      rcases hh with rfl | rfl
      · exact hkeep _ (hcur _ hm0)
      · exact hstep _ (hcur _ hm0)

theorem ProcComp.setCores_holders (c : ProcComp) (id : Nat) (s : PSample) : (c.setCores id s).holders = c.holders := by
  unfold ProcComp.setCores
  split <;> rfl

theorem ProcComp.push_all (u : Units) (depth : Nat) (periods : List Int) (c : ProcComp) (id : Nat) (s : PSample)
    {P P' : ProcInst → Prop} (hkeep : ∀ p, P p → P' p)
    (hfresh : ∀ q ∈ dedup periods, P { pid := s.pid, period := q, depth := depth })
    (hstep : ∀ p, P p → P' (p.push u s).1)
    (hc : ∀ e ∈ c.holders, ∀ x ∈ e.2.entries, ∀ p ∈ x.2.2, P p) :
    ∀ e ∈ (c.push u depth periods id s).1.holders, ∀ x ∈ e.2.entries, ∀ p ∈ x.2.2, P' p := by
  have hold : ∀ e ∈ c.holders, ∀ x ∈ e.2.entries, ∀ p ∈ x.2.2, P' p :=
    fun e he x hx p hp => hkeep _ (hc e he x hx p hp)
  intro e he
  unfold ProcComp.push at he
  split at he
  · rw [ProcComp.setCores_holders] at he
    exact hold e he
  · have hho : ∀ x ∈ ((AL.get? c.holders s.ns).getD {}).entries, ∀ p ∈ x.2.2, P p := by
      cases hg : AL.get? c.holders s.ns with
      | none => intro x hx; simp at hx
      | some h0 =>
        intro x hx p hp
        exact hc _ (AL.get?_mem hg) x hx p hp
    have hnew := Holder.push_all u depth periods ((AL.get? c.holders s.ns).getD {}) id s hkeep hfresh hstep hho
    simp only at he
    split at he
    · rcases AL.mem_set he with he | rfl
      · exact hold e he
      · exact hnew
    · split at he
      · rw [ProcComp.setCores_holders] at he
        exact hold e (AL.mem_erase he)
      · rw [ProcComp.setCores_holders] at he
        rcases AL.mem_set he with he | rfl
        · exact hold e he
        · exact hnew


/-! ## streams -/

/-- `P identifier history` holds for every host history kept by the compiler -/
def World.AllHost (w : World) (P : Nat → HostInst → Prop) : Prop := ∀ e ∈ w.host.insts, ∀ h ∈ e.2, P e.1 h

/-- `P history` holds for every process history kept by the compiler -/
def World.AllProc (w : World) (P : ProcInst → Prop) : Prop :=
  ∀ e ∈ w.proc.holders, ∀ x ∈ e.2.entries, ∀ p ∈ x.2.2, P p

theorem allHost_init (P : Nat → HostInst → Prop) : ({} : World).AllHost P := by
  intro e he; simp at he

theorem allProc_init (P : ProcInst → Prop) : ({} : World).AllProc P := by
  intro e he; simp at he

theorem step_allHost (cfg : Cfg) (w : World) (op : Op) {P P' : Nat → HostInst → Prop}
    (hkeep : ∀ i h, P i h → P' i h)
    (hfresh : ∀ id s, op = .hpush id s → ∀ p ∈ dedup cfg.periods, P id { period := p, depth := cfg.depth })
    (hstep : ∀ id s, op = .hpush id s → ∀ h, P id h → P' id (h.push cfg.u s).1)
    (hw : w.AllHost P) : (step cfg w op).1.AllHost P' := by
  cases op with
  | hpush id s =>
    exact HostComp.push_all cfg.u cfg.depth cfg.periods w.host id s hkeep (hfresh id s rfl) (hstep id s rfl) hw
  | ppush id s =>
    intro e he h hh
    exact hkeep _ _ (hw e he h hh)

theorem step_allProc (cfg : Cfg) (w : World) (op : Op) {P P' : ProcInst → Prop}
    (hkeep : ∀ p, P p → P' p)
    (hfresh : ∀ id s, op = .ppush id s → ∀ q ∈ dedup cfg.periods, P { pid := s.pid, period := q, depth := cfg.depth })
    (hstep : ∀ id s, op = .ppush id s → ∀ p, P p → P' (p.push cfg.u s).1)
    (hw : w.AllProc P) : (step cfg w op).1.AllProc P' := by
  cases op with
  | hpush id s =>
    intro e he x hx p hp
    exact hkeep _ (hw e he x hx p hp)
  | ppush id s =>
    exact ProcComp.push_all cfg.u cfg.depth cfg.periods w.proc id s hkeep (hfresh id s rfl) (hstep id s rfl) hw

/-- induction over a stream, for an invariant that may depend on the measures still to come -/
theorem run_induction (cfg : Cfg) (I : List Op → World → Prop)
    (hstep : ∀ w op rest, I (op :: rest) w → I rest (step cfg w op).1) :
    ∀ (ops : List Op) (w : World), I ops w → I [] (run cfg w ops) := by
  intro ops
  induction ops with
  | nil => intro w h; exact h
  | cons op t ih =>
    intro w h
    simp only [run, List.foldl_cons]
    exact ih _ (hstep w op t h)

/-- a per-history invariant of the host side that is true of fresh histories and kept by every push holds after
    any stream (`ok` restricts the measures of the stream) -/
theorem run_allHost (cfg : Cfg) (P : Nat → HostInst → Prop) (ok : Nat → Sample → Prop)
    (hfresh : ∀ id, ∀ p ∈ dedup cfg.periods, P id { period := p, depth := cfg.depth })
    (hstep : ∀ id s h, ok id s → P id h → P id (h.push cfg.u s).1)
    (ops : List Op) (hops : ∀ id s, Op.hpush id s ∈ ops → ok id s) (w : World) (hw : w.AllHost P) :
    (run cfg w ops).AllHost P := by
  refine run_induction cfg (fun rest w => (∀ id s, Op.hpush id s ∈ rest → ok id s) ∧ w.AllHost P) ?_ ops w ⟨hops, hw⟩ |>.2
  intro w op rest ⟨h1, h2⟩
  refine ⟨fun id s hm => h1 id s (List.mem_cons_of_mem _ hm), ?_⟩
  exact step_allHost cfg w op (fun _ _ h => h) (fun id _ _ => hfresh id)
    (fun id s heq h hP => hstep id s h (h1 id s (heq ▸ List.mem_cons_self)) hP) h2

theorem run_allProc (cfg : Cfg) (P : ProcInst → Prop)
    (hfresh : ∀ pid, ∀ q ∈ dedup cfg.periods, P { pid := pid, period := q, depth := cfg.depth })
    (hstep : ∀ s p, P p → P (p.push cfg.u s).1)
    (ops : List Op) (w : World) (hw : w.AllProc P) : (run cfg w ops).AllProc P := by
  refine run_induction cfg (fun _ w => w.AllProc P) ?_ ops w hw
  intro w op rest h
  exact step_allProc cfg w op (fun _ h => h) (fun _ s _ => hfresh s.pid) (fun _ s _ p hP => hstep s p hP) h


/-! ## stop, (re)start -/

/-- the pid under which the history of a process on an identifier is registered -/
def ProcComp.pidOf (c : ProcComp) (ns id : Nat) : Option Int :=
  match AL.get? c.holders ns with
  | some h => (AL.get? h.entries id).map (·.1)
  | none => none

/-- a fresh history after its first measure -/
def startedProc (depth : Nat) (s : PSample) (q : Int) : ProcInst :=
  { pid := s.pid, period := q, depth := depth, ref := some s, refStart := s.now }

theorem ppushAll_fresh (u : Units) (depth : Nat) (s : PSample) (l : List Int) :
    ppushAll u (l.map fun q => ({ pid := s.pid, period := q, depth := depth } : ProcInst)) s
      = (l.map (startedProc depth s), [], none) := by
  induction l with
  | nil => rfl
  | cons q t ih =>
    simp only [List.map_cons, ppushAll, ProcInst.push, ih]
    rfl

theorem Holder.current_fresh {depth : Nat} {periods : List Int} {h : Holder} {id : Nat} {s : PSample}
    (hp : (AL.get? h.entries id).map (·.1) ≠ some s.pid) :
    h.current depth periods id s = freshProc depth periods s.pid := by
  unfold Holder.current
  split
  · rename_i rpid x t hg
    split
    · rename_i heq
      simp [hg, heq] at hp
    · rfl
  · rfl

theorem Holder.push_start (u : Units) (depth : Nat) (periods : List Int) (h : Holder) (id : Nat) (s : PSample)
    (hpid : s.pid ≠ 0) (hp : (AL.get? h.entries id).map (·.1) ≠ some s.pid) :
    h.push u depth periods id s
      = ({ entries := AL.set h.entries id (s.pid, (dedup periods).map (startedProc depth s)) }, [], none) := by
  unfold Holder.push
  rw [if_neg hpid, Holder.current_fresh hp]
  simp only [freshProc, ppushAll_fresh]

theorem ProcComp.insts_setCores (c : ProcComp) (id' : Nat) (s : PSample) (ns id : Nat) :
    (c.setCores id' s).insts ns id = c.insts ns id := by
  unfold ProcComp.insts
  rw [ProcComp.setCores_holders]

theorem ProcComp.push_start (u : Units) (depth : Nat) (periods : List Int) (c : ProcComp) (id : Nat) (s : PSample)
    (hpid : 0 < s.pid) (hp : c.pidOf s.ns id ≠ some s.pid) :
    ((c.push u depth periods id s).1.insts s.ns id = (dedup periods).map (startedProc depth s))
      ∧ (c.push u depth periods id s).2 = ([], none) := by
  have hne : s.pid ≠ 0 := by omega
  have hp' : (AL.get? ((AL.get? c.holders s.ns).getD {}).entries id).map (·.1) ≠ some s.pid := by
    unfold ProcComp.pidOf at hp
    cases hg : AL.get? c.holders s.ns with
    | none => simp [AL.get?]
    | some h0 => simpa [hg] using hp
  unfold ProcComp.push
  split
  · rename_i hdec
    simp [hpid] at hdec
  · simp only [Holder.push_start u depth periods _ id s hne hp']
    rw [if_neg (by simp [AL.set_ne_nil])]
    refine ⟨?_, rfl⟩
    rw [ProcComp.insts_setCores]
    simp [ProcComp.insts, AL.get?_set_self]

theorem ProcComp.push_stop (u : Units) (depth : Nat) (periods : List Int) (c : ProcComp) (id : Nat) (s : PSample)
    (hpid : s.pid = 0) :
    ((c.push u depth periods id s).1.insts s.ns id = []) ∧ (c.push u depth periods id s).2 = ([], none) := by
  unfold ProcComp.push
  split
  · rename_i hg _
    refine ⟨?_, rfl⟩
    rw [ProcComp.insts_setCores]
    simp [ProcComp.insts, hg]
  · simp only [Holder.push, hpid, if_true]
    split
    · refine ⟨?_, rfl⟩
      rw [ProcComp.insts_setCores]
      simp [ProcComp.insts, AL.get?_erase_self]
    · refine ⟨?_, rfl⟩
      rw [ProcComp.insts_setCores]
      simp [ProcComp.insts, AL.get?_set_self, AL.get?_erase_self]

/-! ## rationals (rounding argument of the repaired `cpu_statistics`) -/

/-- a quotient of non-negative rationals `w ≤ t` lies in [0, 1] -/
theorem rat_div_unit {w t : Rat} (h0 : 0 ≤ w) (h1 : w ≤ t) (ht : 0 < t) : 0 ≤ w / t ∧ w / t ≤ 1 := by
  rw [Rat.div_def]
  have hinv : 0 ≤ t⁻¹ := Rat.le_of_lt (Rat.inv_pos.mpr ht)
  refine ⟨Rat.mul_nonneg h0 hinv, ?_⟩
  have := Rat.mul_le_mul_of_nonneg_right h1 hinv
  rwa [Rat.mul_inv_cancel t (by grind)] at this

end Supv.Stats
