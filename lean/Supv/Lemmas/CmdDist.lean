import Supv.Lemmas.Strat

/-! Lemmas on the whole-application placement of non-distributed applications (`mapRes`, `mapPlanned`, `updateIdentifier`,
    `distributeSingleInstance`, `distributeSingleNode`). -/

namespace Supv.Cmd
open Supv.Proc

/-- results can be compared (used by the kernel-checked witnesses) -/
instance {α} [DecidableEq α] : DecidableEq (Res α) := fun a b =>
  match a, b with
  | .ok x, .ok y => if h : x = y then isTrue (by rw [h]) else isFalse (by intro e; cases e; exact h rfl)
  | .err x, .err y => if h : x = y then isTrue (by rw [h]) else isFalse (by intro e; cases e; exact h rfl)
  | .ok _, .err _ => isFalse (by intro e; cases e)
  | .err _, .ok _ => isFalse (by intro e; cases e)

/-- every element of a successful `mapRes` is the successful image of an element of the source -/
theorem mapRes_mem {α β} (f : α → Res β) (l : List α) (l' : List β) (h : mapRes f l = .ok l') :
    ∀ b ∈ l', ∃ a ∈ l, f a = .ok b := by
  induction l generalizing l' with
  | nil => simp [mapRes] at h; subst h; simp
  | cons a t ih =>
    simp only [mapRes] at h
    split at h
    · simp at h
    · rename_i b hb
      split at h
      · simp at h
      · rename_i bs hbs
        simp at h; subst h
        intro x hx
        simp at hx
        rcases hx with rfl | hx
        · exact ⟨a, by simp, hb⟩
        · obtain ⟨y, hy, hfy⟩ := ih bs hbs x hx
          exact ⟨y, by simp [hy], hfy⟩

/-- a projection preserved by `f` is preserved, in order, by a successful `mapRes f` -/
theorem mapRes_map {α β γ} (f : α → Res β) (g : β → γ) (k : α → γ) (hf : ∀ a b, f a = .ok b → g b = k a)
    (l : List α) (l' : List β) (h : mapRes f l = .ok l') : l'.map g = l.map k := by
  induction l generalizing l' with
  | nil => simp [mapRes] at h; subst h; simp
  | cons a t ih =>
    simp only [mapRes] at h
    split at h
    · simp at h
    · rename_i b hb
      split at h
      · simp at h
      · rename_i bs hbs
        simp at h; subst h
        simp [hf a b hb, ih bs hbs]

/-- when `f` never fails `mapRes f` does not fail -/
theorem mapRes_total {α β} (f : α → Res β) (l : List α) (hf : ∀ a ∈ l, ∃ b, f a = .ok b) : ∃ l', mapRes f l = .ok l' := by
  induction l with
  | nil => exact ⟨[], rfl⟩
  | cons a t ih =>
    obtain ⟨b, hb⟩ := hf a (by simp)
    obtain ⟨bs, hbs⟩ := ih (fun x hx => hf x (by simp [hx]))
    exact ⟨b :: bs, by simp [mapRes, hb, hbs]⟩

/-- a successful `mapPlanned` only rewrites the planned commands: every new command is the successful image of a command of the
    group with the same sequence number -/
theorem mapPlanned_mem (f : Command → Res Command) (j j' : AppJobs) (h : mapPlanned f j = .ok j') :
    ∀ g' ∈ j'.planned, ∀ c' ∈ g'.2, ∃ g ∈ j.planned, g.1 = g'.1 ∧ ∃ c ∈ g.2, f c = .ok c' := by
  unfold mapPlanned at h
  split at h
  · rename_i pl hpl
    simp at h; subst h
    intro g' hg' c' hc'
    obtain ⟨g, hg, hfg⟩ := mapRes_mem _ _ _ hpl g' hg'
    unfold mapGroup at hfg
    split at hfg
    · rename_i l hl
      simp at hfg; subst hfg
      obtain ⟨c, hc, hfc⟩ := mapRes_mem _ _ _ hl c' hc'
      exact ⟨g, hg, rfl, c, hc, hfc⟩
    · simp at hfg
  · simp at h

/-- the other fields of the job are untouched -/
theorem mapPlanned_fields (f : Command → Res Command) (j j' : AppJobs) (h : mapPlanned f j = .ok j') :
    j'.app = j.app ∧ j'.runId = j.runId ∧ j'.current = j.current ∧ j'.stopRequest = j.stopRequest
    ∧ j'.strategy = j.strategy ∧ j'.identifiers = j.identifiers := by
  unfold mapPlanned at h
  split at h
  · simp at h; subst h; simp
  · simp at h

/-- the plan keeps its shape: same sequence numbers, same processes, same order -/
theorem mapPlanned_shape (f : Command → Res Command) (hf : ∀ c c', f c = .ok c' → c'.proc = c.proc)
    (j j' : AppJobs) (h : mapPlanned f j = .ok j') :
    j'.planned.map (fun g => (g.1, g.2.map (·.proc))) = j.planned.map (fun g => (g.1, g.2.map (·.proc))) := by
  unfold mapPlanned at h
  split at h
  · rename_i pl hpl
    simp at h; subst h
    refine mapRes_map _ _ _ ?_ _ _ hpl
    intro g g' hg
    unfold mapGroup at hg
    split at hg
    · rename_i l hl
      simp at hg; subst hg
      simp only
      rw [mapRes_map f (·.proc) (·.proc) hf _ _ hl]
    · simp at hg
  · simp at h

theorem mapPlanned_total (f : Command → Res Command) (j : AppJobs)
    (hf : ∀ g ∈ j.planned, ∀ c ∈ g.2, ∃ c', f c = .ok c') : ∃ j', mapPlanned f j = .ok j' := by
  unfold mapPlanned
  have : ∃ pl, mapRes (mapGroup f) j.planned = .ok pl := by
    apply mapRes_total
    intro g hg
    obtain ⟨l, hl⟩ := mapRes_total f g.2 (hf g hg)
    exact ⟨(g.1, l), by simp [mapGroup, hl]⟩
  obtain ⟨pl, hpl⟩ := this
  exact ⟨_, by rw [hpl]⟩

/-- `update_identifier` succeeds exactly when the instance knows the program; it sets the target and nothing else of interest -/
theorem updateIdentifier_ok (w : W) (c c' : Command) (i : Nat) (h : updateIdentifier w c i = .ok c') :
    c'.target = some i ∧ c'.proc = c.proc ∧ c'.strategy = c.strategy
    ∧ (getInfo (w.procs.getD c.proc {}).infos i).isSome = true := by
  unfold updateIdentifier at h
  split at h
  · rename_i v hv
    simp at h; subst h
    exact ⟨rfl, rfl, rfl, by rw [hv]; rfl⟩
  · simp at h

theorem updateIdentifier_known (w : W) (c : Command) (i : Nat) (h : (getInfo (w.procs.getD c.proc {}).infos i).isSome = true) :
    ∃ c', updateIdentifier w c i = .ok c' := by
  unfold updateIdentifier
  cases hg : getInfo (w.procs.getD c.proc {}).infos i with
  | none => rw [hg] at h; exact absurd h (by decide)
  | some v => exact ⟨_, rfl⟩

/-- the sum of the loads of a list of processes is at least the load of any of them -/
theorem foldl_load_ge (w : W) (l : List Nat) (acc : Nat) :
    acc ≤ l.foldl (fun acc p => acc + (w.pcfg.getD p default).load) acc
    ∧ ∀ p ∈ l, (w.pcfg.getD p default).load ≤ l.foldl (fun acc p => acc + (w.pcfg.getD p default).load) acc := by
  induction l generalizing acc with
  | nil => simp
  | cons a t ih =>
    simp only [List.foldl_cons]
    obtain ⟨h1, h2⟩ := ih (acc + (w.pcfg.getD a default).load)
    refine ⟨by omega, ?_⟩
    intro p hp
    simp at hp
    rcases hp with rfl | hp
    · omega
    · exact h2 p hp

/-- a process of the application with a positive start_sequence weighs at most the whole start sequence -/
theorem load_le_appStartLoad (w : W) (a p : Nat) (hp : p ∈ appProcs w a) (hs : 0 < (w.pcfg.getD p default).startSeq) :
    (w.pcfg.getD p default).load ≤ appStartLoad w a := by
  unfold appStartLoad
  exact (foldl_load_ge w _ 0).2 p (List.mem_filter.mpr ⟨hp, by simpa using hs⟩)

end Supv.Cmd
