import Supv.Lemmas.InstMoves

/-! Frame lemmas for C13: which computations keep "peer j is ISOLATED" (`KeepsIso`).  The only writer of the `state` field
    is `setPeerState`, whose table check (generated table: ISOLATED has no successor) throws before any write. -/

namespace Supv.Inst

theorem isolated_next : IState.isolated.next = [] := by decide

def peerIso (j : Nat) (s : St) : Prop := (s.peers[j]?.getD {}).state = .isolated

structure KeepsIso (j : Nat) {α} (x : M α) : Prop where
  run : ∀ s a s', x.run s = .ok (a, s') → peerIso j s → peerIso j s'

namespace KeepsIso
variable {j : Nat}
theorem pure {α} (a : α) : KeepsIso j (Pure.pure a : M α) := by
  constructor; intro s a' s' h hp
  simp [StateT.run, Pure.pure, StateT.pure, Except.pure] at h
  obtain ⟨_, rfl⟩ := h; exact hp
theorem bind {α β} {x : M α} {f : α → M β} (hx : KeepsIso j x) (hf : ∀ a, KeepsIso j (f a)) : KeepsIso j (x >>= f) := by
  constructor; intro s b s' h hp
  obtain ⟨a, s1, h1, h2⟩ := run_bind _ _ _ _ _ h
  exact (hf a).run s1 b s' h2 (hx.run s a s1 h1 hp)
theorem get : KeepsIso j (MonadState.get : M St) := by
  constructor; intro s a s' h hp
  simp [StateT.run, MonadState.get, getThe, MonadStateOf.get, StateT.get, Pure.pure, Except.pure] at h
  obtain ⟨_, rfl⟩ := h; exact hp
theorem throw {α} (e : Err) : KeepsIso j (MonadExcept.throw e : M α) := by
  constructor; intro s a s' h
  have : (MonadExcept.throw e : M α).run s = Except.error e := rfl
  rw [this] at h; cases h
theorem modify (f : St → St) (hf : ∀ s, peerIso j s → peerIso j (f s)) : KeepsIso j (modify f : M Unit) := by
  constructor; intro s a s' h hp
  simp [StateT.run, _root_.modify, modifyGet, MonadStateOf.modifyGet, StateT.modifyGet, Pure.pure, Except.pure] at h
  obtain ⟨_, rfl⟩ := h; exact hf s hp
theorem forIn {α β} (l : List α) (init : β) (f : α → β → M (ForInStep β))
    (hf : ∀ a b, KeepsIso j (f a b)) : KeepsIso j (forIn l init f) := by
  induction l generalizing init with
  | nil => simp only [List.forIn_nil]; exact pure _
  | cons a t ih =>
    simp only [List.forIn_cons]
    apply bind (hf a init); intro r
    cases r with
    | done b => exact pure _
    | yield b => exact ih b
end KeepsIso

theorem iso_emit (j : Nat) (o : Out) : KeepsIso j (emit o) := KeepsIso.modify _ (fun _ h => h)
theorem iso_getPeer (j k : Nat) : KeepsIso j (getPeer k) := KeepsIso.bind KeepsIso.get (fun _ => KeepsIso.pure _)
theorem iso_getModes (j k : Nat) : KeepsIso j (getModes k) := KeepsIso.bind KeepsIso.get (fun _ => KeepsIso.pure _)
theorem iso_modifyLocal (j : Nat) (c : Cfg) (f : Modes → Modes) : KeepsIso j (modifyLocal c f) := KeepsIso.modify _ (fun _ h => h)
theorem iso_setModes (j k : Nat) (m : Modes) : KeepsIso j (setModes k m) := KeepsIso.modify _ (fun _ h => h)

/-- an in-place update of a peer record that does not touch its `state` field -/
theorem iso_modifyPeer (j k : Nat) (f : Peer → Peer) (hf : ∀ p, (f p).state = p.state) : KeepsIso j (modifyPeer k f) := by
  apply KeepsIso.modify
  intro s hp
  unfold peerIso at *
  simp only [List.getElem?_modify]
  by_cases hk : k = j
  · subst hk
    cases h : s.peers[k]? with
    | none => simp [h] at hp ⊢
    | some p => simp [h, hf] at hp ⊢; exact hp
  · simp [hk]; simpa using hp

theorem iso_modifyPeer_other (j k : Nat) (f : Peer → Peer) (hk : k ≠ j) : KeepsIso j (modifyPeer k f) := by
  apply KeepsIso.modify
  intro s hp
  unfold peerIso at *
  simp only [List.getElem?_modify]
  simp [hk]; simpa using hp

theorem iso_setRemoteModes (j : Nat) (c : Cfg) (k : Nat) (m : Modes) : KeepsIso j (setRemoteModes c k m) := by
  unfold setRemoteModes; split
  · exact KeepsIso.pure _
  · exact iso_setModes j k m

syntax "iso_leaf" : tactic
macro_rules | `(tactic| iso_leaf) => `(tactic| first
  | exact KeepsIso.pure _ | exact KeepsIso.get | exact KeepsIso.throw _
  | exact iso_emit _ _ | exact iso_getPeer _ _ | exact iso_getModes _ _ | exact iso_modifyLocal _ _ _
  | exact iso_setModes _ _ _ | exact iso_setRemoteModes _ _ _ _
  | exact iso_modifyPeer _ _ _ (fun _ => rfl)
  | exact iso_modifyPeer_other _ _ _ ‹_›
  | exact KeepsIso.modify _ (fun _ h => h)
  | assumption)
macro "iso_step" : tactic => `(tactic| first
  | (with_reducible iso_leaf)
  | (with_reducible apply KeepsIso.bind)
  | (with_reducible apply KeepsIso.forIn)
  | (intro _)
  | (split)
  | (dsimp only)
  | iso_leaf)
macro "iso_auto" : tactic => `(tactic| repeat iso_step)

theorem iso_localModes (j : Nat) (c : Cfg) : KeepsIso j (localModes c) := iso_getModes j _
macro_rules | `(tactic| iso_leaf) => `(tactic| exact iso_localModes _ _)
theorem iso_publish (j : Nat) (c : Cfg) : KeepsIso j (publish c) := by unfold publish; iso_auto
macro_rules | `(tactic| iso_leaf) => `(tactic| exact iso_publish _ _)
theorem iso_askNat (j : Nat) (q : Query) : KeepsIso j (askNat q) := by unfold askNat; iso_auto
macro_rules | `(tactic| iso_leaf) => `(tactic| exact iso_askNat _ _)
theorem iso_ask (j : Nat) (q : Query) : KeepsIso j (ask q) := by unfold ask; iso_auto
macro_rules | `(tactic| iso_leaf) => `(tactic| exact iso_ask _ _)
theorem iso_masterFailJobs (j : Nat) : KeepsIso j masterFailJobs := by unfold masterFailJobs; iso_auto
macro_rules | `(tactic| iso_leaf) => `(tactic| exact iso_masterFailJobs _)
theorem iso_setMaster (j : Nat) (c : Cfg) (m : Option Nat) : KeepsIso j (setMaster c m) := by unfold setMaster; iso_auto
macro_rules | `(tactic| iso_leaf) => `(tactic| exact iso_setMaster _ _ _)
theorem iso_setFsm (j : Nat) (c : Cfg) (f : SState) : KeepsIso j (setFsm c f) := by unfold setFsm; iso_auto
macro_rules | `(tactic| iso_leaf) => `(tactic| exact iso_setFsm _ _ _)
theorem iso_setDegraded (j : Nat) (c : Cfg) (d : Bool) : KeepsIso j (setDegraded c d) := by unfold setDegraded; iso_auto
macro_rules | `(tactic| iso_leaf) => `(tactic| exact iso_setDegraded _ _ _)
theorem iso_updateInstanceState (j : Nat) (c : Cfg) (k : Nat) (ns : IState) : KeepsIso j (updateInstanceState c k ns) := by
  unfold updateInstanceState; iso_auto
macro_rules | `(tactic| iso_leaf) => `(tactic| exact iso_updateInstanceState _ _ _ _)

/-- the instance-state setter refuses to leave ISOLATED: the only writer of the `state` field -/
theorem iso_setPeerState (j : Nat) (c : Cfg) (k : Nat) (ns : IState) : KeepsIso j (setPeerState c k ns) := by
  constructor
  intro s u s' h hp
  by_cases hk : k = j
  · subst hk
    -- the peer read is ISOLATED: either nothing happens (same state) or the table check throws
    unfold setPeerState at h
    obtain ⟨p, s1, h1, h2⟩ := run_bind _ _ _ _ _ h
    have hp1 : s1 = s ∧ p = s.peers[k]?.getD {} := by
      simp [getPeer, StateT.run, Bind.bind, StateT.bind, Except.bind, MonadState.get, getThe,
        MonadStateOf.get, StateT.get, Pure.pure, StateT.pure, Except.pure] at h1
      exact ⟨h1.2.symm, h1.1.symm⟩
    obtain ⟨rfl, hpe⟩ := hp1
    have hiso : p.state = .isolated := by rw [hpe]; exact hp
    split at h2
    · -- a change is requested: `ns ∉ isolated.next`, so the first statement throws
      simp only [hiso, isolated_next, List.not_mem_nil, not_false_eq_true, ↓reduceIte] at h2
      obtain ⟨_, s2, h3, _⟩ := run_bind _ _ _ _ _ h2
      have : (MonadExcept.throw (Err.invalidTransition k IState.isolated ns) : M PUnit).run s1 = Except.error _ := rfl
      rw [this] at h3; cases h3
    · simp [StateT.run, Pure.pure, StateT.pure, Except.pure] at h2
      obtain ⟨_, rfl⟩ := h2; exact hp
  · -- another peer is written: frame
    have hframe : KeepsIso j (setPeerState c k ns) := by
      unfold setPeerState
      iso_auto
    exact hframe.run s u s' h hp
macro_rules | `(tactic| iso_leaf) => `(tactic| exact iso_setPeerState _ _ _ _)

theorem iso_masterState (j : Nat) (c : Cfg) : KeepsIso j (masterState c) := by unfold masterState; iso_auto
macro_rules | `(tactic| iso_leaf) => `(tactic| exact iso_masterState _ _)
theorem iso_invalidate (j : Nat) (c : Cfg) (k : Nat) (f : Bool) : KeepsIso j (invalidate c k f) := by unfold invalidate; iso_auto
macro_rules | `(tactic| iso_leaf) => `(tactic| exact iso_invalidate _ _ _ _)
theorem iso_invalidateFailed (j : Nat) (c : Cfg) : KeepsIso j (invalidateFailed c) := by unfold invalidateFailed; iso_auto
theorem iso_activateChecked (j : Nat) (c : Cfg) : KeepsIso j (activateChecked c) := by unfold activateChecked; iso_auto
macro_rules | `(tactic| iso_leaf) => `(tactic| first | exact iso_invalidateFailed _ _ | exact iso_activateChecked _ _)
theorem iso_isRunningLocal (j : Nat) (c : Cfg) (k : Nat) : KeepsIso j (isRunningLocal c k) := by unfold isRunningLocal; iso_auto
macro_rules | `(tactic| iso_leaf) => `(tactic| exact iso_isRunningLocal _ _ _)
theorem iso_evaluateStability (j : Nat) (c : Cfg) : KeepsIso j (evaluateStability c) := by unfold evaluateStability; iso_auto
theorem iso_isStable (j : Nat) : KeepsIso j (isStable : M Bool) := by unfold isStable; iso_auto
theorem iso_masterIds (j : Nat) (c : Cfg) : KeepsIso j (masterIds c) := by unfold masterIds; iso_auto
macro_rules | `(tactic| iso_leaf) => `(tactic| first | exact iso_evaluateStability _ _ | exact iso_isStable _ | exact iso_masterIds _ _)
theorem iso_checkMaster (j : Nat) (c : Cfg) : KeepsIso j (checkMaster c) := by unfold checkMaster; iso_auto
theorem iso_selectMaster (j : Nat) (c : Cfg) : KeepsIso j (selectMaster c) := by unfold selectMaster; iso_auto
theorem iso_stableSubset (j : Nat) (l : List Nat) : KeepsIso j (stableSubset l) := by unfold stableSubset; iso_auto
macro_rules | `(tactic| iso_leaf) => `(tactic| first | exact iso_checkMaster _ _ | exact iso_selectMaster _ _ | exact iso_stableSubset _ _)
theorem iso_initialRunning (j : Nat) (c : Cfg) : KeepsIso j (initialRunning c) := by unfold initialRunning; iso_auto
theorem iso_allRunning (j : Nat) (c : Cfg) : KeepsIso j (allRunning c) := by unfold allRunning; iso_auto
theorem iso_coreRunning (j : Nat) (c : Cfg) : KeepsIso j (coreRunning c) := by unfold coreRunning; iso_auto
macro_rules | `(tactic| iso_leaf) => `(tactic| first | exact iso_initialRunning _ _ | exact iso_allRunning _ _ | exact iso_coreRunning _ _)
theorem iso_checkStrictFailure (j : Nat) (c : Cfg) : KeepsIso j (checkStrictFailure c) := by unfold checkStrictFailure; iso_auto
theorem iso_checkListFailure (j : Nat) (c : Cfg) : KeepsIso j (checkListFailure c) := by unfold checkListFailure; iso_auto
theorem iso_checkCoreFailure (j : Nat) (c : Cfg) : KeepsIso j (checkCoreFailure c) := by unfold checkCoreFailure; iso_auto
theorem iso_checkUserFailure (j : Nat) (c : Cfg) : KeepsIso j (checkUserFailure c) := by unfold checkUserFailure; iso_auto
macro_rules | `(tactic| iso_leaf) => `(tactic| first | exact iso_checkStrictFailure _ _ | exact iso_checkListFailure _ _ | exact iso_checkCoreFailure _ _ | exact iso_checkUserFailure _ _)
theorem iso_fsmState (j : Nat) (c : Cfg) : KeepsIso j (fsmState c) := by unfold fsmState; iso_auto
theorem iso_isMaster (j : Nat) (c : Cfg) : KeepsIso j (isMaster c) := by unfold isMaster; iso_auto
theorem iso_localRunning (j : Nat) (c : Cfg) : KeepsIso j (localRunning c) := by unfold localRunning; iso_auto
macro_rules | `(tactic| iso_leaf) => `(tactic| first | exact iso_fsmState _ _ | exact iso_isMaster _ _ | exact iso_localRunning _ _)
theorem iso_checkFailureStrategy (j : Nat) (c : Cfg) : KeepsIso j (checkFailureStrategy c) := by unfold checkFailureStrategy; iso_auto
macro_rules | `(tactic| iso_leaf) => `(tactic| exact iso_checkFailureStrategy _ _)
theorem iso_checkConsistence (j : Nat) (c : Cfg) (f : SState) : KeepsIso j (checkConsistence c f) := by unfold checkConsistence; iso_auto
theorem iso_checkInstances (j : Nat) (c : Cfg) (f : SState) : KeepsIso j (checkInstances c f) := by unfold checkInstances; iso_auto
macro_rules | `(tactic| iso_leaf) => `(tactic| first | exact iso_checkConsistence _ _ _ | exact iso_checkInstances _ _ _)
theorem iso_baseNext (j : Nat) (c : Cfg) (f : SState) : KeepsIso j (baseNext c f) := by unfold baseNext; iso_auto
theorem iso_endSyncUser (j : Nat) (c : Cfg) : KeepsIso j (endSyncUser c) := by unfold endSyncUser; iso_auto
macro_rules | `(tactic| iso_leaf) => `(tactic| first | exact iso_baseNext _ _ _ | exact iso_endSyncUser _ _)
theorem iso_nextSync (j : Nat) (c : Cfg) : KeepsIso j (nextSync c) := by unfold nextSync; iso_auto
theorem iso_nextElection (j : Nat) (c : Cfg) : KeepsIso j (nextElection c) := by unfold nextElection; iso_auto
theorem iso_nextDistribution (j : Nat) (c : Cfg) : KeepsIso j (nextDistribution c) := by unfold nextDistribution; iso_auto
theorem iso_nextOperation (j : Nat) (c : Cfg) : KeepsIso j (nextOperation c) := by unfold nextOperation; iso_auto
theorem iso_nextConciliation (j : Nat) (c : Cfg) : KeepsIso j (nextConciliation c) := by unfold nextConciliation; iso_auto
theorem iso_nextEnding (j : Nat) (c : Cfg) (f : SState) : KeepsIso j (nextEnding c f) := by unfold nextEnding; iso_auto
macro_rules | `(tactic| iso_leaf) => `(tactic| first | exact iso_nextSync _ _ | exact iso_nextElection _ _ | exact iso_nextDistribution _ _ | exact iso_nextOperation _ _ | exact iso_nextConciliation _ _ | exact iso_nextEnding _ _ _)
theorem iso_stateNext (j : Nat) (c : Cfg) (f : SState) : KeepsIso j (stateNext c f) := by unfold stateNext; iso_auto
theorem iso_stateEnter (j : Nat) (c : Cfg) (f : SState) : KeepsIso j (stateEnter c f) := by unfold stateEnter; iso_auto
theorem iso_stateExit (j : Nat) (c : Cfg) (f : SState) : KeepsIso j (stateExit c f) := by unfold stateExit; iso_auto
macro_rules | `(tactic| iso_leaf) => `(tactic| first | exact iso_stateNext _ _ _ | exact iso_stateEnter _ _ _ | exact iso_stateExit _ _ _)

theorem iso_setState (j : Nat) (c : Cfg) (fuel : Nat) : ∀ nxt, KeepsIso j (setState c nxt fuel) := by
  induction fuel with
  | zero => intro nxt; unfold setState; exact KeepsIso.pure _
  | succ fuel ih =>
    intro nxt
    unfold setState
    have := ih
    cases nxt with
    | none => exact KeepsIso.pure _
    | some t =>
      dsimp only
      apply KeepsIso.bind (iso_fsmState j c); intro cur
      split
      · exact KeepsIso.pure _
      · split
        · exact iso_emit _ _
        · apply KeepsIso.bind (iso_stateExit j c cur); intro _
          apply KeepsIso.bind (iso_setFsm j c t); intro _
          apply KeepsIso.bind (KeepsIso.modify (j := j) (fun s => { s with lost := [], lostProcs := false }) (fun _ h => h)); intro _
          apply KeepsIso.bind (iso_stateEnter j c t); intro _
          apply KeepsIso.bind (iso_stateNext j c t); intro n
          exact ih n

theorem iso_fsmNext (j : Nat) (c : Cfg) : KeepsIso j (fsmNext c) := by
  unfold fsmNext
  apply KeepsIso.bind (iso_fsmState j c); intro cur
  apply KeepsIso.bind (iso_stateNext j c cur); intro n
  exact iso_setState j c 12 n

attribute [local irreducible] setState fsmNext
macro_rules | `(tactic| iso_leaf) => `(tactic| first | exact iso_fsmNext _ _ | exact iso_setState _ _ _ _)
theorem iso_isValid (j k : Nat) : KeepsIso j (isValid k) := by unfold isValid; iso_auto
macro_rules | `(tactic| iso_leaf) => `(tactic| exact iso_isValid _ _)

theorem iso_timerCheck (j : Nat) (c : Cfg) (k : Nat) : KeepsIso j (timerCheck c k) := by unfold timerCheck; iso_auto
theorem iso_deferredPublish (j : Nat) (c : Cfg) : KeepsIso j (deferredPublish c) := by unfold deferredPublish; iso_auto
macro_rules | `(tactic| iso_leaf) => `(tactic| first | exact iso_timerCheck _ _ _ | exact iso_deferredPublish _ _)
theorem iso_ltick (j : Nat) (c : Cfg) (k : Nat) : KeepsIso j (handleLtick c k) := by unfold handleLtick; iso_auto
theorem iso_rtick (j : Nat) (c : Cfg) (i k : Nat) : KeepsIso j (handleRtick c i k) := by unfold handleRtick; iso_auto
theorem iso_state (j : Nat) (c : Cfg) (i : Nat) (m : Modes) : KeepsIso j (handleState c i m) := by unfold handleState; iso_auto
theorem iso_auth (j : Nat) (c : Cfg) (i k t : Nat) : KeepsIso j (handleAuth c i k t) := by unfold handleAuth; iso_auto
theorem iso_allinfo (j : Nat) (c : Cfg) (i : Nat) : KeepsIso j (handleAllinfoNone c i) := by unfold handleAllinfoNone; iso_auto
theorem iso_failure (j : Nat) (c : Cfg) (i : Nat) : KeepsIso j (handleFailure c i) := by unfold handleFailure; iso_auto
theorem iso_end (j : Nat) (c : Cfg) (b : Bool) : KeepsIso j (handleEnd c b) := by unfold handleEnd; iso_auto
theorem iso_endSync (j : Nat) (c : Cfg) (m : Option Nat) : KeepsIso j (handleEndSync c m) := by unfold handleEndSync; iso_auto

theorem iso_handle (j : Nat) (c : Cfg) (op : Op) : KeepsIso j (handle c op) := by
  cases op with
  | running => exact iso_fsmNext j c
  | ltick k => exact iso_ltick j c k
  | rtick i k => exact iso_rtick j c i k
  | state i m => exact iso_state j c i m
  | auth i k t => exact iso_auth j c i k t
  | allinfoNone i => exact iso_allinfo j c i
  | failure i => exact iso_failure j c i
  | restart => exact iso_end j c false
  | shutdown => exact iso_end j c true
  | endSync m => exact iso_endSync j c m

/-- one operation (errors included, any oracle stream) keeps an ISOLATED peer ISOLATED -/
theorem stepOp_iso (j : Nat) (c : Cfg) (s : St) (now : Nat) (op : Op) (orc : List (Query × Nat)) (h : peerIso j s) :
    peerIso j (stepOp c s now op orc).1 := by
  unfold stepOp
  cases hr : (handle c op).run { s with now := now, out := [], oracle := orc, oracleBad := 0 } with
  | error e => exact h
  | ok r =>
    obtain ⟨u, s'⟩ := r
    exact (iso_handle j c op).run _ u s' hr h

end Supv.Inst
