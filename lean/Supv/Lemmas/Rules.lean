import Supv.Model.Rules
import Supv.Spec.C18

/-!
Helper lemmas for C18 (model `Supv.Rules`, specification `Supv.Spec.C18`).
-/

namespace Supv.Rules
open Supv.Spec.C18

/-! ### loaders in closed form -/

theorem ldStart_eq (e : Elt) (r : ProcRules) : ldStart e r = { r with startSeq := (pStart e).getD r.startSeq } := by
  unfold ldStart pStart; cases parseSeq (e.text "start_sequence") <;> rfl
theorem ldStop_eq (e : Elt) (r : ProcRules) : ldStop e r = { r with stopSeq := (pStop e).getD r.stopSeq } := by
  unfold ldStop pStop; cases parseSeq (e.text "stop_sequence") <;> rfl
theorem ldRequired_eq (e : Elt) (r : ProcRules) : ldRequired e r = { r with required := (pRequired e).getD r.required } := by
  unfold ldRequired pRequired; cases parseBool (e.text "required") <;> rfl
theorem ldWaitExit_eq (e : Elt) (r : ProcRules) : ldWaitExit e r = { r with waitExit := (pWaitExit e).getD r.waitExit } := by
  unfold ldWaitExit pWaitExit; cases parseBool (e.text "wait_exit") <;> rfl
theorem ldLoading_eq (e : Elt) (r : ProcRules) : ldLoading e r = { r with load := (pLoad e).getD r.load } := by
  unfold ldLoading pLoad; cases parseLoad (e.text "expected_loading") <;> rfl
theorem ldSfs_eq (e : Elt) (r : ProcRules) : ldSfs e r = { r with sfs := (pSfs e).getD r.sfs } := by
  unfold ldSfs pSfs; cases parseEnum sfsNames (e.text "starting_failure_strategy") <;> rfl
theorem ldRfs_eq (e : Elt) (r : ProcRules) : ldRfs e r = { r with rfs := (pRfs e).getD r.rfs } := by
  unfold ldRfs pRfs; cases parseEnum rfsNames (e.text "running_failure_strategy") <;> rfl

/-- the eight loaders of one element, as one record -/
theorem loadElt_eq (d : Doc) (e : Elt) (r : ProcRules) :
    loadElt d e r =
      { ids := loadIdentifiers d e r.ids
        startSeq := (pStart e).getD r.startSeq
        stopSeq := (pStop e).getD r.stopSeq
        required := (pRequired e).getD r.required
        waitExit := (pWaitExit e).getD r.waitExit
        load := (pLoad e).getD r.load
        sfs := (pSfs e).getD r.sfs
        rfs := (pRfs e).getD r.rfs } := by
  simp only [loadElt, ldStart_eq, ldStop_eq, ldRequired_eq, ldWaitExit_eq, ldLoading_eq, ldSfs_eq, ldRfs_eq, ldIds]

/-! ### the reference chain -/

theorem chain_length_le (d : Doc) : ∀ (n : Nat) (e : Elt), (chain d n e).length ≤ n := by
  intro n
  induction n with
  | zero => intro e; simp [chain]
  | succ k ih =>
    intro e
    unfold chain
    cases findModel d e with
    | none => simp
    | some m => simp only [List.length_cons]; exact Nat.succ_le_succ (ih m)

/-- `load_model_rules` = the loaders of the chain, deepest element first -/
theorem loadModelRules_eq_foldr (d : Doc) : ∀ (n : Nat) (e : Elt) (r : ProcRules),
    loadModelRules d n e r = (chain d n e).foldr (loadElt d) r := by
  intro n
  induction n with
  | zero => intro e r; rfl
  | succ k ih =>
    intro e r
    unfold loadModelRules chain
    cases findModel d e with
    | none => simp
    | some m => simp [ih]

theorem fieldOf_nil {α} (p : Elt → Option α) (x : α) : fieldOf p [] x = x := rfl

theorem fieldOf_cons {α} (p : Elt → Option α) (e : Elt) (t : List Elt) (x : α) :
    fieldOf p (e :: t) x = (p e).getD (fieldOf p t x) := by
  unfold fieldOf
  cases h : p e <;> simp [firstSome, h]

/-- a rule whose loader is a plain override resolves to the first in-domain value along the chain -/
theorem foldr_field {α} (d : Doc) (proj : ProcRules → α) (p : Elt → Option α)
    (hp : ∀ e r, proj (loadElt d e r) = (p e).getD (proj r)) :
    ∀ (ch : List Elt) (r : ProcRules), proj (ch.foldr (loadElt d) r) = fieldOf p ch (proj r) := by
  intro ch
  induction ch with
  | nil => intro r; rfl
  | cons e t ih => intro r; simp only [List.foldr_cons, hp, ih, fieldOf_cons]

theorem fieldOf_head {α} (p : Elt → Option α) (e : Elt) (t : List Elt) (x v : α) (h : p e = some v) :
    fieldOf p (e :: t) x = v := by
  rw [fieldOf_cons, h]; rfl

theorem fieldOf_all_none {α} (p : Elt → Option α) (ch : List Elt) (x : α) (h : ∀ e ∈ ch, p e = none) :
    fieldOf p ch x = x := by
  induction ch with
  | nil => rfl
  | cons e t ih =>
    rw [fieldOf_cons, h e (by simp)]
    exact ih (fun e' he' => h e' (by simp [he']))

/-- a value produced by `fieldOf` is the default or a value accepted by the parser -/
theorem fieldOf_mem {α} (p : Elt → Option α) (ch : List Elt) (x : α) :
    fieldOf p ch x = x ∨ ∃ e ∈ ch, p e = some (fieldOf p ch x) := by
  induction ch with
  | nil => left; rfl
  | cons e t ih =>
    rw [fieldOf_cons]
    cases h : p e with
    | some v => right; exact ⟨e, by simp, by simp [h]⟩
    | none =>
      simp only [Option.getD_none]
      rcases ih with h1 | ⟨e', he', h2⟩
      · left; exact h1
      · right; exact ⟨e', by simp [he'], h2⟩

/-! ### domains of the parsers -/

theorem parseSeq_nonneg (t : Option String) (v : Int) (h : parseSeq t = some v) : 0 ≤ v := by
  unfold parseSeq at h
  split at h
  · split at h
    · rename_i hv; injection h with h; subst h; simpa [seqMin] using hv
    · cases h
  · cases h

theorem parseLoad_range (t : Option String) (v : Int) (h : parseLoad t = some v) : 0 ≤ v ∧ v ≤ 100 := by
  unfold parseLoad at h
  split at h
  · split at h
    · rename_i hv; injection h with h; subst h; simpa [loadBounds] using hv
    · cases h
  · cases h

theorem parseEnum_mem (names : List String) (t : Option String) (v : String) (h : parseEnum names t = some v) :
    v ∈ names := by
  unfold parseEnum at h
  split at h
  · split at h
    · rename_i hv; injection h with h; subst h; simpa using hv
    · cases h
  · cases h

/-! ### `check_dependencies`, field by field -/

theorem checkDependencies_startSeq (p : Bool) (r : ProcRules) : (checkDependencies p r).startSeq = r.startSeq := by
  simp only [checkDependencies, checkStop, checkStart, checkSign, checkHash, checkAt]
  repeat' split
  all_goals rfl

theorem checkDependencies_load (p : Bool) (r : ProcRules) : (checkDependencies p r).load = r.load := by
  simp only [checkDependencies, checkStop, checkStart, checkSign, checkHash, checkAt]
  repeat' split
  all_goals rfl

theorem checkDependencies_waitExit (p : Bool) (r : ProcRules) : (checkDependencies p r).waitExit = r.waitExit := by
  simp only [checkDependencies, checkStop, checkStart, checkSign, checkHash, checkAt]
  repeat' split
  all_goals rfl

theorem checkDependencies_sfs (p : Bool) (r : ProcRules) : (checkDependencies p r).sfs = r.sfs := by
  simp only [checkDependencies, checkStop, checkStart, checkSign, checkHash, checkAt]
  repeat' split
  all_goals rfl

theorem checkDependencies_rfs (p : Bool) (r : ProcRules) : (checkDependencies p r).rfs = r.rfs := by
  simp only [checkDependencies, checkStop, checkStart, checkSign, checkHash, checkAt]
  repeat' split
  all_goals rfl

theorem checkDependencies_required (p : Bool) (r : ProcRules) :
    (checkDependencies p r).required = (r.required && r.startSeq != 0) := by
  simp only [checkDependencies, checkStop, checkStart, checkSign, checkHash, checkAt]
  repeat' split
  all_goals simp_all

theorem checkDependencies_stopSeq (p : Bool) (r : ProcRules) :
    (checkDependencies p r).stopSeq = if r.stopSeq < 0 then r.startSeq else r.stopSeq := by
  simp only [checkDependencies, checkStop, checkStart, checkSign, checkHash, checkAt]
  repeat' split
  all_goals simp_all

/-- the identifier part of `check_dependencies` -/
def depIds (p : Bool) (i : Ids) : Ids :=
  let i := if !i.atIds.isEmpty && !p then { i with identifiers := ["*"], atIds := [] } else i
  let i := if !i.hashIds.isEmpty && !p then { i with identifiers := ["*"], hashIds := [] } else i
  if !i.atIds.isEmpty && !i.hashIds.isEmpty then { i with hashIds := [] } else i

theorem checkDependencies_ids (p : Bool) (r : ProcRules) : (checkDependencies p r).ids = depIds p r.ids := by
  simp only [checkDependencies, checkStop, checkStart, checkSign, checkHash, checkAt, depIds]
  repeat' split
  all_goals simp_all

/-! ### lookup -/

/-- what `matching` returns: the values of the patterns that match, with their match lengths, in order -/
theorem matching_ok {α} (d : Doc) (name : String) :
    ∀ (pats : List (String × α)) (ms : List (Nat × α)), matching d name pats = .ok ms →
      (∀ n v, (n, v) ∈ ms → ∃ p, (p, v) ∈ pats ∧ matchRes d p name = .len n) ∧
      (∀ p v n, (p, v) ∈ pats → matchRes d p name = .len n → (n, v) ∈ ms) ∧
      (∀ p v, (p, v) ∈ pats → matchRes d p name ≠ .err) := by
  intro pats
  induction pats with
  | nil =>
    intro ms h
    simp only [matching] at h
    injection h with h; subst h
    simp
  | cons kv t ih =>
    intro ms h
    obtain ⟨p0, v0⟩ := kv
    simp only [matching] at h
    split at h
    · cases h
    · rename_i hno
      obtain ⟨h1, h2, h3⟩ := ih ms h
      refine ⟨?_, ?_, ?_⟩
      · intro n v hm
        obtain ⟨p, hp, hl⟩ := h1 n v hm
        exact ⟨p, by simp [hp], hl⟩
      · intro p v n hm hl
        simp only [List.mem_cons, Prod.mk.injEq] at hm
        rcases hm with ⟨rfl, rfl⟩ | hm
        · rw [hno] at hl; cases hl
        · exact h2 p v n hm hl
      · intro p v hm
        simp only [List.mem_cons, Prod.mk.injEq] at hm
        rcases hm with ⟨rfl, rfl⟩ | hm
        · rw [hno]; intro hc; cases hc
        · exact h3 p v hm
    · rename_i n0 hlen
      split at h
      · rename_i r hr
        injection h with h; subst h
        obtain ⟨h1, h2, h3⟩ := ih r hr
        refine ⟨?_, ?_, ?_⟩
        · intro n v hm
          simp only [List.mem_cons, Prod.mk.injEq] at hm
          rcases hm with ⟨rfl, rfl⟩ | hm
          · exact ⟨p0, by simp, hlen⟩
          · obtain ⟨p, hp, hl⟩ := h1 n v hm
            exact ⟨p, by simp [hp], hl⟩
        · intro p v n hm hl
          simp only [List.mem_cons, Prod.mk.injEq] at hm
          rcases hm with ⟨rfl, rfl⟩ | hm
          · rw [hlen] at hl; injection hl with hl; subst hl; simp
          · simp [h2 p v n hm hl]
        · intro p v hm
          simp only [List.mem_cons, Prod.mk.injEq] at hm
          rcases hm with ⟨rfl, rfl⟩ | hm
          · rw [hlen]; intro hc; cases hc
          · exact h3 p v hm
      · cases h

/-- `firstMax`: a member with the greatest key -/
theorem firstMax_spec {α} : ∀ (l : List (Nat × α)) (b : Nat × α), firstMax l = some b →
    b ∈ l ∧ ∀ x ∈ l, x.1 ≤ b.1 := by
  intro l
  induction l with
  | nil => intro b h; cases h
  | cons x t ih =>
    intro b h
    simp only [firstMax] at h
    split at h
    · rename_i hn
      injection h with h; subst h
      have : t = [] := by
        cases t with
        | nil => rfl
        | cons y t' =>
          simp only [firstMax] at hn
          split at hn <;> (try split at hn) <;> cases hn
      subst this
      simp
    · rename_i b' hb'
      obtain ⟨hm, hmax⟩ := ih b' hb'
      split at h
      · rename_i hgt
        injection h with h; subst h
        refine ⟨by simp [hm], ?_⟩
        intro y hy
        simp only [List.mem_cons] at hy
        rcases hy with rfl | hy
        · omega
        · exact hmax y hy
      · rename_i hle
        injection h with h; subst h
        refine ⟨by simp, ?_⟩
        intro y hy
        simp only [List.mem_cons] at hy
        rcases hy with rfl | hy
        · omega
        · have := hmax y hy; omega

theorem firstMax_none {α} (l : List (Nat × α)) (h : firstMax l = none) : l = [] := by
  cases l with
  | nil => rfl
  | cons x t =>
    simp only [firstMax] at h
    split at h <;> (try split at h) <;> cases h

/-! ### identifiers -/

theorem dedup_nodup : ∀ (l : List String), (dedup l).Nodup := by
  intro l
  induction l with
  | nil => simp [dedup]
  | cons h t ih =>
    simp only [dedup, List.nodup_cons]
    refine ⟨?_, List.Nodup.sublist List.filter_sublist ih⟩
    simp [List.mem_filter]

theorem checkIdentifierList_nodup (d : Doc) (v : String) : (checkIdentifierList d v).Nodup := dedup_nodup _

/-- the post-processing of the specification (`specIds` after the choice of the raw identifiers) -/
def specPost (p : Bool) (raw : Ids) : Ids :=
  if !p && (!raw.atIds.isEmpty || !raw.hashIds.isEmpty) then { identifiers := ["*"], atIds := [], hashIds := [] }
  else if !raw.atIds.isEmpty then { raw with hashIds := [] }
  else raw

/-- the identifier part of `check_dependencies` is the post-processing of the specification -/
theorem depIds_eq_specPost (p : Bool) (i : Ids) : depIds p i = specPost p i := by
  obtain ⟨ids, at_, hash⟩ := i
  cases p <;> cases at_ <;> cases hash <;> simp [depIds, specPost]

theorem specIds_eq (d : Doc) (ch : List Elt) (p : Bool) (dflt : Ids) :
    specIds d ch p dflt = specPost p (match firstSome (ch.map pIdsText) with
      | none => dflt
      | some v => idsOfList (checkIdentifierList d v)) := rfl

/-- a sign-free list only sets `identifiers` -/
theorem applyIdentifiers_signfree (l : List String) (r : Ids) (h1 : l.contains "@" = false) (h2 : l.contains "#" = false) :
    (applyIdentifiers l r).atIds = r.atIds ∧ (applyIdentifiers l r).hashIds = r.hashIds := by
  unfold applyIdentifiers
  simp only [h1, h2]
  simp

/-- one resolved list applied on rules without pending signs = its documented meaning, once dependencies are checked -/
theorem depIds_applyIdentifiers (p : Bool) (l : List String) (acc : Ids) (hl : l.Nodup)
    (h1 : acc.atIds = []) (h2 : acc.hashIds = []) :
    depIds p (applyIdentifiers l acc) = depIds p (idsOfList l) := by
  have he : (l.erase "@").erase "#" = l.filter (fun x => x != "@" && x != "#") := by
    rw [List.Nodup.erase_eq_filter (List.Nodup.erase "@" hl) "#", List.Nodup.erase_eq_filter hl "@", List.filter_filter]
    congr 1
    funext x
    exact Bool.and_comm _ _
  obtain ⟨ids, at_, hash⟩ := acc
  simp only at h1 h2
  subst h1 h2
  simp only [applyIdentifiers, idsOfList, he]
  generalize l.filter (fun x => x != "@" && x != "#") = plain
  cases hat : l.contains "@" <;> cases hhash : l.contains "#" <;> cases hstar : plain.contains "*" <;>
    cases plain <;> cases p <;> simp_all [depIds]

/-- `loadElt` acts on the identifiers through `loadIdentifiers` only -/
theorem foldr_ids (d : Doc) : ∀ (ch : List Elt) (r : ProcRules),
    (ch.foldr (loadElt d) r).ids = ch.foldr (loadIdentifiers d) r.ids := by
  intro ch
  induction ch with
  | nil => intro r; rfl
  | cons e t ih => intro r; simp only [List.foldr_cons, loadElt_eq, ih]

/-- without a sign below the first element that gives identifiers, the accumulated rules have no pending sign -/
theorem foldr_ids_signfree (d : Doc) : ∀ (ch : List Elt) (i : Ids), i.atIds = [] → i.hashIds = [] →
    (∀ v ∈ ch.filterMap pIdsText, (checkIdentifierList d v).contains "@" = false ∧ (checkIdentifierList d v).contains "#" = false) →
    (ch.foldr (loadIdentifiers d) i).atIds = [] ∧ (ch.foldr (loadIdentifiers d) i).hashIds = [] := by
  intro ch
  induction ch with
  | nil => intro i h1 h2 _; exact ⟨h1, h2⟩
  | cons e t ih =>
    intro i h1 h2 hs
    simp only [List.foldr_cons]
    unfold loadIdentifiers
    cases ht : e.text "identifiers" with
    | none =>
      simp only
      apply ih i h1 h2
      intro v hv
      apply hs v
      simp only [List.filterMap_cons, pIdsText, ht]
      exact hv
    | some v =>
      simp only
      have hv : v ∈ (e :: t).filterMap pIdsText := by simp [pIdsText, ht]
      obtain ⟨s1, s2⟩ := hs v hv
      have hrec := ih i h1 h2 (fun w hw => hs w (by
        simp only [List.filterMap_cons, pIdsText, ht]
        exact List.mem_cons_of_mem _ hw))
      obtain ⟨a1, a2⟩ := applyIdentifiers_signfree (checkIdentifierList d v) (t.foldr (loadIdentifiers d) i) s1 s2
      exact ⟨a1.trans hrec.1, a2.trans hrec.2⟩

theorem firstSome_map_filterMap {α β} (f : α → Option β) : ∀ (l : List α), firstSome (l.map f) = (l.filterMap f).head? := by
  intro l
  induction l with
  | nil => rfl
  | cons a t ih =>
    simp only [List.map_cons, List.filterMap_cons]
    cases h : f a <;> simp [firstSome, ih]

/-- **identifiers, under the exact excluded hypothesis**: no sign below the first element that gives identifiers -/
theorem ids_meet_spec (d : Doc) (p : Bool) : ∀ (ch : List Elt) (i : Ids), i.atIds = [] → i.hashIds = [] →
    signResidue d ch = false →
    depIds p (ch.foldr (loadIdentifiers d) i) = specIds d ch p i := by
  intro ch
  induction ch with
  | nil => intro i _ _ _; rw [specIds_eq, depIds_eq_specPost]; rfl
  | cons e t ih =>
    intro i h1 h2 hres
    simp only [List.foldr_cons]
    cases ht : e.text "identifiers" with
    | none =>
      have hl : loadIdentifiers d e (t.foldr (loadIdentifiers d) i) = t.foldr (loadIdentifiers d) i := by
        simp [loadIdentifiers, ht]
      have hres' : signResidue d t = false := by
        simpa [signResidue, List.filterMap_cons, pIdsText, ht] using hres
      rw [hl, ih i h1 h2 hres', specIds_eq, specIds_eq]
      simp [List.map_cons, pIdsText, ht, firstSome]
    | some v =>
      have hl : loadIdentifiers d e (t.foldr (loadIdentifiers d) i) =
          applyIdentifiers (checkIdentifierList d v) (t.foldr (loadIdentifiers d) i) := by
        simp [loadIdentifiers, ht]
      have hdeep : ∀ w ∈ t.filterMap pIdsText,
          (checkIdentifierList d w).contains "@" = false ∧ (checkIdentifierList d w).contains "#" = false := by
        intro w hw
        simp only [signResidue, List.filterMap_cons, pIdsText, ht] at hres
        have := (List.any_eq_false.mp hres) w hw
        simpa using this
      obtain ⟨a1, a2⟩ := foldr_ids_signfree d t i h1 h2 hdeep
      rw [hl, depIds_applyIdentifiers p _ _ (checkIdentifierList_nodup d v) a1 a2, specIds_eq, depIds_eq_specPost]
      simp [List.map_cons, pIdsText, ht, firstSome]

/-! ### application rules -/

theorem laDistribution_eq (e : Elt) (r : AppRules) : laDistribution e r = { r with distribution := (pDist e).getD r.distribution } := by
  unfold laDistribution pDist; cases parseEnum distNames (e.text "distribution") <;> rfl
theorem laStart_eq (e : Elt) (r : AppRules) : laStart e r = { r with startSeq := (pStart e).getD r.startSeq } := by
  unfold laStart pStart; cases parseSeq (e.text "start_sequence") <;> rfl
theorem laStop_eq (e : Elt) (r : AppRules) : laStop e r = { r with stopSeq := (pStop e).getD r.stopSeq } := by
  unfold laStop pStop; cases parseSeq (e.text "stop_sequence") <;> rfl
theorem laStrategy_eq (e : Elt) (r : AppRules) : laStrategy e r = { r with startingStrategy := (pStrategy e).getD r.startingStrategy } := by
  unfold laStrategy pStrategy; cases parseEnum startNames (e.text "starting_strategy") <;> rfl
theorem laSfs_eq (e : Elt) (r : AppRules) : laSfs e r = { r with sfs := (pSfs e).getD r.sfs } := by
  unfold laSfs pSfs; cases parseEnum sfsNames (e.text "starting_failure_strategy") <;> rfl
theorem laRfs_eq (e : Elt) (r : AppRules) : laRfs e r = { r with rfs := (pRfs e).getD r.rfs } := by
  unfold laRfs pRfs; cases parseEnum rfsNames (e.text "running_failure_strategy") <;> rfl

/-- documented status formula of one element -/
def pFormula (d : Doc) (e : Elt) : Option String :=
  match e.text "operational_status" with
  | some v => if d.formulasOk.contains v then some v else none
  | none => none

theorem laStatus_eq (d : Doc) (e : Elt) (r : AppRules) :
    laStatus d e r = { r with statusFormula := match pFormula d e with | some v => some v | none => r.statusFormula } := by
  unfold laStatus pFormula
  cases e.text "operational_status" with
  | none => rfl
  | some v => simp only; split <;> rfl

/-- the loaders of one application element, as one record -/
theorem loadAppElt_eq (d : Doc) (e : Elt) (r : AppRules) :
    loadAppElt d e r =
      { managed := true
        distribution := (pDist e).getD r.distribution
        ids := loadIdentifiers d e r.ids
        startSeq := (pStart e).getD r.startSeq
        stopSeq := (pStop e).getD r.stopSeq
        startingStrategy := (pStrategy e).getD r.startingStrategy
        sfs := (pSfs e).getD r.sfs
        rfs := (pRfs e).getD r.rfs
        statusFormula := match pFormula d e with | some v => some v | none => r.statusFormula } := by
  simp only [loadAppElt, laStatus_eq, laRfs_eq, laSfs_eq, laStrategy_eq, laStop_eq, laStart_eq, laIds, laDistribution_eq]

/-- what `ApplicationRules.check_dependencies` may change -/
theorem appCheckDependencies_fields (instances : List String) (app : String) (r r' : AppRules)
    (h : appCheckDependencies instances app r = .ok r') :
    r'.managed = r.managed ∧ r'.distribution = r.distribution ∧ r'.startingStrategy = r.startingStrategy ∧
    r'.sfs = r.sfs ∧ r'.rfs = r.rfs ∧ r'.statusFormula = r.statusFormula ∧
    r'.stopSeq = (if r.stopSeq < 0 then r.startSeq else r.stopSeq) ∧
    (r'.startSeq = r.startSeq ∨ r'.startSeq = 0) ∧
    (r.ids.hashIds = [] → r' = { r with stopSeq := if r.stopSeq < 0 then r.startSeq else r.stopSeq }) := by
  unfold appCheckDependencies at h
  simp only at h
  have hstop : (appCheckStop r).stopSeq = (if r.stopSeq < 0 then r.startSeq else r.stopSeq) := by
    unfold appCheckStop; split <;> simp_all
  have hkeep : (appCheckStop r).managed = r.managed ∧ (appCheckStop r).distribution = r.distribution ∧
      (appCheckStop r).startingStrategy = r.startingStrategy ∧ (appCheckStop r).sfs = r.sfs ∧ (appCheckStop r).rfs = r.rfs ∧
      (appCheckStop r).statusFormula = r.statusFormula ∧ (appCheckStop r).startSeq = r.startSeq ∧ (appCheckStop r).ids = r.ids := by
    unfold appCheckStop; split <;> simp
  have hform : appCheckStop r = { r with stopSeq := if r.stopSeq < 0 then r.startSeq else r.stopSeq } := by
    unfold appCheckStop; split <;> simp_all
  obtain ⟨k1, k2, k3, k4, k5, k6, k7, k8⟩ := hkeep
  split at h
  · rename_i hh
    unfold appCheckHash at h
    have hne : r.ids.hashIds ≠ [] := by
      intro hc; rw [k8, hc] at hh; simp at hh
    split at h
    · injection h with h; subst h
      exact ⟨k1, k2, k3, k4, k5, k6, hstop, Or.inr rfl, fun hc => absurd hc hne⟩
    · split at h
      · injection h with h; subst h
        exact ⟨k1, k2, k3, k4, k5, k6, hstop, Or.inr rfl, fun hc => absurd hc hne⟩
      · split at h
        · cases h
        · injection h with h; subst h
          exact ⟨k1, k2, k3, k4, k5, k6, hstop, Or.inl k7, fun hc => absurd hc hne⟩
  · injection h with h; subst h
    exact ⟨k1, k2, k3, k4, k5, k6, hstop, Or.inl k7, fun _ => hform⟩

/-! ### `@` -/

def hasAt (p : GProc) : Bool := !p.ids.atIds.isEmpty
def atAssigned (p : GProc) (i : String) : GProc := { p with ids := { p.ids with atIds := [], identifiers := [i] } }

theorem zipAssignAt_length : ∀ (l : List GProc) (avail : List String), (zipAssignAt l avail).length = l.length := by
  intro l
  induction l with
  | nil => intro _; rfl
  | cons p t ih =>
    intro avail
    unfold zipAssignAt
    split
    · simp [ih]
    · cases avail <;> simp [ih]

/-- positional form of the `zip` loop: the k-th `@` process (in index order) gets the k-th available identifier, the
    processes in excess are left as they are, the other processes are not touched -/
theorem zipAssignAt_getElem : ∀ (l : List GProc) (avail : List String) (k : Nat) (p : GProc), l[k]? = some p →
    (zipAssignAt l avail)[k]? = some (if hasAt p then
        (match avail[(l.take k).countP hasAt]? with | some i => atAssigned p i | none => p) else p) := by
  intro l
  induction l with
  | nil => intro avail k p h; simp at h
  | cons p0 t ih =>
    intro avail k p h
    cases k with
    | zero =>
      simp only [List.getElem?_cons_zero, Option.some.injEq] at h
      subst h
      unfold zipAssignAt
      by_cases hp : p0.ids.atIds.isEmpty = true
      · simp [hp, hasAt]
      · cases avail with
        | nil => simp [hp, hasAt]
        | cons i rest => simp [hp, hasAt, atAssigned]
    | succ k' =>
      simp only [List.getElem?_cons_succ] at h
      unfold zipAssignAt
      by_cases hp : p0.ids.atIds.isEmpty = true
      · have hc : ((p0 :: t).take (k' + 1)).countP hasAt = (t.take k').countP hasAt := by
          simp [List.take_succ_cons, hasAt, hp]
        simp only [hp, if_true, List.getElem?_cons_succ, hc]
        exact ih avail k' p h
      · have hc : ((p0 :: t).take (k' + 1)).countP hasAt = (t.take k').countP hasAt + 1 := by
          simp [List.take_succ_cons, hasAt, hp]
        cases avail with
        | nil =>
          simp only [hp, Bool.false_eq_true, if_false, List.getElem?_cons_succ, hc]
          have := ih [] k' p h
          simpa using this
        | cons i rest =>
          simp only [hp, Bool.false_eq_true, if_false, List.getElem?_cons_succ, hc]
          exact ih rest k' p h

theorem countP_take_lt {l : List GProc} {k1 k2 : Nat} {p : GProc} (hlt : k1 < k2) (h1 : l[k1]? = some p) (hp : hasAt p = true) :
    (l.take k1).countP hasAt < (l.take k2).countP hasAt := by
  have hk1 : k1 < l.length := by
    rcases Nat.lt_or_ge k1 l.length with h | h
    · exact h
    · rw [List.getElem?_eq_none h] at h1; cases h1
  have hstep : (l.take (k1 + 1)).countP hasAt = (l.take k1).countP hasAt + 1 := by
    rw [List.take_add_one, h1]
    simp [List.countP_append, hp]
  have hmono : (l.take (k1 + 1)).countP hasAt ≤ (l.take k2).countP hasAt := by
    have hsub : (l.take (k1 + 1)).Sublist (l.take k2) := List.take_sublist_take_left (by omega)
    exact hsub.countP_le
  omega

/-! ### `#` -/

def hashAssigned (p : GProc) (i : String) : GProc := { p with ids := { p.ids with hashIds := [], identifiers := [i] } }

/-- the counts after a balanced round-robin: `r` instances already have `q + 1`, the others `q` -/
def rr (m q r : Nat) : List Nat := List.replicate r (q + 1) ++ List.replicate (m - r) q

theorem firstMinIdx_replicate (n q : Nat) (hn : 0 < n) : firstMinIdx (List.replicate n q) = some 0 := by
  induction n with
  | zero => omega
  | succ k ih =>
    simp only [List.replicate_succ, firstMinIdx]
    cases k with
    | zero => simp [firstMinIdx]
    | succ k' =>
      rw [ih (by omega)]
      simp

theorem firstMinIdx_rr (m q : Nat) : ∀ (r : Nat), r < m → firstMinIdx (rr m q r) = some r ∧ (rr m q r).getD r 0 = q := by
  intro r
  induction r generalizing m with
  | zero =>
    intro hm
    simp only [rr, List.replicate_zero, List.nil_append, Nat.sub_zero]
    refine ⟨firstMinIdx_replicate m q hm, ?_⟩
    cases m with
    | zero => omega
    | succ k => simp [List.replicate_succ]
  | succ r' ih =>
    intro hm
    cases m with
    | zero => omega
    | succ m' =>
      have hr : r' < m' := by omega
      obtain ⟨i1, i2⟩ := ih m' hr
      have hrr : rr (m' + 1) q (r' + 1) = (q + 1) :: rr m' q r' := by
        simp [rr, List.replicate_succ]
      rw [hrr]
      refine ⟨?_, by simpa using i2⟩
      simp only [firstMinIdx, i1, i2]
      simp

theorem incrAt_rr (m q : Nat) : ∀ (r : Nat), r < m → incrAt (rr m q r) r = rr m q (r + 1) := by
  intro r
  induction r generalizing m with
  | zero =>
    intro hm
    cases m with
    | zero => omega
    | succ k => simp [rr, List.replicate_succ, incrAt]
  | succ r' ih =>
    intro hm
    cases m with
    | zero => omega
    | succ m' =>
      have hrr : ∀ x, rr (m' + 1) q (x + 1) = (q + 1) :: rr m' q x := by
        intro x; simp [rr, List.replicate_succ]
      rw [hrr, hrr, incrAt, ih m' (by omega)]

theorem rr_full (m q : Nat) : rr m q m = rr m (q + 1) 0 := by
  simp [rr]

/-- the assignment loop on a group where every process carries `#`, started from balanced counts: never fails and
    assigns in round-robin order -/
theorem loopAssignHash_rr (ref : List String) : ∀ (l : List GProc) (q r : Nat), r < ref.length →
    (∀ p ∈ l, p.ids.hashIds.isEmpty = false) →
    ∃ l', loopAssignHash ref l (rr ref.length q r) = .ok l' ∧ l'.length = l.length ∧
      ∀ k p, l[k]? = some p → l'[k]? = some (hashAssigned p (ref.getD ((r + k) % ref.length) "")) := by
  intro l
  induction l with
  | nil => intro q r _ _; exact ⟨[], rfl, rfl, fun k p h => by simp at h⟩
  | cons p0 t ih =>
    intro q r hr hall
    have hp0 : p0.ids.hashIds.isEmpty = false := hall p0 (by simp)
    have ht : ∀ p ∈ t, p.ids.hashIds.isEmpty = false := fun p hp => hall p (by simp [hp])
    obtain ⟨f1, _⟩ := firstMinIdx_rr ref.length q r hr
    have hnext : ∃ q' r', r' < ref.length ∧ incrAt (rr ref.length q r) r = rr ref.length q' r' ∧
        ∀ k, (r' + k) % ref.length = (r + (k + 1)) % ref.length := by
      by_cases hlt : r + 1 < ref.length
      · exact ⟨q, r + 1, hlt, incrAt_rr _ _ _ hr, fun k => by congr 1; omega⟩
      · have hm : r + 1 = ref.length := by omega
        refine ⟨q + 1, 0, by omega, ?_, ?_⟩
        · rw [incrAt_rr _ _ _ hr, hm, rr_full]
        · intro k
          have : r + (k + 1) = ref.length + k := by omega
          rw [this, Nat.add_mod_left, Nat.zero_add]
    obtain ⟨q', r', hr', hinc, hidx⟩ := hnext
    obtain ⟨l', e1, e2, e3⟩ := ih q' r' hr' ht
    refine ⟨hashAssigned p0 (ref.getD r "") :: l', ?_, by simp [e2], ?_⟩
    · simp only [loopAssignHash, hp0, Bool.false_eq_true, if_false, f1, hinc, e1]
      rfl
    · intro k p hk
      cases k with
      | zero =>
        simp only [List.getElem?_cons_zero, Option.some.injEq] at hk
        subst hk
        simp [Nat.mod_eq_of_lt hr]
      | succ k' =>
        simp only [List.getElem?_cons_succ] at hk ⊢
        rw [e3 k' p hk, hidx k']

theorem nodup_getElem?_ne {α} : ∀ (l : List α) (i j : Nat) (a b : α), l.Nodup → i < j → l[i]? = some a → l[j]? = some b → a ≠ b := by
  intro l
  induction l with
  | nil => intro i j a b _ _ h; simp at h
  | cons x t ih =>
    intro i j a b hnd hlt h1 h2
    rw [List.nodup_cons] at hnd
    cases j with
    | zero => omega
    | succ j' =>
      simp only [List.getElem?_cons_succ] at h2
      cases i with
      | zero =>
        simp only [List.getElem?_cons_zero, Option.some.injEq] at h1
        subst h1
        intro hc
        subst hc
        exact hnd.1 (List.mem_of_getElem? h2)
      | succ i' =>
        simp only [List.getElem?_cons_succ] at h1
        exact ih i' j' a b hnd.2 (by omega) h1 h2

theorem zipAssignAt_noAt : ∀ (l : List GProc) (avail : List String), (∀ p ∈ l, hasAt p = false) → zipAssignAt l avail = l := by
  intro l
  induction l with
  | nil => intro _ _; rfl
  | cons p t ih =>
    intro avail h
    have hp : p.ids.atIds.isEmpty = true := by simpa [hasAt] using h p (by simp)
    simp only [zipAssignAt, hp, if_true, ih avail (fun q hq => h q (by simp [hq]))]

theorem mem_insertByIndex (p x : GProc) : ∀ (l : List GProc), x ∈ insertByIndex p l ↔ x = p ∨ x ∈ l := by
  intro l
  induction l with
  | nil => simp [insertByIndex]
  | cons q t ih =>
    simp only [insertByIndex]
    split
    · simp
    · simp only [List.mem_cons, ih]
      constructor
      · rintro (h | h | h)
        · exact Or.inr (Or.inl h)
        · exact Or.inl h
        · exact Or.inr (Or.inr h)
      · rintro (h | h | h)
        · exact Or.inr (Or.inl h)
        · exact Or.inl h
        · exact Or.inr (Or.inr h)

theorem mem_foldl_insertByIndex (x : GProc) : ∀ (l acc : List GProc),
    x ∈ l.foldl (fun acc p => insertByIndex p acc) acc ↔ x ∈ l ∨ x ∈ acc := by
  intro l
  induction l with
  | nil => intro acc; simp
  | cons p t ih =>
    intro acc
    simp only [List.foldl_cons, ih, mem_insertByIndex, List.mem_cons]
    constructor
    · rintro (h | h | h)
      · exact Or.inl (Or.inr h)
      · exact Or.inl (Or.inl h)
      · exact Or.inr h
    · rintro ((h | h) | h)
      · exact Or.inr (Or.inl h)
      · exact Or.inl h
      · exact Or.inr (Or.inr h)

theorem mem_sortByIndex (x : GProc) (l : List GProc) : x ∈ sortByIndex l ↔ x ∈ l := by
  unfold sortByIndex
  rw [mem_foldl_insertByIndex]
  simp

/-! ### options -/

theorem toRanged_some (lo hi : Int) (s : String) (v : Int) (h : toRanged lo hi s = some v) :
    pyInt s = some v ∧ lo ≤ v ∧ v ≤ hi := by
  unfold toRanged at h
  split at h
  · rename_i x hx
    split at h
    · cases h
    · injection h with h; subst h
      exact ⟨hx, by omega, by omega⟩
  · cases h

theorem getValue_ranged (cfg : Config) (k : String) (lo hi dflt : Int) :
    getValue cfg k dflt (toRanged lo hi) = specRanged lo hi dflt (lookupStr cfg k) := by
  unfold getValue specRanged
  cases lookupStr cfg k with
  | none => rfl
  | some s =>
    simp only [Option.bind_some]
    unfold toRanged
    cases pyInt s with
    | none => rfl
    | some v =>
      simp only
      by_cases h : lo ≤ v ∧ v ≤ hi
      · rw [if_neg (by omega), if_pos h]; rfl
      · rw [if_pos (by omega), if_neg h]; rfl

theorem specRanged_range (lo hi dflt : Int) (t : Option String) :
    specRanged lo hi dflt t = dflt ∨ (lo ≤ specRanged lo hi dflt t ∧ specRanged lo hi dflt t ≤ hi) := by
  unfold specRanged
  split
  · split
    · right; assumption
    · left; rfl
  · left; rfl

theorem getValue_enum (cfg : Config) (k : String) (names : List String) (dflt : String) :
    getValue cfg k dflt (toEnumUpper names) = specEnum names dflt (lookupStr cfg k) := by
  unfold getValue specEnum
  cases lookupStr cfg k with
  | none => rfl
  | some s =>
    simp only [toEnumUpper]
    split <;> rfl

theorem specEnum_mem (names : List String) (dflt : String) (t : Option String) (hd : dflt ∈ names) :
    specEnum names dflt t ∈ names := by
  unfold specEnum
  split
  · split
    · rename_i h; simpa using h
    · exact hd
  · exact hd

theorem getValue_bool (cfg : Config) (k : String) (dflt : Bool) :
    getValue cfg k dflt svBoolean = specBool dflt (lookupStr cfg k) := by
  unfold getValue specBool
  cases lookupStr cfg k with
  | none => rfl
  | some s =>
    simp only [Option.bind_some]
    cases svBoolean s <;> rfl

theorem toPeriod_range (s : String) (p : Period) (h : toPeriod s = some p) : periodInRange p = true := by
  unfold toPeriod at h
  split at h
  · rename_i n d hf
    split at h
    · rename_i hr
      injection h with h; subst h
      simp only [periodInRange, periodBounds] at hr ⊢
      simp only [Bool.and_eq_true, decide_eq_true_eq]
      omega
    · cases h
  · cases h

theorem optAll_spec {α} : ∀ (l : List (Option α)) (r : List α), optAll l = some r →
    r.length = l.length ∧ ∀ x ∈ r, some x ∈ l := by
  intro l
  induction l with
  | nil => intro r h; simp only [optAll, Option.some.injEq] at h; subst h; simp
  | cons a t ih =>
    intro r h
    cases a with
    | none => simp [optAll] at h
    | some v =>
      simp only [optAll] at h
      split at h
      · rename_i r' hr'
        injection h with h; subst h
        obtain ⟨i1, i2⟩ := ih r' hr'
        refine ⟨by simp [i1], ?_⟩
        intro x hx
        simp only [List.mem_cons] at hx
        rcases hx with rfl | hx
        · simp
        · simp [i2 x hx]
      · cases h

theorem binInsertAll_spec {α} (lt : α → α → Bool) : ∀ (rest sorted : List α),
    (binInsertAll lt sorted rest).length = sorted.length + rest.length ∧
    ∀ x, x ∈ binInsertAll lt sorted rest ↔ x ∈ sorted ∨ x ∈ rest := by
  intro rest
  induction rest with
  | nil => intro sorted; simp [binInsertAll]
  | cons y t ih =>
    intro sorted
    simp only [binInsertAll]
    obtain ⟨i1, i2⟩ := ih (List.take (binPos lt y sorted (sorted.length + 1) 0 sorted.length) sorted ++ [y] ++
      List.drop (binPos lt y sorted (sorted.length + 1) 0 sorted.length) sorted)
    have hmem : ∀ (pos : Nat) (x : α), x ∈ List.take pos sorted ++ [y] ++ List.drop pos sorted ↔ x = y ∨ x ∈ sorted := by
      intro pos x
      conv => rhs; rw [← List.take_append_drop pos sorted]
      simp only [List.mem_append, List.mem_singleton]
      constructor
      · rintro ((h | h) | h)
        · exact Or.inr (Or.inl h)
        · exact Or.inl h
        · exact Or.inr (Or.inr h)
      · rintro (h | h | h)
        · exact Or.inl (Or.inr h)
        · exact Or.inl (Or.inl h)
        · exact Or.inr h
    have hlen : ∀ (pos : Nat), (List.take pos sorted ++ [y] ++ List.drop pos sorted).length = sorted.length + 1 := by
      intro pos
      have := congrArg List.length (List.take_append_drop pos sorted)
      simp only [List.length_append, List.length_cons, List.length_nil] at this ⊢
      omega
    refine ⟨by rw [i1, hlen]; simp; omega, ?_⟩
    intro x
    rw [i2, hmem]
    simp only [List.mem_cons]
    constructor
    · rintro ((h | h) | h)
      · exact Or.inr (Or.inl h)
      · exact Or.inl h
      · exact Or.inr (Or.inr h)
    · rintro (h | h | h)
      · exact Or.inl (Or.inr h)
      · exact Or.inl (Or.inl h)
      · exact Or.inr h

/-- the sort of CPython keeps the elements (whatever the comparison does, `nan` included) -/
theorem pySort_spec {α} (lt : α → α → Bool) (l : List α) :
    (pySort lt l).length = l.length ∧ ∀ x, x ∈ pySort lt l ↔ x ∈ l := by
  have key : ∀ (n : Nat) (rev : Bool) (l : List α),
      (binInsertAll lt (if rev then (l.take n).reverse else l.take n) (l.drop n)).length = l.length ∧
      ∀ x, x ∈ binInsertAll lt (if rev then (l.take n).reverse else l.take n) (l.drop n) ↔ x ∈ l := by
    intro n rev l
    obtain ⟨i1, i2⟩ := binInsertAll_spec lt (l.drop n) (if rev then (l.take n).reverse else l.take n)
    have hl := congrArg List.length (List.take_append_drop n l)
    simp only [List.length_append] at hl
    refine ⟨?_, ?_⟩
    · rw [i1]; cases rev <;> simp only [Bool.false_eq_true, if_false, if_true, List.length_reverse] <;> omega
    · intro x
      rw [i2]
      have hx : x ∈ l ↔ x ∈ l.take n ∨ x ∈ l.drop n := by
        rw [← List.mem_append, List.take_append_drop]
      rw [hx]
      cases rev <;> simp
  match l with
  | [] => simp [pySort]
  | [x] => simp [pySort]
  | x :: y :: t =>
    simp only [pySort]
    split
    · exact key (2 + runDesc lt y t) true (x :: y :: t)
    · exact key (2 + runAsc lt y t) false (x :: y :: t)

/-- the clean-up of `check_options`, by membership (the list has no duplicate: `to_synchro_options` removes them) -/
theorem mem_synchroCleanup (o : Options) (hnd : o.synchroOptions.Nodup) (x : String) :
    x ∈ synchroCleanup o ↔ x ∈ o.synchroOptions ∧ ¬(x = "CORE" ∧ o.coreIdentifiers.isEmpty = true) ∧
      ¬(x = "STRICT" ∧ (o.supvisorsList.getD []).isEmpty = true) := by
  have step : ∀ (l : List String) (name : String) (c : Bool), l.Nodup →
      ((if c && l.contains name then l.erase name else l).Nodup ∧
       ∀ y, y ∈ (if c && l.contains name then l.erase name else l) ↔ y ∈ l ∧ ¬(y = name ∧ c = true)) := by
    intro l name c hl
    cases c with
    | true =>
      by_cases hm : l.contains name = true
      · simp only [hm, Bool.and_self, if_true]
        refine ⟨List.Nodup.erase name hl, fun y => ?_⟩
        rw [List.Nodup.mem_erase_iff hl]
        constructor
        · rintro ⟨h1, h2⟩; exact ⟨h2, fun h => h1 h.1⟩
        · rintro ⟨h1, h2⟩; exact ⟨fun h => h2 ⟨h, trivial⟩, h1⟩
      · simp only [hm, Bool.and_false, Bool.false_eq_true, if_false]
        refine ⟨hl, fun y => ?_⟩
        constructor
        · intro h
          refine ⟨h, fun hh => ?_⟩
          apply hm
          rw [← hh.1]
          simpa using h
        · exact fun h => h.1
    | false =>
      simp only [Bool.false_and, Bool.false_eq_true, if_false]
      exact ⟨hl, fun y => ⟨fun h => ⟨h, fun hh => by cases hh.2⟩, fun h => h.1⟩⟩
  unfold synchroCleanup
  obtain ⟨n1, m1⟩ := step o.synchroOptions "CORE" o.coreIdentifiers.isEmpty hnd
  obtain ⟨_, m2⟩ := step _ "STRICT" (o.supvisorsList.getD []).isEmpty n1
  simp only
  rw [m2, m1]
  constructor
  · rintro ⟨⟨h1, h2⟩, h3⟩; exact ⟨h1, h2, h3⟩
  · rintro ⟨h1, h2, h3⟩; exact ⟨⟨h1, h2⟩, h3⟩

theorem convertOptions_sync_nodup (dflt : List String) (cfg : Config) (hd : dflt.Nodup) :
    (convertOptions dflt cfg).synchroOptions.Nodup := by
  simp only [convertOptions, getValue]
  cases lookupStr cfg "synchro_options" with
  | none => exact hd
  | some v =>
    simp only [toSynchroOptions]
    split
    · exact dedup_nodup _
    · exact hd

/-! ### the lookup of the model is one of the candidates of the specification -/

def lenOf {α} (d : Doc) (name : String) (kv : String × α) : Option (Nat × α) :=
  match matchRes d kv.1 name with | .len n => some (n, kv.2) | _ => none

theorem matching_eq_filterMap {α} (d : Doc) (name : String) : ∀ (pats : List (String × α)) (ms : List (Nat × α)),
    matching d name pats = .ok ms → ms = pats.filterMap (lenOf d name) := by
  intro pats
  induction pats with
  | nil => intro ms h; simp only [matching] at h; injection h with h; subst h; rfl
  | cons kv t ih =>
    intro ms h
    obtain ⟨p0, v0⟩ := kv
    simp only [matching] at h
    split at h
    · cases h
    · rename_i hno
      rw [ih ms h]
      simp [lenOf, hno]
    · rename_i n0 hlen
      split at h
      · rename_i r hr
        injection h with h; subst h
        rw [ih r hr]
        simp [lenOf, hlen]
      · cases h

theorem foldl_max_eq {α} (M : Nat) : ∀ (l : List (Nat × α)) (init : Nat), (∀ x ∈ l, x.1 ≤ M) → init ≤ M →
    (init = M ∨ ∃ x ∈ l, x.1 = M) → l.foldl (fun b x => max b x.1) init = M := by
  intro l
  induction l with
  | nil =>
    intro init _ _ h
    rcases h with h | ⟨x, hx, _⟩
    · exact h
    · simp at hx
  | cons y t ih =>
    intro init hall hinit h
    simp only [List.foldl_cons]
    have hy : y.1 ≤ M := hall y (by simp)
    apply ih (max init y.1) (fun x hx => hall x (by simp [hx])) (by omega)
    rcases h with h | ⟨x, hx, hxM⟩
    · left; omega
    · simp only [List.mem_cons] at hx
      rcases hx with rfl | hx
      · left; omega
      · right; exact ⟨x, hx, hxM⟩

theorem longestMatches_eq {α} (d : Doc) (name : String) (pats : List (String × α)) :
    longestMatches d name pats =
      ((pats.filterMap (lenOf d name)).filter
        (fun x => x.1 == (pats.filterMap (lenOf d name)).foldl (fun b x => max b x.1) 0)).map (·.2) := rfl

/-- `get_best_pattern` picks one of the longest matches; it picks nothing only when nothing matches -/
theorem bestPattern_mem_longest {α} (d : Doc) (name : String) (pats : List (String × α)) (r : Option α)
    (h : bestPattern d name pats = .ok r) :
    match r with
    | some v => v ∈ longestMatches d name pats
    | none => longestMatches d name pats = [] := by
  unfold bestPattern at h
  split at h
  · rename_i ms hms
    injection h with h
    have hfm := matching_eq_filterMap d name pats ms hms
    cases hb : firstMax ms with
    | none =>
      rw [hb] at h
      simp only [Option.map_none] at h
      subst h
      have := firstMax_none ms hb
      simp only
      rw [longestMatches_eq, ← hfm, this]
      rfl
    | some b =>
      rw [hb] at h
      simp only [Option.map_some] at h
      subst h
      obtain ⟨hm, hmax⟩ := firstMax_spec ms b hb
      simp only
      rw [longestMatches_eq, ← hfm]
      have hbest : ms.foldl (fun acc x => max acc x.1) 0 = b.1 :=
        foldl_max_eq b.1 ms 0 hmax (Nat.zero_le _) (Or.inr ⟨b, hm, rfl⟩)
      rw [hbest]
      simp only [List.mem_map, List.mem_filter]
      exact ⟨b, ⟨hm, by simp⟩, rfl⟩
  · cases h

theorem getApplicationElement_mem (d : Doc) (app : String) (r : Option AppElt)
    (h : getApplicationElement d app = .ok r) : r ∈ appCandidates d app := by
  unfold getApplicationElement at h
  unfold appCandidates
  split at h
  · rename_i a ha
    injection h with h; subst h
    simp [ha]
  · rename_i hnone
    simp only [hnone]
    have := bestPattern_mem_longest d app _ r h
    cases r with
    | none => simp only at this; simp [this]
    | some v =>
      simp only at this
      cases hl : longestMatches d app (patternDict (·.elt.pattern) d.apps) with
      | nil => rw [hl] at this; simp at this
      | cons x t => rw [hl] at this; simp only [List.mem_map]; exact ⟨v, this, rfl⟩

theorem getProgramIn_mem (d : Doc) (a : AppElt) (proc : String) (c : Option Elt × Bool)
    (h : getProgramIn d a proc = .ok c) : c ∈ progCandidatesIn d a proc := by
  unfold getProgramIn at h
  unfold progCandidatesIn
  split at h
  · rename_i p hp
    injection h with h; subst h
    simp [hp]
  · rename_i hnone
    simp only [hnone]
    split at h
    · rename_i p hb
      injection h with h; subst h
      have := bestPattern_mem_longest d proc _ (some p) hb
      simp only at this
      cases hl : longestMatches d proc (patternDict (·.pattern) a.programs) with
      | nil => rw [hl] at this; simp at this
      | cons x t => rw [hl] at this; simp only [List.mem_map]; exact ⟨p, this, rfl⟩
    · rename_i hb
      injection h with h; subst h
      have := bestPattern_mem_longest d proc _ none hb
      simp only at this
      simp [this]
    · cases h

theorem getProgramElement_mem (d : Doc) (app proc : String) (c : Option Elt × Bool)
    (h : getProgramElement d app proc = .ok c) : c ∈ progCandidates d app proc := by
  unfold getProgramElement at h
  unfold progCandidates
  split at h
  · cases h
  · rename_i hget
    injection h with h; subst h
    simp only [List.mem_flatMap]
    exact ⟨none, getApplicationElement_mem d app none hget, by simp⟩
  · rename_i a hget
    simp only [List.mem_flatMap]
    exact ⟨some a, getApplicationElement_mem d app (some a) hget, getProgramIn_mem d a proc c h⟩

/-! ### helpers moved out of the property file -/

theorem fieldOf_start_nonneg (ch : List Elt) (x : Int) (hx : 0 ≤ x) : 0 ≤ fieldOf pStart ch x := by
  rcases fieldOf_mem pStart ch x with h | ⟨e, _, h⟩
  · rw [h]; exact hx
  · exact parseSeq_nonneg _ _ h

theorem fieldOf_stop_nonneg_or_dflt (ch : List Elt) (x : Int) : fieldOf pStop ch x = x ∨ 0 ≤ fieldOf pStop ch x := by
  rcases fieldOf_mem pStop ch x with h | ⟨e, _, h⟩
  · left; exact h
  · right; exact parseSeq_nonneg _ _ h

theorem substFirst_of_not_mem (name : String) (vals : List String) : ∀ (ids : List String), name ∉ ids →
    substFirst name vals ids = ids := by
  intro ids
  induction ids with
  | nil => intro _; rfl
  | cons h t ih =>
    intro hn
    simp only [List.mem_cons, not_or] at hn
    have : (h == name) = false := by simpa using fun hc => hn.1 hc.symm
    simp only [substFirst, this, Bool.false_eq_true, if_false, ih hn.2]

theorem substFirst_split (name : String) (vals : List String) : ∀ (pre post : List String), name ∉ pre →
    substFirst name vals (pre ++ name :: post) = pre ++ vals ++ post := by
  intro pre
  induction pre with
  | nil => intro post _; simp [substFirst]
  | cons h t ih =>
    intro post hn
    simp only [List.mem_cons, not_or] at hn
    have : (h == name) = false := by simpa using fun hc => hn.1 hc.symm
    simp only [List.cons_append, substFirst, this, Bool.false_eq_true, if_false, ih post hn.2, List.append_assoc]

theorem procRules_ext (a b : ProcRules) (h1 : a.ids = b.ids) (h2 : a.startSeq = b.startSeq) (h3 : a.stopSeq = b.stopSeq)
    (h4 : a.required = b.required) (h5 : a.waitExit = b.waitExit) (h6 : a.load = b.load) (h7 : a.sfs = b.sfs)
    (h8 : a.rfs = b.rfs) : a = b := by
  cases a; cases b; simp_all

/-- no element at all: the dependencies are still checked on the inherited rules, as the specification says -/
theorem resolution_meets_spec_none (d : Doc) (isPattern : Bool) (r0 : ProcRules)
    (h1 : r0.ids.atIds = []) (h2 : r0.ids.hashIds = []) :
    checkDependencies isPattern r0 = specProc d (none, isPattern) r0 := by
  apply procRules_ext
  · rw [checkDependencies_ids]
    exact ids_meet_spec d isPattern [] r0.ids h1 h2 rfl
  · rw [checkDependencies_startSeq]; rfl
  · rw [checkDependencies_stopSeq]; rfl
  · rw [checkDependencies_required]; rfl
  · rw [checkDependencies_waitExit]; rfl
  · rw [checkDependencies_load]; rfl
  · rw [checkDependencies_sfs]; rfl
  · rw [checkDependencies_rfs]; rfl

end Supv.Rules
