import Supv.Model.Proc
import Supv.Spec.C11

/-! Helper lemmas for C11: the invariant relating a `ProcessStatus` model state to the per-instance views of the
    specification, and its preservation by every process-level operation. -/

namespace Supv.Proc
open Supv.Spec.C11

theorem Infos.get?_set_same (l : Infos) (i : Nat) (v : Info) : (l.set i v).get? i = some v := by
  induction l with
  | nil => simp [Infos.set, Infos.get?]
  | cons h t ih => obtain ⟨k, w⟩ := h; grind [Infos.set, Infos.get?]

theorem Infos.get?_set_other (l : Infos) (i j : Nat) (v : Info) (h : j ≠ i) :
    (l.set i v).get? j = l.get? j := by
  induction l with
  | nil => grind [Infos.set, Infos.get?]
  | cons hd t ih => obtain ⟨k, w⟩ := hd; grind [Infos.set, Infos.get?]

theorem Infos.get?_del_same (l : Infos) (i : Nat) : (l.del i).get? i = none := by
  induction l with
  | nil => simp [Infos.del, Infos.get?]
  | cons hd t ih => obtain ⟨k, w⟩ := hd; grind [Infos.del, Infos.get?]

theorem Infos.get?_del_other (l : Infos) (i j : Nat) (h : j ≠ i) : (l.del i).get? j = l.get? j := by
  induction l with
  | nil => simp [Infos.del, Infos.get?]
  | cons hd t ih => obtain ⟨k, w⟩ := hd; grind [Infos.del, Infos.get?]

theorem Infos.mem_of_get? (l : Infos) (i : Nat) (v : Info) (h : l.get? i = some v) : (i, v) ∈ l := by
  induction l with
  | nil => simp [Infos.get?] at h
  | cons hd t ih => obtain ⟨k, w⟩ := hd; grind [Infos.get?]

theorem Infos.get?_of_mem (l : Infos) (i : Nat) (v : Info) (h : (i, v) ∈ l) : ∃ w, l.get? i = some w := by
  induction l with
  | nil => simp at h
  | cons hd t ih =>
    obtain ⟨k, w⟩ := hd
    simp only [Infos.get?]
    by_cases hk : k = i
    · exact ⟨w, by simp [hk]⟩
    · simp only [hk, if_false]
      apply ih
      simp at h
      rcases h with h | h
      · exact absurd h.1.symm hk
      · exact h

/-- `latest` returns one of the entries -/
theorem latest_mem (l : Infos) (v : Info) (h : latest l = some v) : ∃ i, (i, v) ∈ l := by
  induction l generalizing v with
  | nil => simp [latest] at h
  | cons hd t ih =>
    obtain ⟨k, w⟩ := hd
    simp only [latest] at h
    split at h
    · simp at h; exact ⟨k, by simp [h]⟩
    · rename_i u hu
      split at h
      · simp at h; obtain ⟨i, hi⟩ := ih u hu; exact ⟨i, by simp [← h, hi]⟩
      · simp at h; exact ⟨k, by simp [h]⟩

theorem latest_ne_none (l : Infos) (h : l ≠ []) : latest l ≠ none := by
  cases l with
  | nil => exact absurd rfl h
  | cons hd t => obtain ⟨k, w⟩ := hd; simp only [latest]; split <;> (try split) <;> simp

theorem set_ne_nil (l : Infos) (i : Nat) (v : Info) : l.set i v ≠ [] := by
  cases l with
  | nil => simp [Infos.set]
  | cons hd t => obtain ⟨k, w⟩ := hd; simp only [Infos.set]; split <;> simp

theorem Infos.keys_set (l : Infos) (i : Nat) (v : Info) :
    (l.set i v).map (·.1) = if i ∈ l.map (·.1) then l.map (·.1) else l.map (·.1) ++ [i] := by
  induction l with
  | nil => simp [Infos.set]
  | cons hd t ih =>
    obtain ⟨k, w⟩ := hd
    simp only [Infos.set]
    by_cases hk : k = i
    · simp [hk]
    · have hik : ¬ i = k := fun h => hk h.symm
      simp only [hk, if_false, List.map_cons, ih, List.mem_cons, hik, false_or]
      split <;> simp

theorem Infos.nodup_set (l : Infos) (i : Nat) (v : Info) (h : (l.map (·.1)).Nodup) :
    ((l.set i v).map (·.1)).Nodup := by
  rw [Infos.keys_set]
  split
  · exact h
  · rename_i hn; rw [List.nodup_append]; simp_all; grind

theorem Infos.keys_del_sub (l : Infos) (i k : Nat) (h : k ∈ (l.del i).map (·.1)) : k ∈ l.map (·.1) := by
  induction l with
  | nil => simp [Infos.del] at h
  | cons hd t ih => obtain ⟨k', w⟩ := hd; simp only [Infos.del] at h; split at h <;> simp_all <;> grind

theorem Infos.nodup_del (l : Infos) (i : Nat) (h : (l.map (·.1)).Nodup) : ((l.del i).map (·.1)).Nodup := by
  induction l with
  | nil => simp [Infos.del]
  | cons hd t ih =>
    obtain ⟨k, w⟩ := hd
    simp only [List.map_cons, List.nodup_cons] at h
    simp only [Infos.del]
    split
    · exact ih h.2
    · simp only [List.map_cons, List.nodup_cons]
      exact ⟨fun hm => h.1 (Infos.keys_del_sub t i k hm), ih h.2⟩

theorem Infos.get?_eq_of_mem (l : Infos) (i : Nat) (v : Info) (hnd : (l.map (·.1)).Nodup) (h : (i, v) ∈ l) :
    l.get? i = some v := by
  induction l with
  | nil => simp at h
  | cons hd t ih =>
    obtain ⟨k, w⟩ := hd
    simp only [List.map_cons, List.nodup_cons] at hnd
    simp only [Infos.get?]
    simp at h
    rcases h with h | h
    · simp [h.1, h.2]
    · have : k ≠ i := by
        intro hk; subst hk
        exact hnd.1 (by simp; exact ⟨v, h⟩)
      simp [this]; exact ih hnd.2 h

/-! ### the invariant -/

/-- relation between a model status `p` and the specification views `V` of all instances -/
structure Rel (p : Proc) (V : Nat → View) : Prop where
  keys : (p.infos.map (·.1)).Nodup
  nodup : p.running.Nodup
  stoppedEmpty : p.state.isStopped = true → p.running = []
  listedOk : ∀ j ∈ p.running, ∃ v, p.infos.get? j = some v ∧ (v.state.isRunning = true ∨ v.state = .stopping)
  runListed : ∀ j v, p.infos.get? j = some v → v.state.isRunning = true → j ∈ p.running
  entries : ∀ i, (p.infos.get? i).map (·.state) = (V i).last.map (·.1)
  listed : ∀ i, i ∈ p.running ↔ (V i).listed = true
  stateRunning : p.state.isRunning = true ↔ ∃ j ∈ p.running, ∃ v, p.infos.get? j = some v ∧ v.state.isRunning = true

theorem runningState_not_stopped (l : List PState)
    (h : ∃ s ∈ l, s.isRunning = true ∨ s = .stopping) : (runningState l).isStopped = false := by
  obtain ⟨s, hs, hk⟩ := h
  unfold runningState
  cases s <;> simp_all [PState.isRunning] <;> (repeat' split) <;> simp_all [PState.isStopped]

theorem runningState_isRunning (l : List PState) :
    (runningState l).isRunning = true ↔ ∃ s ∈ l, s.isRunning = true := by
  unfold runningState
  constructor
  · intro h
    repeat' split at h
    all_goals first
      | (simp [PState.isRunning] at h; done)
      | (rename_i hc; exact ⟨_, by simpa using hc, by simp [PState.isRunning]⟩)
  · rintro ⟨s, hs, hr⟩
    cases s <;> simp [PState.isRunning] at hr <;> (repeat' split) <;> simp_all [PState.isRunning]

/-- membership in the new running list (needs only duplicate-freeness and "stopped ⇒ nobody listed") -/
theorem mem_updRunning (p : Proc) (i j : Nat) (s : PState) (hnd : p.running.Nodup)
    (hse : p.state.isStopped = true → p.running = []) :
    j ∈ updRunning p i s ↔
      (if j = i then listedStep (decide (i ∈ p.running)) s = true else j ∈ p.running) := by
  unfold updRunning listedStep
  by_cases hji : j = i
  · subst hji
    by_cases h1 : s.isStopped = true
    · have h2 : s.isRunning = false := by cases s <;> simp_all [PState.isStopped, PState.isRunning]
      simp [h1, h2]
      exact fun h => (List.Nodup.mem_erase_iff hnd).mp h |>.1 rfl
    · by_cases h2 : s.isRunning = true
      · by_cases h3 : p.state.isStopped = true
        · simp [h1, h2, h3]
        · by_cases h4 : j ∈ p.running <;> simp [h1, h2, h3, h4]
      · simp [h1, h2]
  · by_cases h1 : s.isStopped = true
    · simp [h1, hji, List.mem_erase_of_ne hji]
    · by_cases h2 : s.isRunning = true
      · by_cases h3 : p.state.isStopped = true
        · have := hse h3
          simp [h1, h2, h3, hji, this]
        · by_cases h4 : i ∈ p.running <;> simp [h1, h2, h3, h4, hji]
      · simp [h1, h2, hji]

theorem nodup_updRunning (p : Proc) (i : Nat) (s : PState) (hnd : p.running.Nodup) :
    (updRunning p i s).Nodup := by
  unfold updRunning
  repeat' split
  · exact hnd.erase i
  · simp
  · exact hnd
  · rw [List.nodup_append]; simp_all; grind
  · exact hnd

theorem listedStep_true (was : Bool) (s : PState) (h : listedStep was s = true) :
    s.isRunning = true ∨ (s = .stopping ∧ was = true) := by
  unfold listedStep at h
  cases s <;> simp_all [PState.isRunning, PState.isStopped]

/-- the result is a value satisfying `P` (in particular: not a Python exception) -/
def Res.Holds {α : Type} (r : Res α) (P : α → Prop) : Prop :=
  match r with
  | .ok a => P a
  | .err _ => False

@[simp] theorem Res.holds_ok {α : Type} (a : α) (P : α → Prop) : (Res.ok a).Holds P ↔ P a := Iff.rfl
@[simp] theorem Res.holds_err {α : Type} (e : String) (P : α → Prop) : (Res.err e : Res α).Holds P ↔ False := Iff.rfl

theorem Res.Holds.exists {α : Type} {r : Res α} {P : α → Prop} (h : r.Holds P) : ∃ a, r = .ok a ∧ P a := by
  cases r with
  | ok a => exact ⟨a, rfl, h⟩
  | err e => exact absurd h (by simp)

theorem Res.Holds.mono {α : Type} {r : Res α} {P Q : α → Prop} (h : r.Holds P) (hpq : ∀ a, P a → Q a) : r.Holds Q := by
  cases r with
  | ok a => exact hpq a h
  | err e => exact absurd h (by simp)

theorem updRunning_congr (p : Proc) (infos : Infos) (forced : Option PState) (i : Nat) (s : PState) :
    updRunning { p with infos := infos, forced := forced } i s = updRunning p i s := rfl

/-- The heart of C11: storing a report `v` (state `s`) for instance `i` and re-synthesising keeps the relation,
    whatever the other views are, and never raises. -/
theorem updateStatus_rel (p : Proc) (V V' : Nat → View) (i : Nat) (s : PState) (v : Info)
    (forced' : Option PState) (hrel : Rel p V) (hv : v.state = s)
    (hVi_last : (V' i).last.map (·.1) = some s)
    (hVi_listed : (V' i).listed = listedStep (V i).listed s)
    (hVo : ∀ j, j ≠ i → (V' j).last = (V j).last ∧ (V' j).listed = (V j).listed) :
    (updateStatus { p with infos := p.infos.set i v, forced := forced' } i s).Holds
      (fun p' => Rel p' V' ∧ p'.infos = p.infos.set i v ∧ p'.forced = forced') := by
  have hnd := nodup_updRunning p i s hrel.nodup
  have hmem := fun j => mem_updRunning p i j s hrel.nodup hrel.stoppedEmpty
  have hdec : decide (i ∈ p.running) = (V i).listed := by
    have := hrel.listed i
    cases h : (V i).listed <;> simp_all
  -- every listed instance has a running-like entry
  have hok : ∀ j ∈ updRunning p i s, ∃ w, (p.infos.set i v).get? j = some w ∧
      (w.state.isRunning = true ∨ w.state = .stopping) := by
    intro j hj
    rw [hmem j] at hj
    by_cases hji : j = i
    · subst hji
      simp at hj
      refine ⟨v, Infos.get?_set_same _ _ _, ?_⟩
      rcases listedStep_true _ _ hj with h | h
      · exact Or.inl (hv ▸ h)
      · exact Or.inr (hv ▸ h.1)
    · simp [hji] at hj
      obtain ⟨w, hw, hk⟩ := hrel.listedOk j hj
      exact ⟨w, by rw [Infos.get?_set_other _ _ _ _ hji]; exact hw, hk⟩
  -- every running-like entry is listed
  have hrl : ∀ j w, (p.infos.set i v).get? j = some w → w.state.isRunning = true → j ∈ updRunning p i s := by
    intro j w hw hr
    rw [hmem j]
    by_cases hji : j = i
    · subst hji
      rw [Infos.get?_set_same] at hw
      simp at hw; subst hw
      simp [listedStep, hv ▸ hr]
    · simp [hji]
      rw [Infos.get?_set_other _ _ _ _ hji] at hw
      exact hrel.runListed j w hw hr
  have hkeys := Infos.nodup_set p.infos i v hrel.keys
  have hentries : ∀ k, ((p.infos.set i v).get? k).map (·.state) = (V' k).last.map (·.1) := by
    intro k
    by_cases hk : k = i
    · subst hk; rw [Infos.get?_set_same]; simp [hv, hVi_last]
    · rw [Infos.get?_set_other _ _ _ _ hk, (hVo k hk).1]; exact hrel.entries k
  have hlisted : ∀ k, k ∈ updRunning p i s ↔ (V' k).listed = true := by
    intro k
    rw [hmem k]
    by_cases hk : k = i
    · subst hk; simp [hVi_listed, hdec]
    · simp [hk, (hVo k hk).2]; exact hrel.listed k
  unfold updateStatus
  simp only [updRunning_congr]
  by_cases hlen : (updRunning p i s).length > 1
  · -- conflict
    simp only [hlen, if_true]
    have hall : (updRunning p i s).all (fun j => ((p.infos.set i v).get? j).isSome) = true := by
      rw [List.all_eq_true]; intro j hj; obtain ⟨w, hw, _⟩ := hok j hj; simp [hw]
    simp only [hall, if_true, Res.holds_ok]
    refine ⟨?_, by first | rfl | trivial, by first | rfl | trivial⟩
    have hne : ∃ j, j ∈ updRunning p i s := by
      cases h : updRunning p i s with
      | nil => simp [h] at hlen
      | cons a t => exact ⟨a, by simp⟩
    refine ⟨hkeys, hnd, ?_, hok, hrl, hentries, hlisted, ?_⟩
    · intro hst
      obtain ⟨j, hj⟩ := hne
      obtain ⟨w, hw, hk⟩ := hok j hj
      have := runningState_not_stopped
        ((updRunning p i s).filterMap (fun j => ((p.infos.set i v).get? j).map (·.state)))
        ⟨w.state, by simp [List.mem_filterMap]; exact ⟨j, hj, w, hw, rfl⟩, hk⟩
      simp_all
    · simp only [runningState_isRunning, List.mem_filterMap]
      constructor
      · rintro ⟨st, ⟨j, hj, hst⟩, hr⟩
        cases hg : (p.infos.set i v).get? j with
        | none => simp [hg] at hst
        | some w => simp [hg] at hst; exact ⟨j, hj, w, hg, hst ▸ hr⟩
      · rintro ⟨j, hj, w, hw, hr⟩
        exact ⟨w.state, ⟨j, hj, by simp [hw]⟩, hr⟩
  · simp only [hlen, if_false]
    split
    · -- single
      rename_i j hrun
      obtain ⟨w, hw, hk⟩ := hok j (by simp [hrun])
      simp only [hw, Res.holds_ok]
      refine ⟨?_, by first | rfl | trivial, by first | rfl | trivial⟩
      refine ⟨hkeys, hnd, ?_, hok, hrl, hentries, hlisted, ?_⟩
      · intro hst
        exfalso
        simp only at hst
        rcases hk with h | h
        · cases hws : w.state <;> simp_all [PState.isRunning, PState.isStopped]
        · simp_all [PState.isStopped]
      · constructor
        · intro hr; exact ⟨j, by simp [hrun], w, hw, hr⟩
        · rintro ⟨j', hj', w', hw', hr⟩
          have hjj : j' = j := by simpa [hrun] using hj'
          subst hjj; rw [hw] at hw'; simp at hw'; exact hw' ▸ hr
    · -- nobody listed
      rename_i hne
      have hnil : updRunning p i s = [] := by
        cases h : updRunning p i s with
        | nil => rfl
        | cons a t =>
          cases t with
          | nil => exact absurd h (hne a)
          | cons b u => simp [h] at hlen
      have hnorun : ∀ j w, (p.infos.set i v).get? j = some w → w.state.isRunning = false := by
        intro j w hw
        cases hr : w.state.isRunning
        · rfl
        · have := hrl j w hw hr; simp [hnil] at this
      split
      · simp only [Res.holds_ok]
        refine ⟨?_, by first | rfl | trivial, by first | rfl | trivial⟩
        refine ⟨hkeys, hnd, by intro _; exact hnil, hok, hrl, hentries, hlisted, ?_⟩
        simp [hnil, PState.isRunning]
      · cases hl : latest (p.infos.set i v) with
        | none => exact absurd hl (latest_ne_none _ (set_ne_nil _ _ _))
        | some w =>
          simp only [Res.holds_ok]
          refine ⟨?_, by first | rfl | trivial, by first | rfl | trivial⟩
          refine ⟨hkeys, hnd, by intro _; exact hnil, hok, hrl, hentries, hlisted, ?_⟩
          obtain ⟨k, hk⟩ := latest_mem _ _ hl
          have := hnorun k w (Infos.get?_eq_of_mem _ _ _ hkeys hk)
          simp [hnil, this]

/-- The synthesis step on its own (used for removals, where no report is stored): whatever the status `q` handed to
    `updateStatus`, if its entries are the last reports of the views `V'`, the list `updRunning q i s` is duplicate-free, holds
    exactly the instances `V'` lists, every listed instance has a running-like or STOPPING entry and every running-like entry is
    listed, then the result is related to `V'` - and nothing raises as long as an entry is left. -/
theorem synth_rel (q : Proc) (i : Nat) (s : PState) (V' : Nat → View)
    (hkeys : (q.infos.map (·.1)).Nodup) (hnd : (updRunning q i s).Nodup)
    (hok : ∀ j ∈ updRunning q i s, ∃ w, q.infos.get? j = some w ∧ (w.state.isRunning = true ∨ w.state = .stopping))
    (hrl : ∀ j w, q.infos.get? j = some w → w.state.isRunning = true → j ∈ updRunning q i s)
    (hentries : ∀ k, (q.infos.get? k).map (·.state) = (V' k).last.map (·.1))
    (hlisted : ∀ k, k ∈ updRunning q i s ↔ (V' k).listed = true)
    (hne0 : q.infos ≠ []) :
    (updateStatus q i s).Holds (fun p' => Rel p' V' ∧ p'.infos = q.infos ∧ p'.forced = q.forced) := by
  unfold updateStatus
  simp only
  by_cases hlen : (updRunning q i s).length > 1
  · -- conflict
    simp only [hlen, if_true]
    have hall : (updRunning q i s).all (fun j => (q.infos.get? j).isSome) = true := by
      rw [List.all_eq_true]; intro j hj; obtain ⟨w, hw, _⟩ := hok j hj; simp [hw]
    simp only [hall, if_true, Res.holds_ok]
    refine ⟨?_, by first | rfl | trivial, by first | rfl | trivial⟩
    have hne : ∃ j, j ∈ updRunning q i s := by
      cases h : updRunning q i s with
      | nil => simp [h] at hlen
      | cons a t => exact ⟨a, by simp⟩
    refine ⟨hkeys, hnd, ?_, hok, hrl, hentries, hlisted, ?_⟩
    · intro hst
      obtain ⟨j, hj⟩ := hne
      obtain ⟨w, hw, hk⟩ := hok j hj
      have := runningState_not_stopped
        ((updRunning q i s).filterMap (fun j => (q.infos.get? j).map (·.state)))
        ⟨w.state, by simp [List.mem_filterMap]; exact ⟨j, hj, w, hw, rfl⟩, hk⟩
      simp_all
    · simp only [runningState_isRunning, List.mem_filterMap]
      constructor
      · rintro ⟨st, ⟨j, hj, hst⟩, hr⟩
        cases hg : q.infos.get? j with
        | none => simp [hg] at hst
        | some w => simp [hg] at hst; exact ⟨j, hj, w, hg, hst ▸ hr⟩
      · rintro ⟨j, hj, w, hw, hr⟩
        exact ⟨w.state, ⟨j, hj, by simp [hw]⟩, hr⟩
  · simp only [hlen, if_false]
    split
    · -- single
      rename_i j hrun
      obtain ⟨w, hw, hk⟩ := hok j (by simp [hrun])
      simp only [hw, Res.holds_ok]
      refine ⟨?_, by first | rfl | trivial, by first | rfl | trivial⟩
      refine ⟨hkeys, hnd, ?_, hok, hrl, hentries, hlisted, ?_⟩
      · intro hst
        exfalso
        simp only at hst
        rcases hk with h | h
        · cases hws : w.state <;> simp_all [PState.isRunning, PState.isStopped]
        · simp_all [PState.isStopped]
      · constructor
        · intro hr; exact ⟨j, by simp [hrun], w, hw, hr⟩
        · rintro ⟨j', hj', w', hw', hr⟩
          have hjj : j' = j := by simpa [hrun] using hj'
          subst hjj; rw [hw] at hw'; simp at hw'; exact hw' ▸ hr
    · -- nobody listed
      rename_i hne
      have hnil : updRunning q i s = [] := by
        cases h : updRunning q i s with
        | nil => rfl
        | cons a t =>
          cases t with
          | nil => exact absurd h (hne a)
          | cons b u => simp [h] at hlen
      have hnorun : ∀ j w, q.infos.get? j = some w → w.state.isRunning = false := by
        intro j w hw
        cases hr : w.state.isRunning
        · rfl
        · have := hrl j w hw hr; simp [hnil] at this
      split
      · simp only [Res.holds_ok]
        refine ⟨?_, by first | rfl | trivial, by first | rfl | trivial⟩
        refine ⟨hkeys, hnd, by intro _; exact hnil, hok, hrl, hentries, hlisted, ?_⟩
        simp [hnil, PState.isRunning]
      · cases hl : latest q.infos with
        | none => exact absurd hl (latest_ne_none _ hne0)
        | some w =>
          simp only [Res.holds_ok]
          refine ⟨?_, by first | rfl | trivial, by first | rfl | trivial⟩
          refine ⟨hkeys, hnd, by intro _; exact hnil, hok, hrl, hentries, hlisted, ?_⟩
          obtain ⟨k, hk⟩ := latest_mem _ _ hl
          have := hnorun k w (Infos.get?_eq_of_mem _ _ _ hkeys hk)
          simp [hnil, this]

/-! ### every process-level operation keeps the relation -/

/-- all views after one operation -/
def stepViews (V : Nat → View) (now : Nat) (op : POp) : Nat → View := fun i => viewStep i (V i) now op

/-- Inputs on which the statement is claimed: `upd`/`remove` without an entry are refused by `Context.check_process` before they
    reach the status.  The loss of an instance and the removal of an entry are claimed without condition since the repairs of
    `C11:lose-while-only-stopping` and `C11:remove-entry-not-stopped`. -/
def OpOk (V : Nat → View) : POp → Prop
  | .upd j _ _ _ _ => (V j).last.isSome = true
  | .remove j => (V j).last.isSome = true
  | _ => True

theorem Rel.congr {p p' : Proc} {V V' : Nat → View} (h : Rel p V)
    (hi : p'.infos = p.infos) (hr : p'.running = p.running) (hs : p'.state = p.state)
    (hV : ∀ k, (V' k).last.map (·.1) = (V k).last.map (·.1) ∧ (V' k).listed = (V k).listed) : Rel p' V' := by
  refine ⟨hi ▸ h.keys, hr ▸ h.nodup, ?_, ?_, ?_, ?_, ?_, ?_⟩
  · rw [hs, hr]; exact h.stoppedEmpty
  · rw [hr, hi]; exact h.listedOk
  · rw [hr, hi]; exact h.runListed
  · intro k; rw [hi, (hV k).1]; exact h.entries k
  · intro k; rw [hr, (hV k).2]; exact h.listed k
  · rw [hs, hr, hi]; exact h.stateRunning

/-- changing fields other than `state` of an existing entry keeps the relation -/
theorem Rel.set_same_state {p : Proc} {V : Nat → View} (h : Rel p V) (i : Nat) (v v' : Info)
    (hg : p.infos.get? i = some v) (hs : v'.state = v.state) : Rel { p with infos := p.infos.set i v' } V := by
  have hget : ∀ k, ((p.infos.set i v').get? k).map (·.state) = (p.infos.get? k).map (·.state) := by
    intro k
    by_cases hk : k = i
    · subst hk; rw [Infos.get?_set_same, hg]; simp [hs]
    · rw [Infos.get?_set_other _ _ _ _ hk]
  have hget' : ∀ k w, (p.infos.set i v').get? k = some w → ∃ w', p.infos.get? k = some w' ∧ w'.state = w.state := by
    intro k w hw
    have := hget k
    rw [hw] at this
    cases hk : p.infos.get? k with
    | none => simp [hk] at this
    | some w' => simp [hk] at this; exact ⟨w', rfl, this.symm⟩
  have hget'' : ∀ k w, p.infos.get? k = some w → ∃ w', (p.infos.set i v').get? k = some w' ∧ w'.state = w.state := by
    intro k w hw
    have := hget k
    rw [hw] at this
    cases hk : (p.infos.set i v').get? k with
    | none => simp [hk] at this
    | some w' => simp [hk] at this; exact ⟨w', rfl, this⟩
  refine ⟨Infos.nodup_set _ _ _ h.keys, h.nodup, h.stoppedEmpty, ?_, ?_, ?_, h.listed, ?_⟩
  · intro j hj
    obtain ⟨w, hw, hk⟩ := h.listedOk j hj
    obtain ⟨w', hw', hst⟩ := hget'' j w hw
    exact ⟨w', hw', hst ▸ hk⟩
  · intro j w hw hr
    obtain ⟨w', hw', hst⟩ := hget' j w hw
    exact h.runListed j w' hw' (hst ▸ hr)
  · intro k; simp only; rw [hget k]; exact h.entries k
  · simp only
    rw [h.stateRunning]
    constructor
    · rintro ⟨j, hj, w, hw, hr⟩
      obtain ⟨w', hw', hst⟩ := hget'' j w hw
      exact ⟨j, hj, w', hw', hst ▸ hr⟩
    · rintro ⟨j, hj, w, hw, hr⟩
      obtain ⟨w', hw', hst⟩ := hget' j w hw
      exact ⟨j, hj, w', hw', hst ▸ hr⟩

theorem resetForced_eq (p : Proc) (infos : Infos) (x : Option PState) :
    resetForced { p with infos := infos } x =
      { p with infos := infos, forced := if (p.forced.isSome && x != some .stopped) = true then none else p.forced } := by
  unfold resetForced
  split <;> simp_all

theorem pstep_rel (p : Proc) (V : Nat → View) (now : Nat) (op : POp) (hrel : Rel p V) (hok : OpOk V op) :
    (pstep p now op).Holds (fun p' => Rel p' (stepViews V now op)) := by
  cases op with
  | add i s e et dis =>
    simp only [pstep, addInfo, resetForced_eq]
    refine (updateStatus_rel p V (stepViews V now (.add i s e et dis)) i s _ _ hrel rfl ?_ ?_ ?_).mono
      (fun a h => h.1)
    · simp [stepViews, viewStep]
    · simp [stepViews, viewStep]
    · intro j hj; have : ¬ i = j := fun h => hj h.symm; simp [stepViews, viewStep, this]
  | upd i s e et dis =>
    simp only [OpOk] at hok
    have hent := hrel.entries i
    cases hg : p.infos.get? i with
    | none => simp [hg] at hent; cases hl : (V i).last <;> simp_all
    | some v =>
      simp only [pstep, updateInfo, hg, resetForced_eq]
      refine (updateStatus_rel p V (stepViews V now (.upd i s e et dis)) i s _ _ hrel rfl ?_ ?_ ?_).mono
        (fun a h => h.1)
      · simp [stepViews, viewStep]
      · simp [stepViews, viewStep]
      · intro j hj; have : ¬ i = j := fun h => hj h.symm; simp [stepViews, viewStep, this]
  | lose j =>
    by_cases hl : (V j).listed = true
    · -- listed, whatever the synthetic state (running somewhere, or only STOPPING copies): the entry turns FATAL
      have hjr : j ∈ p.running := (hrel.listed j).mpr hl
      obtain ⟨v, hv, _⟩ := hrel.listedOk j hjr
      have hc : p.running.contains j = true := by simpa using hjr
      simp only [pstep, hc, if_true, invalidateIdentifier, hv, updateInfo, resetForced_eq]
      refine (updateStatus_rel p V (stepViews V now (.lose j)) j .fatal _ _ hrel rfl ?_ ?_ ?_).mono (fun a h => h.1)
      · simp [stepViews, viewStep, hl]
      · simp [stepViews, viewStep, hl, listedStep, PState.isRunning, PState.isStopped]
      · intro k hk; have : ¬ j = k := fun h => hk h.symm; simp [stepViews, viewStep, this]
    · have hjr : ¬ j ∈ p.running := fun h => hl ((hrel.listed j).mp h)
      have hc : p.running.contains j = false := by simpa using hjr
      simp only [pstep, invalidateIdentifier, hc, Bool.false_eq_true, if_false, Res.holds_ok]
      refine hrel.congr rfl rfl rfl ?_
      intro k
      by_cases hk : j = k
      · subst hk; simp [stepViews, viewStep, hl]
      · simp [stepViews, viewStep, hk]
  | remove j =>
    simp only [OpOk] at hok
    have hent := hrel.entries j
    cases hg : p.infos.get? j with
    | none => rw [hg] at hent; cases hl : (V j).last <;> simp_all
    | some w =>
      simp only [pstep, hg, Option.isSome_some, if_true, removeIdentifier]
      have hjne : ¬ j ∈ p.running.erase j := fun h => ((List.Nodup.mem_erase_iff hrel.nodup).mp h).1 rfl
      have hmem : ∀ k, k ∈ p.running.erase j ↔ k ≠ j ∧ k ∈ p.running := fun k => List.Nodup.mem_erase_iff hrel.nodup
      have hVj : (stepViews V now (.remove j) j).last = none ∧ (stepViews V now (.remove j) j).listed = false := by
        simp [stepViews, viewStep, View.init]
      have hVo : ∀ k, k ≠ j → stepViews V now (.remove j) k = V k := by
        intro k hk; have : ¬ j = k := fun h => hk h.symm; simp [stepViews, viewStep, this]
      have hentries : ∀ k, ((p.infos.del j).get? k).map (·.state) = (stepViews V now (.remove j) k).last.map (·.1) := by
        intro k
        by_cases hkj : k = j
        · subst hkj; rw [Infos.get?_del_same, hVj.1]; rfl
        · rw [Infos.get?_del_other _ _ _ hkj, hVo k hkj]; exact hrel.entries k
      have hlisted : ∀ k, k ∈ p.running.erase j ↔ (stepViews V now (.remove j) k).listed = true := by
        intro k
        by_cases hkj : k = j
        · subst hkj; simp [hjne, hVj.2]
        · rw [hmem k, hVo k hkj, ← hrel.listed k]; simp [hkj]
      split
      · -- the last entry: a fresh status
        rename_i hemp
        simp only [Res.holds_ok]
        have hnone : ∀ k, (p.infos.del j).get? k = none := by
          intro k
          have : p.infos.del j = [] := by simpa using hemp
          rw [this]; rfl
        refine ⟨by simp, by simp, by intro; rfl, by simp, ?_, ?_, ?_, ?_⟩
        · intro k v h; simp [Infos.get?] at h
        · intro k
          have := hentries k; rw [hnone k] at this
          simpa [Infos.get?] using this
        · intro k
          constructor
          · intro h; simp at h
          · intro h
            exfalso
            have hk := (hlisted k).mpr h
            obtain ⟨hkj, hkr⟩ := (hmem k).mp hk
            obtain ⟨w', hw', _⟩ := hrel.listedOk k hkr
            have := hnone k
            rw [Infos.get?_del_other _ _ _ hkj, hw'] at this
            cases this
        · simp [PState.isRunning]
      · rename_i hemp
        have hrunq : updRunning { p with infos := p.infos.del j, running := p.running.erase j } j .stopped = p.running.erase j := by
          simp [updRunning, PState.isStopped, List.erase_of_not_mem hjne]
        refine (synth_rel { p with infos := p.infos.del j, running := p.running.erase j } j .stopped
          (stepViews V now (.remove j)) (Infos.nodup_del _ _ hrel.keys) ?_ ?_ ?_ hentries ?_ ?_).mono (fun a h => h.1)
        · rw [hrunq]; exact hrel.nodup.erase j
        · intro k hk
          rw [hrunq] at hk
          obtain ⟨hkj, hkr⟩ := (hmem k).mp hk
          obtain ⟨w', hw', hk'⟩ := hrel.listedOk k hkr
          exact ⟨w', by simp only; rw [Infos.get?_del_other _ _ _ hkj]; exact hw', hk'⟩
        · intro k w' hw' hr
          rw [hrunq]
          simp only at hw'
          by_cases hkj : k = j
          · subst hkj; rw [Infos.get?_del_same] at hw'; cases hw'
          · rw [Infos.get?_del_other _ _ _ hkj] at hw'
            exact (hmem k).mpr ⟨hkj, hrel.runListed k w' hw' hr⟩
        · intro k; rw [hrunq]; exact hlisted k
        · intro h; apply hemp; simp only at h; simp [h]
  | force target s et =>
    simp only [pstep, Res.holds_ok, forceState]
    refine hrel.congr ?_ ?_ ?_ (fun k => by simp [stepViews, viewStep])
    all_goals (split <;> (try split) <;> rfl)
  | disable i dis =>
    simp only [pstep]
    split
    · rename_i v hv
      simp only [Res.holds_ok]
      exact (hrel.set_same_state i v { v with disabled := dis } hv rfl).congr rfl rfl rfl
        (fun k => by simp [stepViews, viewStep])
    · simp only [Res.holds_ok]
      exact hrel.congr rfl rfl rfl (fun k => by simp [stepViews, viewStep])
  | tick i t =>
    simp only [pstep]
    split
    · rename_i v hv
      simp only [Res.holds_ok]
      refine (hrel.set_same_state i v { v with nowm := t } hv rfl).congr rfl rfl rfl (fun k => ?_)
      simp only [stepViews, viewStep]
      split <;> simp
    · simp only [Res.holds_ok]
      refine hrel.congr rfl rfl rfl (fun k => ?_)
      simp only [stepViews, viewStep]
      split <;> simp

end Supv.Proc
