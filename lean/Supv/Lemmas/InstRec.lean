import Supv.Lemmas.InstIso

/-! Frame lemmas for C07 (accuracy): which computations leave the whole status record of a RUNNING peer alone (`KeepsRec`).
    Loops whose body reads the state are handled with run-equations: for `a = j` the record read is `r` and the test is
    false; for `a ≠ j` another peer is written. -/

namespace Supv.Inst

/-- the whole status record of peer `j` is `r` -/
def peerRec (j : Nat) (r : Peer) (s : St) : Prop := s.peers[j]? = some r

structure KeepsRec (j : Nat) (r : Peer) {α} (x : M α) : Prop where
  run : ∀ s a s', x.run s = .ok (a, s') → peerRec j r s → peerRec j r s'

namespace KeepsRec
variable {j : Nat} {r : Peer}
theorem pure {α} (a : α) : KeepsRec j r (Pure.pure a : M α) := by
  constructor; intro s a' s' h hp
  simp [StateT.run, Pure.pure, StateT.pure, Except.pure] at h
  obtain ⟨_, rfl⟩ := h; exact hp
theorem bind {α β} {x : M α} {f : α → M β} (hx : KeepsRec j r x) (hf : ∀ a, KeepsRec j r (f a)) : KeepsRec j r (x >>= f) := by
  constructor; intro s b s' h hp
  obtain ⟨a, s1, h1, h2⟩ := run_bind _ _ _ _ _ h
  exact (hf a).run s1 b s' h2 (hx.run s a s1 h1 hp)
theorem get : KeepsRec j r (MonadState.get : M St) := by
  constructor; intro s a s' h hp
  simp [StateT.run, MonadState.get, getThe, MonadStateOf.get, StateT.get, Pure.pure, Except.pure] at h
  obtain ⟨_, rfl⟩ := h; exact hp
theorem throw {α} (e : Err) : KeepsRec j r (MonadExcept.throw e : M α) := by
  constructor; intro s a s' h
  have : (MonadExcept.throw e : M α).run s = Except.error e := rfl
  rw [this] at h; cases h
theorem modify (f : St → St) (hf : ∀ s, peerRec j r s → peerRec j r (f s)) : KeepsRec j r (modify f : M Unit) := by
  constructor; intro s a s' h hp
  simp [StateT.run, _root_.modify, modifyGet, MonadStateOf.modifyGet, StateT.modifyGet, Pure.pure, Except.pure] at h
  obtain ⟨_, rfl⟩ := h; exact hf s hp
theorem forIn {α β} (l : List α) (init : β) (f : α → β → M (ForInStep β))
    (hf : ∀ a b, KeepsRec j r (f a b)) : KeepsRec j r (forIn l init f) := by
  induction l generalizing init with
  | nil => simp only [List.forIn_nil]; exact pure _
  | cons a t ih =>
    simp only [List.forIn_cons]
    apply bind (hf a init); intro x
    cases x with
    | done b => exact pure _
    | yield b => exact ih b
end KeepsRec

theorem rec_emit (j : Nat) (r : Peer) (o : Out) : KeepsRec j r (emit o) := KeepsRec.modify _ (fun _ h => h)
theorem rec_getPeer (j : Nat) (r : Peer) (k : Nat) : KeepsRec j r (getPeer k) := KeepsRec.bind KeepsRec.get (fun _ => KeepsRec.pure _)
theorem rec_getModes (j : Nat) (r : Peer) (k : Nat) : KeepsRec j r (getModes k) := KeepsRec.bind KeepsRec.get (fun _ => KeepsRec.pure _)
theorem rec_modifyLocal (j : Nat) (r : Peer) (c : Cfg) (f : Modes → Modes) : KeepsRec j r (modifyLocal c f) := KeepsRec.modify _ (fun _ h => h)
theorem rec_setModes (j : Nat) (r : Peer) (k : Nat) (m : Modes) : KeepsRec j r (setModes k m) := KeepsRec.modify _ (fun _ h => h)
theorem rec_setRemoteModes (j : Nat) (r : Peer) (c : Cfg) (k : Nat) (m : Modes) : KeepsRec j r (setRemoteModes c k m) := by
  unfold setRemoteModes; split
  · exact KeepsRec.pure _
  · exact rec_setModes j r k m
theorem rec_modifyPeer_other (j : Nat) (r : Peer) (k : Nat) (f : Peer → Peer) (hk : k ≠ j) : KeepsRec j r (modifyPeer k f) := by
  apply KeepsRec.modify
  intro s hp
  unfold peerRec at *
  simp only [List.getElem?_modify]
  simp [hk]; simpa using hp

syntax "rec_leaf" : tactic
macro_rules | `(tactic| rec_leaf) => `(tactic| first
  | exact KeepsRec.pure _ | exact KeepsRec.get | exact KeepsRec.throw _
  | exact rec_emit _ _ _ | exact rec_getPeer _ _ _ | exact rec_getModes _ _ _ | exact rec_modifyLocal _ _ _ _
  | exact rec_setModes _ _ _ _ | exact rec_setRemoteModes _ _ _ _ _
  | exact rec_modifyPeer_other _ _ _ _ ‹_›
  | exact KeepsRec.modify _ (fun _ h => h)
  | assumption)
macro "rec_step" : tactic => `(tactic| first
  | (with_reducible rec_leaf)
  | (with_reducible apply KeepsRec.bind)
  | (with_reducible apply KeepsRec.forIn)
  | (intro _)
  | (split)
  | (dsimp only)
  | rec_leaf)
macro "rec_auto" : tactic => `(tactic| repeat rec_step)

theorem rec_localModes (j : Nat) (r : Peer) (c : Cfg) : KeepsRec j r (localModes c) := rec_getModes j r _
macro_rules | `(tactic| rec_leaf) => `(tactic| exact rec_localModes _ _ _)
theorem rec_publish (j : Nat) (r : Peer) (c : Cfg) : KeepsRec j r (publish c) := by unfold publish; rec_auto
macro_rules | `(tactic| rec_leaf) => `(tactic| exact rec_publish _ _ _)
theorem rec_askNat (j : Nat) (r : Peer) (q : Query) : KeepsRec j r (askNat q) := by unfold askNat; rec_auto
macro_rules | `(tactic| rec_leaf) => `(tactic| exact rec_askNat _ _ _)
theorem rec_ask (j : Nat) (r : Peer) (q : Query) : KeepsRec j r (ask q) := by unfold ask; rec_auto
macro_rules | `(tactic| rec_leaf) => `(tactic| exact rec_ask _ _ _)
theorem rec_masterFailJobs (j : Nat) (r : Peer) : KeepsRec j r masterFailJobs := by unfold masterFailJobs; rec_auto
macro_rules | `(tactic| rec_leaf) => `(tactic| exact rec_masterFailJobs _ _)
theorem rec_setMaster (j : Nat) (r : Peer) (c : Cfg) (m : Option Nat) : KeepsRec j r (setMaster c m) := by unfold setMaster; rec_auto
theorem rec_setFsm (j : Nat) (r : Peer) (c : Cfg) (f : SState) : KeepsRec j r (setFsm c f) := by unfold setFsm; rec_auto
theorem rec_setDegraded (j : Nat) (r : Peer) (c : Cfg) (d : Bool) : KeepsRec j r (setDegraded c d) := by unfold setDegraded; rec_auto
macro_rules | `(tactic| rec_leaf) => `(tactic| first | exact rec_setMaster _ _ _ _ | exact rec_setFsm _ _ _ _ | exact rec_setDegraded _ _ _ _)
theorem rec_updateInstanceState (j : Nat) (r : Peer) (c : Cfg) (k : Nat) (ns : IState) :
    KeepsRec j r (updateInstanceState c k ns) := by unfold updateInstanceState; rec_auto
macro_rules | `(tactic| rec_leaf) => `(tactic| exact rec_updateInstanceState _ _ _ _ _)

/-- the state setter on ANOTHER peer leaves `j`'s record alone -/
theorem rec_setPeerState_other (j : Nat) (r : Peer) (c : Cfg) (k : Nat) (ns : IState) (hk : k ≠ j) :
    KeepsRec j r (setPeerState c k ns) := by unfold setPeerState; rec_auto
macro_rules | `(tactic| rec_leaf) => `(tactic| exact rec_setPeerState_other _ _ _ _ _ ‹_›)

theorem run_getPeer (k : Nat) (s : St) : (getPeer k).run s = .ok (s.peers[k]?.getD {}, s) := by
  simp [getPeer, StateT.run, Bind.bind, StateT.bind, Except.bind, MonadState.get, getThe,
    MonadStateOf.get, StateT.get, Pure.pure, StateT.pure, Except.pure]

/-- one iteration of the timer loop: a fresh RUNNING record is not touched (for `a = j` the test is false, for
    `a ≠ j` another peer is written) -/
theorem rec_timerBody (j : Nat) (r : Peer) (c : Cfg) (k a : Nat)
    (hfresh : ¬ (r.state.active = true ∧ k - r.localCounter > c.inactivity)) :
    KeepsRec j r (do
      let p ← getPeer a
      if p.state.active ∧ k - p.localCounter > c.inactivity then setPeerState c a .failed
      (Pure.pure (ForInStep.yield PUnit.unit) : M (ForInStep PUnit))) := by
  by_cases ha : a = j
  · subst ha
    constructor
    intro s x s' h hp
    obtain ⟨p, s1, h1, h2⟩ := run_bind _ _ _ _ _ h
    rw [run_getPeer] at h1
    simp at h1
    obtain ⟨rfl, rfl⟩ := h1
    have hp' : s.peers[a]?.getD {} = r := by unfold peerRec at hp; simp [hp]
    rw [hp'] at h2
    simp only [hfresh, if_false] at h2
    simp [StateT.run, Pure.pure, StateT.pure, Except.pure] at h2
    obtain ⟨_, rfl⟩ := h2
    exact hp
  · rec_auto

/-- the remaining callees of the FSM evaluation leave a RUNNING record alone: they only write FAILED peers
    (invalidation) and CHECKED peers (activation) -/
theorem rec_invalidate_other (j : Nat) (r : Peer) (c : Cfg) (k : Nat) (f : Bool) (hk : k ≠ j) :
    KeepsRec j r (invalidate c k f) := by
  unfold invalidate
  have : KeepsRec j r (masterState c) := by unfold masterState; rec_auto
  rec_auto

/-- Context.invalidate_failed: `j` is RUNNING, hence not FAILED, hence skipped -/
theorem rec_invalidateFailed (j : Nat) (r : Peer) (c : Cfg) (hr : r.state = .running) : KeepsRec j r (invalidateFailed c) := by
  unfold invalidateFailed
  apply KeepsRec.bind
  · apply KeepsRec.forIn
    intro a b
    by_cases ha : a = j
    · subst ha
      constructor
      intro s x s' h hp
      obtain ⟨p, s1, h1, h2⟩ := run_bind _ _ _ _ _ h
      rw [run_getPeer] at h1
      simp at h1
      obtain ⟨rfl, rfl⟩ := h1
      have hp' : s.peers[a]?.getD {} = r := by unfold peerRec at hp; simp [hp]
      rw [hp'] at h2
      simp [hr, StateT.run, Pure.pure, StateT.pure, Except.pure] at h2
      obtain ⟨_, rfl⟩ := h2
      exact hp
    · have := rec_invalidate_other j r c a false ha
      rec_auto
  · intro _; exact KeepsRec.pure _

/-- Context.activate_checked: `j` is RUNNING, hence not CHECKED, hence skipped -/
theorem rec_activateChecked (j : Nat) (r : Peer) (c : Cfg) (hr : r.state = .running) : KeepsRec j r (activateChecked c) := by
  unfold activateChecked
  apply KeepsRec.bind
  · apply KeepsRec.forIn
    intro a b
    by_cases ha : a = j
    · subst ha
      constructor
      intro s x s' h hp
      obtain ⟨p, s1, h1, h2⟩ := run_bind _ _ _ _ _ h
      rw [run_getPeer] at h1
      simp at h1
      obtain ⟨rfl, rfl⟩ := h1
      have hp' : s.peers[a]?.getD {} = r := by unfold peerRec at hp; simp [hp]
      rw [hp'] at h2
      simp [hr, StateT.run, Pure.pure, StateT.pure, Except.pure] at h2
      obtain ⟨_, rfl⟩ := h2
      exact hp
    · rec_auto
  · intro _; exact KeepsRec.pure _

section
variable (j : Nat) (r : Peer) (c : Cfg) (hr : r.state = .running)
include hr

theorem rec_checkInstances (f : SState) : KeepsRec j r (checkInstances c f) := by
  unfold checkInstances
  have := rec_invalidateFailed j r c hr
  have := rec_activateChecked j r c hr
  rec_auto
end

theorem rec_isRunningLocal (j : Nat) (r : Peer) (c : Cfg) (k : Nat) : KeepsRec j r (isRunningLocal c k) := by unfold isRunningLocal; rec_auto
macro_rules | `(tactic| rec_leaf) => `(tactic| exact rec_isRunningLocal _ _ _ _)
theorem rec_evaluateStability (j : Nat) (r : Peer) (c : Cfg) : KeepsRec j r (evaluateStability c) := by unfold evaluateStability; rec_auto
theorem rec_isStable (j : Nat) (r : Peer) : KeepsRec j r (isStable : M Bool) := by unfold isStable; rec_auto
theorem rec_masterIds (j : Nat) (r : Peer) (c : Cfg) : KeepsRec j r (masterIds c) := by unfold masterIds; rec_auto
macro_rules | `(tactic| rec_leaf) => `(tactic| first | exact rec_evaluateStability _ _ _ | exact rec_isStable _ _ | exact rec_masterIds _ _ _)
theorem rec_checkMaster (j : Nat) (r : Peer) (c : Cfg) : KeepsRec j r (checkMaster c) := by unfold checkMaster; rec_auto
theorem rec_selectMaster (j : Nat) (r : Peer) (c : Cfg) : KeepsRec j r (selectMaster c) := by unfold selectMaster; rec_auto
theorem rec_stableSubset (j : Nat) (r : Peer) (l : List Nat) : KeepsRec j r (stableSubset l) := by unfold stableSubset; rec_auto
theorem rec_masterState (j : Nat) (r : Peer) (c : Cfg) : KeepsRec j r (masterState c) := by unfold masterState; rec_auto
macro_rules | `(tactic| rec_leaf) => `(tactic| first | exact rec_checkMaster _ _ _ | exact rec_selectMaster _ _ _ | exact rec_stableSubset _ _ _ | exact rec_masterState _ _ _)
theorem rec_initialRunning (j : Nat) (r : Peer) (c : Cfg) : KeepsRec j r (initialRunning c) := by unfold initialRunning; rec_auto
theorem rec_allRunning (j : Nat) (r : Peer) (c : Cfg) : KeepsRec j r (allRunning c) := by unfold allRunning; rec_auto
theorem rec_coreRunning (j : Nat) (r : Peer) (c : Cfg) : KeepsRec j r (coreRunning c) := by unfold coreRunning; rec_auto
macro_rules | `(tactic| rec_leaf) => `(tactic| first | exact rec_initialRunning _ _ _ | exact rec_allRunning _ _ _ | exact rec_coreRunning _ _ _)
theorem rec_checkStrictFailure (j : Nat) (r : Peer) (c : Cfg) : KeepsRec j r (checkStrictFailure c) := by unfold checkStrictFailure; rec_auto
theorem rec_checkListFailure (j : Nat) (r : Peer) (c : Cfg) : KeepsRec j r (checkListFailure c) := by unfold checkListFailure; rec_auto
theorem rec_checkCoreFailure (j : Nat) (r : Peer) (c : Cfg) : KeepsRec j r (checkCoreFailure c) := by unfold checkCoreFailure; rec_auto
theorem rec_checkUserFailure (j : Nat) (r : Peer) (c : Cfg) : KeepsRec j r (checkUserFailure c) := by unfold checkUserFailure; rec_auto
macro_rules | `(tactic| rec_leaf) => `(tactic| first | exact rec_checkStrictFailure _ _ _ | exact rec_checkListFailure _ _ _ | exact rec_checkCoreFailure _ _ _ | exact rec_checkUserFailure _ _ _)
theorem rec_fsmState (j : Nat) (r : Peer) (c : Cfg) : KeepsRec j r (fsmState c) := by unfold fsmState; rec_auto
theorem rec_isMaster (j : Nat) (r : Peer) (c : Cfg) : KeepsRec j r (isMaster c) := by unfold isMaster; rec_auto
theorem rec_localRunning (j : Nat) (r : Peer) (c : Cfg) : KeepsRec j r (localRunning c) := by unfold localRunning; rec_auto
macro_rules | `(tactic| rec_leaf) => `(tactic| first | exact rec_fsmState _ _ _ | exact rec_isMaster _ _ _ | exact rec_localRunning _ _ _)
theorem rec_checkFailureStrategy (j : Nat) (r : Peer) (c : Cfg) : KeepsRec j r (checkFailureStrategy c) := by unfold checkFailureStrategy; rec_auto
macro_rules | `(tactic| rec_leaf) => `(tactic| exact rec_checkFailureStrategy _ _ _)
theorem rec_checkConsistence (j : Nat) (r : Peer) (c : Cfg) (f : SState) : KeepsRec j r (checkConsistence c f) := by unfold checkConsistence; rec_auto
macro_rules | `(tactic| rec_leaf) => `(tactic| exact rec_checkConsistence _ _ _ _)
theorem rec_stateEnter (j : Nat) (r : Peer) (c : Cfg) (f : SState) : KeepsRec j r (stateEnter c f) := by unfold stateEnter; rec_auto
theorem rec_stateExit (j : Nat) (r : Peer) (c : Cfg) (f : SState) : KeepsRec j r (stateExit c f) := by unfold stateExit; rec_auto

section
variable (j : Nat) (r : Peer) (c : Cfg) (hr : r.state = .running)
include hr
theorem rec_baseNext (f : SState) : KeepsRec j r (baseNext c f) := by
  unfold baseNext
  have := rec_checkInstances j r c hr f
  rec_auto
end
theorem rec_endSyncUser (j : Nat) (r : Peer) (c : Cfg) : KeepsRec j r (endSyncUser c) := by unfold endSyncUser; rec_auto
macro_rules | `(tactic| rec_leaf) => `(tactic| exact rec_endSyncUser _ _ _)
theorem rec_nextSync (j : Nat) (r : Peer) (c : Cfg) : KeepsRec j r (nextSync c) := by unfold nextSync; rec_auto
theorem rec_nextElection (j : Nat) (r : Peer) (c : Cfg) : KeepsRec j r (nextElection c) := by unfold nextElection; rec_auto
theorem rec_nextDistribution (j : Nat) (r : Peer) (c : Cfg) : KeepsRec j r (nextDistribution c) := by unfold nextDistribution; rec_auto
theorem rec_nextOperation (j : Nat) (r : Peer) (c : Cfg) : KeepsRec j r (nextOperation c) := by unfold nextOperation; rec_auto
theorem rec_nextConciliation (j : Nat) (r : Peer) (c : Cfg) : KeepsRec j r (nextConciliation c) := by unfold nextConciliation; rec_auto
theorem rec_nextEnding (j : Nat) (r : Peer) (c : Cfg) (f : SState) : KeepsRec j r (nextEnding c f) := by unfold nextEnding; rec_auto
macro_rules | `(tactic| rec_leaf) => `(tactic| first | exact rec_nextSync _ _ _ | exact rec_nextElection _ _ _ | exact rec_nextDistribution _ _ _ | exact rec_nextOperation _ _ _ | exact rec_nextConciliation _ _ _ | exact rec_nextEnding _ _ _ _)

theorem rec_stateNext (j : Nat) (r : Peer) (c : Cfg) (hr : r.state = .running) (f : SState) : KeepsRec j r (stateNext c f) := by
  unfold stateNext
  have := rec_baseNext j r c hr f
  rec_auto

theorem rec_setState (j : Nat) (r : Peer) (c : Cfg) (hr : r.state = .running) (fuel : Nat) : ∀ nxt, KeepsRec j r (setState c nxt fuel) := by
  induction fuel with
  | zero => intro nxt; unfold setState; exact KeepsRec.pure _
  | succ fuel ih =>
    intro nxt
    unfold setState
    cases nxt with
    | none => exact KeepsRec.pure _
    | some t =>
      dsimp only
      apply KeepsRec.bind (rec_fsmState j r c); intro cur
      split
      · exact KeepsRec.pure _
      · split
        · exact rec_emit _ _ _
        · apply KeepsRec.bind (rec_stateExit j r c cur); intro _
          apply KeepsRec.bind (rec_setFsm j r c t); intro _
          apply KeepsRec.bind (KeepsRec.modify (j := j) (r := r) (fun s => { s with lost := [], lostProcs := false }) (fun _ h => h)); intro _
          apply KeepsRec.bind (rec_stateEnter j r c t); intro _
          apply KeepsRec.bind (rec_stateNext j r c hr t); intro n
          exact ih n

theorem rec_fsmNext (j : Nat) (r : Peer) (c : Cfg) (hr : r.state = .running) : KeepsRec j r (fsmNext c) := by
  unfold fsmNext
  apply KeepsRec.bind (rec_fsmState j r c); intro cur
  apply KeepsRec.bind (rec_stateNext j r c hr cur); intro n
  exact rec_setState j r c hr 12 n

attribute [local irreducible] setState fsmNext

/-- the timer check does not touch a RUNNING record whose last tick is fresh -/
theorem rec_timerCheck (j : Nat) (r : Peer) (c : Cfg) (k : Nat)
    (hcond : ¬ (r.state.active = true ∧ k - r.localCounter > c.inactivity)) : KeepsRec j r (timerCheck c k) := by
  unfold timerCheck
  apply KeepsRec.bind _ (fun _ => KeepsRec.pure _)
  apply KeepsRec.forIn
  intro a u
  by_cases ha : a = j
  · subst ha
    constructor
    intro s x s' h hp
    obtain ⟨p, s1, h1, h2⟩ := run_bind _ _ _ _ _ h
    rw [run_getPeer] at h1
    simp at h1
    obtain ⟨rfl, rfl⟩ := h1
    have hp' : s.peers[a]?.getD {} = r := by unfold peerRec at hp; simp [hp]
    rw [hp'] at h2
    simp [hcond, StateT.run, Pure.pure, StateT.pure, Except.pure] at h2
    obtain ⟨_, rfl⟩ := h2
    exact hp
  · rec_auto

theorem rec_deferredPublish (j : Nat) (r : Peer) (c : Cfg) : KeepsRec j r (deferredPublish c) := by unfold deferredPublish; rec_auto

/-- a remote peer that is RUNNING and whose last tick was tagged no more than `inactivity` local ticks ago keeps its whole
    status record — in particular stays RUNNING — through the local tick `k`, timer check and complete FSM evaluation
    included -/
theorem rec_handleLtick (j : Nat) (r : Peer) (c : Cfg) (k : Nat) (hj : j ≠ c.me) (hr : r.state = .running)
    (hfresh : k - r.localCounter ≤ c.inactivity) : KeepsRec j r (handleLtick c k) := by
  unfold handleLtick
  have hme : c.me ≠ j := fun h => hj h.symm
  have hnext := rec_fsmNext j r c hr
  have hcond : ¬ (r.state.active = true ∧ k - r.localCounter > c.inactivity) := by intro h; omega
  have ht := rec_timerCheck j r c k hcond
  have hd := rec_deferredPublish j r c
  rec_auto

end Supv.Inst
