import Supv.Lemmas.InstKeeps

namespace Supv.Inst

/-! ### the relational part: `set_state` only follows table edges -/

/-- reflexive-transitive closure of the transition table -/
inductive Path : SState → SState → Prop where
  | refl (a : SState) : Path a a
  | step {a b d : SState} : b ∈ a.next → Path b d → Path a d

theorem Path.trans {a b d : SState} (h1 : Path a b) (h2 : Path b d) : Path a d := by
  induction h1 with
  | refl => exact h2
  | step hab _ ih => exact Path.step hab (ih h2)

theorem Path.single {a b : SState} (h : b ∈ a.next) : Path a b := Path.step h (Path.refl b)

/-- `x` moves the local FSM state along a path of the table -/
structure Moves (c : Cfg) {α} (x : M α) : Prop where
  run : ∀ s a s', x.run s = .ok (a, s') → c.me < s.modes.length →
    Path (fsmOf c s) (fsmOf c s') ∧ s'.modes.length = s.modes.length

theorem Keeps.moves {c : Cfg} {α} {x : M α} (h : Keeps c x) : Moves c x :=
  ⟨fun s a s' hr _ => ⟨by rw [(h.run s a s' hr).1]; exact Path.refl _, (h.run s a s' hr).2⟩⟩

theorem run_bind {α β} (x : M α) (f : α → M β) (s : St) (b : β) (s' : St)
    (h : (x >>= f).run s = .ok (b, s')) : ∃ a s1, x.run s = .ok (a, s1) ∧ (f a).run s1 = .ok (b, s') := by
  simp only [StateT.run, Bind.bind, StateT.bind, Except.bind] at h
  cases hx1 : x s with
  | error e => simp [hx1] at h
  | ok r =>
    obtain ⟨a, s1⟩ := r
    simp only [hx1] at h
    exact ⟨a, s1, by simpa [StateT.run] using hx1, by simpa [StateT.run] using h⟩

theorem run_fsmState (c : Cfg) (s : St) : (fsmState c).run s = .ok (fsmOf c s, s) := by
  simp [fsmState, localModes, getModes, fsmOf, StateT.run, Bind.bind, StateT.bind, Except.bind, MonadState.get, getThe,
    MonadStateOf.get, StateT.get, Pure.pure, StateT.pure, Except.pure]

theorem run_setFsm (c : Cfg) (f : SState) (s s' : St) (u : Unit) (h : (setFsm c f).run s = .ok (u, s'))
    (hwf : c.me < s.modes.length) : fsmOf c s' = f ∧ s'.modes.length = s.modes.length := by
  unfold setFsm at h
  obtain ⟨lm, s1, h1, h2⟩ := run_bind _ _ _ _ _ h
  have hs1 : s1 = s ∧ lm = s.modes[c.me]?.getD {} := by
    simp [localModes, getModes, StateT.run, Bind.bind, StateT.bind, Except.bind, MonadState.get, getThe,
      MonadStateOf.get, StateT.get, Pure.pure, StateT.pure, Except.pure] at h1
    exact ⟨h1.2.symm, h1.1.symm⟩
  obtain ⟨rfl, hlm⟩ := hs1
  split at h2
  · obtain ⟨_, s2, h3, h4⟩ := run_bind _ _ _ _ _ h2
    have hs2 : s2 = { s1 with modes := s1.modes.modify c.me (fun lm => { lm with fsm := f }) } := by
      simp [modifyLocal, StateT.run, _root_.modify, modifyGet, MonadStateOf.modifyGet, StateT.modifyGet, Pure.pure, Except.pure] at h3
      exact h3.symm
    have k4 := (keeps_publish c).run _ _ _ h4
    subst hs2
    constructor
    · rw [k4.1]
      unfold fsmOf
      simp [List.getElem?_modify, List.getElem?_eq_getElem hwf]
    · rw [k4.2]; simp
  · rename_i hne
    simp [StateT.run, Pure.pure, StateT.pure, Except.pure] at h2
    obtain ⟨_, rfl⟩ := h2
    simp only [ne_eq, Decidable.not_not] at hne
    exact ⟨by unfold fsmOf; rw [← hlm]; exact hne, rfl⟩

/-- FiniteStateMachine.set_state moves along a path of the table and keeps the state well-formed -/
theorem setState_moves (c : Cfg) (fuel : Nat) : ∀ (nxt : Option SState) (s : St) (u : Unit) (s' : St),
    (setState c nxt fuel).run s = .ok (u, s') → c.me < s.modes.length →
    Path (fsmOf c s) (fsmOf c s') ∧ s'.modes.length = s.modes.length := by
  induction fuel with
  | zero =>
    intro nxt s u s' h _
    simp [setState, StateT.run, Pure.pure, StateT.pure, Except.pure] at h
    obtain ⟨_, rfl⟩ := h; exact ⟨Path.refl _, rfl⟩
  | succ fuel ih =>
    intro nxt s u s' h hwf
    unfold setState at h
    cases nxt with
    | none =>
      simp [StateT.run, Pure.pure, StateT.pure, Except.pure] at h
      obtain ⟨_, rfl⟩ := h; exact ⟨Path.refl _, rfl⟩
    | some t =>
      simp only [] at h
      obtain ⟨cur, s1, h1, h2⟩ := run_bind _ _ _ _ _ h
      rw [run_fsmState] at h1
      simp at h1
      obtain ⟨rfl, rfl⟩ := h1
      split at h2
      · simp [StateT.run, Pure.pure, StateT.pure, Except.pure] at h2
        obtain ⟨_, rfl⟩ := h2; exact ⟨Path.refl _, rfl⟩
      · split at h2
        · -- refused transition: only a log record
          have := (keeps_emit c _).run _ _ _ h2
          exact ⟨by rw [this.1]; exact Path.refl _, this.2⟩
        · rename_i hne hmem
          simp only [Decidable.not_not] at hmem
          obtain ⟨_, s2, h3, h4⟩ := run_bind _ _ _ _ _ h2
          have k3 := (keeps_stateExit c _).run _ _ _ h3
          obtain ⟨_, s3, h5, h6⟩ := run_bind _ _ _ _ _ h4
          have k5 := run_setFsm c t s2 s3 _ h5 (by rw [k3.2]; exact hwf)
          obtain ⟨_, s4, h7, h8⟩ := run_bind _ _ _ _ _ h6
          have k7 := (Keeps.modify (c := c) (fun s => { s with lost := [], lostProcs := false }) (fun _ => ⟨rfl, rfl⟩)).run _ _ _ h7
          obtain ⟨_, s5, h9, h10⟩ := run_bind _ _ _ _ _ h8
          have k9 := (keeps_stateEnter c t).run _ _ _ h9
          obtain ⟨n, s6, h11, h12⟩ := run_bind _ _ _ _ _ h10
          have k11 := (keeps_stateNext c t).run _ _ _ h11
          have hlen6 : s6.modes.length = s.modes.length := by
            rw [k11.2, k9.2, k7.2, k5.2, k3.2]
          have hfsm6 : fsmOf c s6 = t := by rw [k11.1, k9.1, k7.1, k5.1]
          have := ih n s6 u s' h12 (by rw [hlen6]; exact hwf)
          refine ⟨?_, by rw [this.2, hlen6]⟩
          apply Path.trans (Path.single hmem)
          rw [← hfsm6]; exact this.1

theorem Moves.bind {c : Cfg} {α β} {x : M α} {f : α → M β} (hx : Moves c x) (hf : ∀ a, Moves c (f a)) : Moves c (x >>= f) := by
  constructor
  intro s b s' h hwf
  obtain ⟨a, s1, h1, h2⟩ := run_bind _ _ _ _ _ h
  have k1 := hx.run s a s1 h1 hwf
  have k2 := (hf a).run s1 b s' h2 (by rw [k1.2]; exact hwf)
  exact ⟨Path.trans k1.1 k2.1, k2.2.trans k1.2⟩

theorem moves_setState (c : Cfg) (nxt : Option SState) (fuel : Nat) : Moves c (setState c nxt fuel) :=
  ⟨fun s u s' h hwf => setState_moves c fuel nxt s u s' h hwf⟩

theorem moves_fsmNext (c : Cfg) : Moves c (fsmNext c) := by
  unfold fsmNext
  apply Moves.bind (keeps_fsmState c).moves; intro cur
  apply Moves.bind (keeps_stateNext c cur).moves; intro n
  exact moves_setState c n 12

attribute [local irreducible] setState fsmNext

theorem keeps_isValid (c : Cfg) (j : Nat) : Keeps c (isValid j) := by unfold isValid; keeps_auto
macro_rules | `(tactic| keeps_leaf) => `(tactic| exact keeps_isValid _ _)

/-- peel binds syntactically; discharge heads and leaves as frame facts -/
macro "moves_step" : tactic => `(tactic| first
  | exact moves_fsmNext _
  | exact moves_setState _ _ _
  | (with_reducible apply Moves.bind)
  | (intro _)
  | (split)
  | focus (refine Keeps.moves ?_; keeps_auto; done)
  | (dsimp only))
macro "moves_auto" : tactic => `(tactic| repeat moves_step)

theorem keeps_timerCheck (c : Cfg) (k : Nat) : Keeps c (timerCheck c k) := by unfold timerCheck; keeps_auto
theorem keeps_deferredPublish (c : Cfg) : Keeps c (deferredPublish c) := by unfold deferredPublish; keeps_auto
macro_rules | `(tactic| keeps_leaf) => `(tactic| first | exact keeps_timerCheck _ _ | exact keeps_deferredPublish _)

theorem moves_ltick (c : Cfg) (k : Nat) : Moves c (handleLtick c k) := by unfold handleLtick; moves_auto
theorem moves_rtick (c : Cfg) (j k : Nat) : Moves c (handleRtick c j k) := by unfold handleRtick; moves_auto
theorem moves_auth (c : Cfg) (j k t : Nat) : Moves c (handleAuth c j k t) := by unfold handleAuth; moves_auto
theorem moves_allinfo (c : Cfg) (j : Nat) : Moves c (handleAllinfoNone c j) := by unfold handleAllinfoNone; moves_auto
theorem moves_failure (c : Cfg) (j : Nat) : Moves c (handleFailure c j) := by unfold handleFailure; moves_auto
theorem moves_state (c : Cfg) (j : Nat) (m : Modes) : Moves c (handleState c j m) := by unfold handleState; moves_auto
theorem moves_end (c : Cfg) (b : Bool) : Moves c (handleEnd c b) := by unfold handleEnd; moves_auto
theorem moves_endSync (c : Cfg) (m : Option Nat) : Moves c (handleEndSync c m) := by
  unfold handleEndSync
  cases m with
  | none =>
    dsimp only
    with_reducible apply Moves.bind
    · exact (keeps_selectMaster c).moves
    · intro _; exact moves_fsmNext c
  | some x =>
    dsimp only
    with_reducible apply Moves.bind
    · exact (keeps_setMaster c _).moves
    · intro _; exact moves_fsmNext c

/-- every operation of the instance moves its FSM state along a path of the table -/
theorem moves_handle (c : Cfg) (op : Op) : Moves c (handle c op) := by
  cases op with
  | running => exact moves_fsmNext c
  | ltick k => exact moves_ltick c k
  | rtick j k => exact moves_rtick c j k
  | state j m => exact moves_state c j m
  | auth j k t => exact moves_auth c j k t
  | allinfoNone j => exact moves_allinfo c j
  | failure j => exact moves_failure c j
  | restart => exact moves_end c false
  | shutdown => exact moves_end c true
  | endSync m => exact moves_endSync c m

/-- one operation (errors included, any oracle stream) moves the FSM state along a path of the table -/
theorem stepOp_moves (c : Cfg) (s : St) (now : Nat) (op : Op) (orc : List (Query × Nat)) (hwf : c.me < s.modes.length) :
    Path (fsmOf c s) (fsmOf c (stepOp c s now op orc).1) ∧ (stepOp c s now op orc).1.modes.length = s.modes.length := by
  unfold stepOp
  cases h : (handle c op).run { s with now := now, out := [], oracle := orc, oracleBad := 0 } with
  | error e => exact ⟨Path.refl _, rfl⟩
  | ok r =>
    obtain ⟨u, s'⟩ := r
    have := (moves_handle c op).run _ u s' h hwf
    exact this

end Supv.Inst
