import Supv.Model.Rpc
import Supv.Spec.C17

/-! Helper lemmas for C17: soundness of the decidable structural predicates of `Supv/Spec/C17.lean` with respect to
    the interpreter `Supv.Rpc.runSteps` (for ANY step list, any state, any parameter valuation). -/

namespace Supv.Lemmas.Rpc
open Supv.Rpc Supv.Spec.C17

theorem St.mem_all (x : St) : x ∈ St.all := by cases x <;> simp [St.all]

theorem PKind.mem_all (k : PKind) : k ∈ PKind.all := by cases k <;> simp [PKind.all]

theorem checkPasses_kind (s : State) (a : Args) (c : Check) (f : Fault) (k : PKind) (h : c.kind = some k) :
    checkPasses s a c f = a.flag k := by
  cases c <;> simp [Check.kind] at h <;> subst h <;> simp [checkPasses, Args.flag]

/-! ### gate -/

theorem sameStates_sound (fo : Bool) (doc gen : List St) (h : sameStates fo doc gen = true) (x : St)
    (hx : fo = true → x ≠ .final) : doc.contains x = gen.contains x := by
  unfold sameStates at h
  have h1 := (List.all_eq_true.mp h) x (St.mem_all x)
  simp only [Bool.or_eq_true, Bool.and_eq_true, beq_iff_eq] at h1
  rcases h1 with ⟨h2, h3⟩ | h2
  · exact absurd h3 (hx h2)
  · exact h2

theorem firstGate_run (cr : Crashes) (steps : List Step) (al : List St) (h : firstGate steps = some al)
    (s : State) (a : Args) (hs : al.contains s.fsm = false) : runSteps cr steps s a = (s, .fault .badSupvisorsState) := by
  match steps, h with
  | .raise (.state al') .badSupvisorsState :: rest, h =>
    simp only [firstGate, Option.some.injEq] at h
    subst h
    have hs' : s.fsm ∉ al' := by simpa using hs
    simp [runSteps, checkPasses, hs']

theorem allowed_ungated (s : St) : (Family.ungated).allowed.contains s = true := by
  cases s <;> decide

theorem gateMatches_sound (cr : Crashes) (d : Doc) (m : Method) (h : gateMatches (some d) m = true) (s : State)
    (a : Args) (hout : d.family.allowed.contains s.fsm = false) (hfinal : d.family.finalOpen = true → s.fsm ≠ .final) :
    run cr m s a = (s, .fault .badSupvisorsState) := by
  unfold gateMatches at h
  simp only [Bool.and_eq_true] at h
  have h := h.1
  by_cases hu : d.family = .ungated
  · rw [hu, allowed_ungated] at hout
    cases hout
  · have hne : (d.family == Family.ungated) = false := by simpa using hu
    simp only [hne] at h
    cases hg : firstGate m.steps with
    | none => simp [hg] at h
    | some al =>
      simp only [hg] at h
      have hsame := sameStates_sound _ _ _ h s.fsm hfinal
      exact firstGate_run cr m.steps al hg s a (by rw [← hsame]; exact hout)

theorem userGate_run (cr : Crashes) : ∀ (steps : List Step), userGate steps = true → ∀ (s : State) (a : Args),
    s.userOpt = false → ∃ f, (f = .badSupvisorsState ∨ f = .notApplicable) ∧ runSteps cr steps s a = (s, .fault f)
  | [], h, _, _, _ => by simp [userGate] at h
  | .effect _ :: _, h, _, _, _ => by simp [userGate] at h
  | .lookupInst :: _, h, _, _, _ => by simp [userGate] at h
  | .derefProcess :: _, h, _, _, _ => by simp [userGate] at h
  | .raise c f :: rest, h, s, a, hu => by
    simp only [userGate, Bool.and_eq_true, Bool.or_eq_true, beq_iff_eq] at h
    obtain ⟨hf, hc⟩ := h
    have hf' : f = .badSupvisorsState ∨ f = .notApplicable := by
      simpa [okUserFault] using hf
    by_cases hp : checkPasses s a c f = true
    · rcases hc with hc | ⟨_, hrest⟩
      · subst hc
        simp [checkPasses, hu] at hp
      · simp only [runSteps, hp, if_true]
        exact userGate_run cr rest hrest s a hu
    · exact ⟨f, hf', by simp [runSteps, hp]⟩

theorem userGate_sound (cr : Crashes) (d : Doc) (m : Method) (h : gateMatches (some d) m = true)
    (hu : d.extra.contains .userOption = true) (s : State) (a : Args) (huser : s.userOpt = false) :
    ∃ f, (f = .badSupvisorsState ∨ f = .notApplicable) ∧ run cr m s a = (s, .fault f) := by
  unfold gateMatches at h
  simp only [Bool.and_eq_true, Bool.or_eq_true, Bool.not_eq_true'] at h
  rcases h.2 with h2 | h2
  · rw [hu] at h2; cases h2
  · exact userGate_run cr m.steps h2 s a huser

/-! ### rejected ⇒ no-op -/

/-- after an effect, steps that are `lateOk` never produce a rejection -/
theorem late_no_reject (cr : Crashes) (seen : List PKind) (a : Args) (hseen : ∀ k ∈ seen, a.flag k = true) :
    ∀ (steps : List Step), steps.all (lateOk seen) = true → ∀ (s : State) (f : Fault),
      (runSteps cr steps s a).2 = .fault f → f.isRejection = false
  | [], _, s, f, hres => by simp [runSteps] at hres
  | .raise c f' :: rest, h, s, f, hres => by
    simp only [List.all_cons, Bool.and_eq_true] at h
    by_cases hp : checkPasses s a c f' = true
    · simp only [runSteps, hp, if_true] at hres
      exact late_no_reject cr seen a hseen rest h.2 s f hres
    · simp only [runSteps, hp] at hres
      simp only [Bool.false_eq_true, if_false, Result.fault.injEq] at hres
      subst hres
      have h1 := h.1
      simp only [lateOk, Bool.or_eq_true, Bool.not_eq_true'] at h1
      rcases h1 with h1 | h1
      · exact h1
      · cases hk : c.kind with
        | none => simp [hk] at h1
        | some k =>
          simp only [hk] at h1
          have hk' : k ∈ seen := by simpa using h1
          rw [checkPasses_kind s a c f' k hk, hseen k hk'] at hp
          exact absurd rfl hp
  | .effect n :: rest, h, s, f, hres => by
    simp only [List.all_cons, Bool.and_eq_true] at h
    simp only [runSteps] at hres
    cases hc : effectCrash cr s n with
    | some e => simp [hc] at hres
    | none =>
      simp only [hc] at hres
      exact late_no_reject cr seen a hseen rest h.2 _ f hres
  | .lookupInst :: rest, h, _, _, _ => by
    simp [lateOk] at h
  | .derefProcess :: rest, h, _, _, _ => by
    simp [lateOk] at h

theorem noop_of_guards (cr : Crashes) : ∀ (steps : List Step) (seen : List PKind) (s : State) (a : Args),
    guardsBeforeEffects seen steps = true → (∀ k ∈ seen, a.flag k = true) → ∀ (f : Fault),
    (runSteps cr steps s a).2 = .fault f → f.isRejection = true → (runSteps cr steps s a).1 = s
  | [], _, s, a, _, _, f, hres, _ => by simp [runSteps] at hres
  | .raise c f' :: rest, seen, s, a, h, hseen, f, hres, hrej => by
    simp only [guardsBeforeEffects] at h
    by_cases hp : checkPasses s a c f' = true
    · simp only [runSteps, hp, if_true] at hres ⊢
      refine noop_of_guards cr rest _ s a h ?_ f hres hrej
      intro k hk
      cases hkind : c.kind with
      | none => simp only [hkind] at hk; exact hseen k hk
      | some k' =>
        simp only [hkind, List.mem_cons] at hk
        rcases hk with hk | hk
        · subst hk
          rw [← checkPasses_kind s a c f' k hkind]; exact hp
        · exact hseen k hk
    · simp [runSteps, hp]
  | .effect n :: rest, seen, s, a, h, hseen, f, hres, hrej => by
    simp only [guardsBeforeEffects] at h
    simp only [runSteps] at hres ⊢
    cases hc : effectCrash cr s n with
    | some e => simp [hc] at hres
    | none =>
      simp only [hc] at hres
      have := late_no_reject cr seen a hseen rest h _ f hres
      rw [hrej] at this
      cases this
  | .lookupInst :: rest, seen, s, a, h, hseen, f, hres, hrej => by
    simp only [guardsBeforeEffects] at h
    by_cases hx : a.instExact = true
    · simp only [runSteps, hx, if_true] at hres ⊢
      exact noop_of_guards cr rest seen s a h hseen f hres hrej
    · simp [runSteps, hx] at hres
  | .derefProcess :: rest, seen, s, a, h, hseen, f, hres, hrej => by
    simp only [guardsBeforeEffects] at h
    by_cases hx : a.isGroup = true
    · simp [runSteps, hx] at hres
    · have hx' : a.isGroup = false := by simpa using hx
      simp only [runSteps, hx', Bool.false_eq_true, if_false] at hres ⊢
      exact noop_of_guards cr rest seen s a h hseen f hres hrej

/-! ### invalid parameters -/

theorem mem_expected (d : Doc) (a : Args) (k : PKind) (hk : k ∈ d.params) (hf : a.flag k = false) :
    faultOfKind k ∈ expected d a := by
  unfold expected
  rw [List.mem_filterMap]
  exact ⟨k, hk, by simp [hf]⟩

theorem statePasses_tail (st : Step) (rest : List Step) (s : State) (a : Args)
    (h : statePasses (st :: rest) s a = true) : statePasses rest s a = true := by
  unfold statePasses at h ⊢
  simp only [List.all_cons, Bool.and_eq_true] at h
  exact h.2

theorem paramShape_sound (cr : Crashes) (P : List PKind) (a : Args) (hP : ∀ k, a.flag k = false → k ∈ P) :
    ∀ (steps : List Step) (todo : List PKind) (s : State), paramShape steps todo = true →
      statePasses steps s a = true → (∃ k ∈ todo, a.flag k = false) →
      ∃ k ∈ P, a.flag k = false ∧ runSteps cr steps s a = (s, .fault (faultOfKind k))
  | [], todo, _, h, _, ⟨k, hk, _⟩ => by
    simp only [paramShape, List.isEmpty_iff] at h
    subst h
    cases hk
  | .effect _ :: _, todo, _, h, _, ⟨k, hk, _⟩ => by
    simp only [paramShape, List.isEmpty_iff] at h
    subst h
    cases hk
  | .lookupInst :: _, todo, _, h, _, ⟨k, hk, _⟩ => by
    simp only [paramShape, List.isEmpty_iff] at h
    subst h
    cases hk
  | .derefProcess :: _, todo, _, h, _, ⟨k, hk, _⟩ => by
    simp only [paramShape, List.isEmpty_iff] at h
    subst h
    cases hk
  | .raise c f :: rest, todo, s, h, hs, ⟨k0, hk0, hf0⟩ => by
    simp only [paramShape, Bool.or_eq_true, List.isEmpty_iff] at h
    rcases h with h | h
    · subst h; cases hk0
    · have hs' := statePasses_tail _ _ _ _ hs
      cases hkind : c.kind with
      | some k =>
        simp only [hkind, Bool.and_eq_true, beq_iff_eq] at h
        obtain ⟨hfault, hrest⟩ := h
        by_cases hflag : a.flag k = true
        · have hp : checkPasses s a c f = true := by rw [checkPasses_kind s a c f k hkind]; exact hflag
          simp only [runSteps, hp, if_true]
          refine paramShape_sound cr P a hP rest _ s hrest hs' ⟨k0, ?_, hf0⟩
          rw [List.mem_filter]
          refine ⟨hk0, ?_⟩
          have : k0 ≠ k := by
            intro hEq; subst hEq; rw [hflag] at hf0; cases hf0
          simpa using this
        · have hflag' : a.flag k = false := by simpa using hflag
          have hp : checkPasses s a c f = false := by rw [checkPasses_kind s a c f k hkind]; exact hflag'
          subst hfault
          exact ⟨k, hP k hflag', hflag', by simp [runSteps, hp]⟩
      | none =>
        simp only [hkind, Bool.and_eq_true] at h
        obtain ⟨hsl, hrest⟩ := h
        have hp : checkPasses s a c f = true := by
          unfold statePasses at hs
          simp only [List.all_cons, Bool.and_eq_true, Bool.or_eq_true, Bool.not_eq_true'] at hs
          rcases hs.1 with h1 | h1
          · rw [hsl] at h1; cases h1
          · exact h1
        simp only [runSteps, hp, if_true]
        exact paramShape_sound cr P a hP rest todo s hrest hs' ⟨k0, hk0, hf0⟩

theorem wellFormed_sound (d : Doc) (a : Args) (h : wellFormed d a = true) (k : PKind) (hf : a.flag k = false) :
    k ∈ d.params := by
  unfold wellFormed at h
  have h1 := (List.all_eq_true.mp h) k (PKind.mem_all k)
  simp only [Bool.or_eq_true, hf, Bool.false_eq_true, or_false] at h1
  simpa using h1

theorem paramsMatch_sound (cr : Crashes) (d : Doc) (m : Method) (h : paramsMatch (some d) m = true) (s : State)
    (a : Args) (hs : statePasses m.steps s a = true) (hw : wellFormed d a = true)
    (hbad : ∃ k ∈ d.params, a.flag k = false)
    (hex : m.name = "restart_application" → a.managed = true ∨ a.stratOk = false ∨ a.nameOk = false)
    (hdoc : m.name = "restart_application" → PKind.strategy ∈ d.params ∧ PKind.name ∈ d.params) :
    ∃ f ∈ expected d a, run cr m s a = (s, .fault f) := by
  unfold paramsMatch at h
  have hP := wellFormed_sound d a hw
  -- an invalid class that the code is required to check
  have hbad' : ∃ k ∈ effParams m.name d, a.flag k = false := by
    obtain ⟨k, hk, hf⟩ := hbad
    by_cases hgap : knownGaps.contains (m.name, k) = true
    · have hg : m.name = "restart_application" ∧ k = .managed := by
        simpa [knownGaps] using hgap
      obtain ⟨hn, hkm⟩ := hg
      subst hkm
      have hd := hdoc hn
      rcases hex hn with h1 | h1 | h1
      · simp only [Args.flag] at hf; rw [h1] at hf; cases hf
      · refine ⟨.strategy, ?_, by simpa [Args.flag] using h1⟩
        unfold effParams; rw [List.mem_filter]
        exact ⟨hd.1, by simp [knownGaps]⟩
      · refine ⟨.name, ?_, by simpa [Args.flag] using h1⟩
        unfold effParams; rw [List.mem_filter]
        exact ⟨hd.2, by simp [knownGaps]⟩
    · refine ⟨k, ?_, hf⟩
      unfold effParams; rw [List.mem_filter]
      exact ⟨hk, by simpa using hgap⟩
  obtain ⟨k, hk, hf, hrun⟩ := paramShape_sound cr d.params a hP m.steps _ s h hs hbad'
  exact ⟨faultOfKind k, mem_expected d a k hk hf, hrun⟩

/-! ### no internal error -/

theorem effectCrash_none_of_master (cr : Crashes) (s : State) (n : String) (h : (s.isMaster || s.masterSet) = true) :
    effectCrash cr s n = none := by
  unfold effectCrash
  simp only [Bool.or_eq_true] at h
  rcases h with h | h <;> simp [h]

theorem effectCrash_none_of_absent (cr : Crashes) (s : State) (n : String) (h : cr.any (fun x => x.1 == n) = false) :
    effectCrash cr s n = none := by
  have hfind : cr.find? (fun x => x.1 == n) = none := by
    rw [List.find?_eq_none]
    intro x hx
    rw [List.any_eq_false] at h
    exact h x hx
  unfold effectCrash; simp [hfind]

/-- a guarded method never lets a non-RPC exception escape, provided the namespec is not a group namespec where a
    process is dereferenced without test (`deref = true`); unconditionally when there is no such dereference -/
theorem no_internal_of_guarded (cr : Crashes) (deref : Bool) (a : Args) (e : String) (hd : deref = true → a.isGroup = false) :
    ∀ (steps : List Step) (g : Bool) (s : State), crashGuarded cr deref g steps = true →
      (g = true → (s.isMaster || s.masterSet) = true) → (runSteps cr steps s a).2 ≠ .internal e
  | [], _, _, _, _ => by simp [runSteps]
  | .raise c f :: rest, g, s, h, hg => by
    simp only [crashGuarded] at h
    by_cases hp : checkPasses s a c f = true
    · simp only [runSteps, hp, if_true]
      refine no_internal_of_guarded cr deref a e hd rest _ s h ?_
      intro hg'
      simp only [Bool.or_eq_true, beq_iff_eq] at hg'
      rcases hg' with hg' | hg'
      · exact hg hg'
      · subst hg'; simpa [checkPasses] using hp
    · simp [runSteps, hp]
  | .effect n :: rest, g, s, h, hg => by
    simp only [crashGuarded, Bool.and_eq_true, Bool.or_eq_true, Bool.not_eq_true'] at h
    have hc : effectCrash cr s n = none := by
      rcases h.1 with h1 | h1
      · exact effectCrash_none_of_master cr s n (hg h1)
      · exact effectCrash_none_of_absent cr s n h1
    simp only [runSteps, hc]
    exact no_internal_of_guarded cr deref a e hd rest g _ h.2 hg
  | .lookupInst :: rest, _, _, h, _ => by simp [crashGuarded] at h
  | .derefProcess :: rest, g, s, h, hg => by
    simp only [crashGuarded, Bool.and_eq_true] at h
    have hgrp := hd h.1
    simp only [runSteps, hgrp, Bool.false_eq_true, if_false]
    exact no_internal_of_guarded cr deref a e hd rest g s h.2 hg

/-! ### served inside the documented states -/

theorem checkPasses_log (s : State) (l : List String) (a : Args) (c : Check) (f : Fault) :
    checkPasses { s with log := l } a c f = checkPasses s a c f := by
  cases c <;> rfl

/-- when every state check allows the current state and the other conditions on the modes that the method tests hold,
    BAD_SUPVISORS_STATE is never the answer -/
theorem not_state_rejected (cr : Crashes) (d : Doc) (a : Args) (fsm : St) (hin : d.family.allowed.contains fsm = true)
    (hfinal : d.family.finalOpen = true → fsm ≠ .final) :
    ∀ (steps : List Step) (s : State), s.fsm = fsm → allGatesMatch d steps = true →
      (∀ c f, Step.raise c f ∈ steps → c.isStateLike = true → c.isState = false → checkPasses s a c f = true) →
      (runSteps cr steps s a).2 ≠ .fault .badSupvisorsState
  | [], _, _, _, _ => by simp [runSteps]
  | .raise c f :: rest, s, hs, hg, hx => by
    have hg' : allGatesMatch d rest = true := by
      unfold allGatesMatch at hg ⊢; simp only [List.all_cons, Bool.and_eq_true] at hg; exact hg.2
    have hx' : ∀ c f, Step.raise c f ∈ rest → c.isStateLike = true → c.isState = false → checkPasses s a c f = true :=
      fun c f hm => hx c f (List.mem_cons_of_mem _ hm)
    by_cases hp : checkPasses s a c f = true
    · simp only [runSteps, hp, if_true]
      exact not_state_rejected cr d a fsm hin hfinal rest s hs hg' hx'
    · simp only [runSteps, hp, Bool.false_eq_true, if_false]
      intro hf
      simp only [Result.fault.injEq] at hf
      subst hf
      apply hp
      unfold allGatesMatch at hg
      simp only [List.all_cons, Bool.and_eq_true] at hg
      have h1 := hg.1
      cases c with
      | state al =>
        simp only at h1
        have := sameStates_sound _ _ _ h1 fsm hfinal
        simp only [checkPasses, hs]
        rw [← this]; exact hin
      | masterUnset => exact hx _ _ (List.mem_cons_self ..) rfl rfl
      | userOption => exact hx _ _ (List.mem_cons_self ..) rfl rfl
      | jobsIdle => exact hx _ _ (List.mem_cons_self ..) rfl rfl
      | masterKnown => exact hx _ _ (List.mem_cons_self ..) rfl rfl
      | strategy => simp [Check.isStateLike] at h1
      | appName => simp [Check.isStateLike] at h1
      | namespec => simp [Check.isStateLike] at h1
      | instName => simp [Check.isStateLike] at h1
      | progName => simp [Check.isStateLike] at h1
      | managed => simp [Check.isStateLike] at h1
      | level => simp [Check.isStateLike] at h1
      | numprocs => simp [Check.isStateLike] at h1
      | data => simp [Check.isStateLike] at h1
  | .effect n :: rest, s, hs, hg, hx => by
    have hg' : allGatesMatch d rest = true := by
      unfold allGatesMatch at hg ⊢; simp only [List.all_cons, Bool.and_eq_true] at hg; exact hg.2
    simp only [runSteps]
    cases hc : effectCrash cr s n with
    | some e => simp
    | none =>
      simp only
      refine not_state_rejected cr d a fsm hin hfinal rest _ hs hg' ?_
      intro c f hm h1 h2
      rw [checkPasses_log]
      exact hx c f (List.mem_cons_of_mem _ hm) h1 h2
  | .lookupInst :: rest, s, hs, hg, hx => by
    have hg' : allGatesMatch d rest = true := by
      unfold allGatesMatch at hg ⊢; simp only [List.all_cons, Bool.and_eq_true] at hg; exact hg.2
    have hx' : ∀ c f, Step.raise c f ∈ rest → c.isStateLike = true → c.isState = false → checkPasses s a c f = true :=
      fun c f hm => hx c f (List.mem_cons_of_mem _ hm)
    by_cases hi : a.instExact = true
    · simp only [runSteps, hi, if_true]; exact not_state_rejected cr d a fsm hin hfinal rest s hs hg' hx'
    · simp [runSteps, hi]
  | .derefProcess :: rest, s, hs, hg, hx => by
    have hg' : allGatesMatch d rest = true := by
      unfold allGatesMatch at hg ⊢; simp only [List.all_cons, Bool.and_eq_true] at hg; exact hg.2
    have hx' : ∀ c f, Step.raise c f ∈ rest → c.isStateLike = true → c.isState = false → checkPasses s a c f = true :=
      fun c f hm => hx c f (List.mem_cons_of_mem _ hm)
    by_cases hi : a.isGroup = true
    · simp [runSteps, hi]
    · have hi' : a.isGroup = false := by simpa using hi
      simp only [runSteps, hi', Bool.false_eq_true, if_false]
      exact not_state_rejected cr d a fsm hin hfinal rest s hs hg' hx'

end Supv.Lemmas.Rpc
