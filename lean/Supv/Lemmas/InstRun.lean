import Supv.Lemmas.InstRec

/-! C07 (accuracy over histories): which computations keep "peer j is RUNNING" (`KeepsRun`).  Everything that keeps the whole
    record of a RUNNING peer (`KeepsRec`) does; in addition the handlers that update the counters of `j` itself, and the state
    setter for any target other than FAILED (from RUNNING the generated table only allows FAILED: the setter throws). -/

namespace Supv.Inst

def peerRun (j : Nat) (s : St) : Prop := (s.peers[j]?.getD {}).state = .running

structure KeepsRun (j : Nat) {α} (x : M α) : Prop where
  run : ∀ s a s', x.run s = .ok (a, s') → peerRun j s → peerRun j s'

namespace KeepsRun
variable {j : Nat}
theorem pure {α} (a : α) : KeepsRun j (Pure.pure a : M α) := by
  constructor; intro s a' s' h hp
  simp [StateT.run, Pure.pure, StateT.pure, Except.pure] at h
  obtain ⟨_, rfl⟩ := h; exact hp
theorem bind {α β} {x : M α} {f : α → M β} (hx : KeepsRun j x) (hf : ∀ a, KeepsRun j (f a)) : KeepsRun j (x >>= f) := by
  constructor; intro s b s' h hp
  obtain ⟨a, s1, h1, h2⟩ := run_bind _ _ _ _ _ h
  exact (hf a).run s1 b s' h2 (hx.run s a s1 h1 hp)
theorem get : KeepsRun j (MonadState.get : M St) := by
  constructor; intro s a s' h hp
  simp [StateT.run, MonadState.get, getThe, MonadStateOf.get, StateT.get, Pure.pure, Except.pure] at h
  obtain ⟨_, rfl⟩ := h; exact hp
theorem throw {α} (e : Err) : KeepsRun j (MonadExcept.throw e : M α) := by
  constructor; intro s a s' h
  have : (MonadExcept.throw e : M α).run s = Except.error e := rfl
  rw [this] at h; cases h
theorem modify (f : St → St) (hf : ∀ s, peerRun j s → peerRun j (f s)) : KeepsRun j (modify f : M Unit) := by
  constructor; intro s a s' h hp
  simp [StateT.run, _root_.modify, modifyGet, MonadStateOf.modifyGet, StateT.modifyGet, Pure.pure, Except.pure] at h
  obtain ⟨_, rfl⟩ := h; exact hf s hp

/-- whatever keeps the whole record of a RUNNING peer keeps it RUNNING -/
theorem ofRec {α} {x : M α} (h : ∀ r : Peer, r.state = .running → KeepsRec j r x) : KeepsRun j x := by
  constructor
  intro s a s' hr hp
  unfold peerRun at hp
  cases hj : s.peers[j]? with
  | none => simp [hj] at hp
  | some r =>
    simp [hj] at hp
    have := (h r hp).run s a s' hr hj
    unfold peerRun; unfold peerRec at this
    simp [this, hp]
end KeepsRun

theorem running_next : IState.running.next = [.failed] := by decide

/-- the state setter for the peer itself: from RUNNING, every target but FAILED is either a no-op or refused -/
theorem run_setPeerState_self (j : Nat) (c : Cfg) (ns : IState) (hns : ns ≠ .failed) : KeepsRun j (setPeerState c j ns) := by
  constructor
  intro s u s' h hp
  unfold setPeerState at h
  obtain ⟨p, s1, h1, h2⟩ := run_bind _ _ _ _ _ h
  rw [run_getPeer] at h1
  simp at h1
  obtain ⟨rfl, rfl⟩ := h1
  have hrun : (s.peers[j]?.getD {}).state = .running := hp
  split at h2
  · -- a change is requested: only FAILED is allowed from RUNNING, so the table check throws
    have hmem : ns ∉ (s.peers[j]?.getD {}).state.next := by rw [hrun, running_next]; simpa using hns
    simp only [hmem, not_false_eq_true, ↓reduceIte] at h2
    obtain ⟨_, s2, h3, _⟩ := run_bind _ _ _ _ _ h2
    have : (MonadExcept.throw (Err.invalidTransition j (s.peers[j]?.getD {}).state ns) : M PUnit).run s = Except.error _ := rfl
    rw [this] at h3; cases h3
  · simp [StateT.run, Pure.pure, StateT.pure, Except.pure] at h2
    obtain ⟨_, rfl⟩ := h2; exact hp

theorem run_setPeerState (j : Nat) (c : Cfg) (k : Nat) (ns : IState) (h : k ≠ j ∨ ns ≠ .failed) : KeepsRun j (setPeerState c k ns) := by
  by_cases hk : k = j
  · subst hk
    rcases h with h | h
    · exact absurd rfl h
    · exact run_setPeerState_self k c ns h
  · exact KeepsRun.ofRec (fun r _ => rec_setPeerState_other j r c k ns hk)

/-- an in-place update of a peer record that keeps its `state` field -/
theorem run_modifyPeer (j k : Nat) (f : Peer → Peer) (hf : ∀ p, (f p).state = p.state) : KeepsRun j (modifyPeer k f) := by
  apply KeepsRun.modify
  intro s hp
  unfold peerRun at *
  simp only [List.getElem?_modify]
  by_cases hk : k = j
  · subst hk
    cases h : s.peers[k]? with
    | none => simp [h] at hp
    | some p => simp [h] at hp ⊢; rw [hf]; exact hp
  · simp [hk]; exact hp

theorem run_invalidate (j : Nat) (c : Cfg) (k : Nat) (f : Bool) : KeepsRun j (invalidate c k f) := by
  unfold invalidate
  have hms : KeepsRun j (masterState c) := KeepsRun.ofRec (fun r _ => rec_masterState j r c)
  split
  · exact run_setPeerState j c k .stopped (Or.inr (by decide))
  · apply KeepsRun.bind hms; intro ms
    dsimp only
    repeat' split
    all_goals first
      | exact run_setPeerState j c k .isolated (Or.inr (by decide))
      | exact run_setPeerState j c k .stopped (Or.inr (by decide))

theorem run_isValid (j k : Nat) : KeepsRun j (isValid k) := KeepsRun.ofRec (fun r _ => by unfold isValid; rec_auto)
theorem run_getPeer' (j k : Nat) : KeepsRun j (getPeer k) := KeepsRun.ofRec (fun r _ => rec_getPeer j r k)
theorem run_emit (j : Nat) (o : Out) : KeepsRun j (emit o) := KeepsRun.ofRec (fun r _ => rec_emit j r o)

syntax "run_leaf" : tactic
macro_rules | `(tactic| run_leaf) => `(tactic| first
  | exact KeepsRun.pure _ | exact KeepsRun.get | exact KeepsRun.throw _
  | exact run_isValid _ _ | exact run_getPeer' _ _ | exact run_emit _ _
  | exact run_modifyPeer _ _ _ (fun _ => rfl)
  | exact run_invalidate _ _ _ _
  | exact run_setPeerState _ _ _ _ (Or.inr (by decide))
  | exact run_setPeerState _ _ _ _ (Or.inl ‹_›)
  | assumption)
macro "run_step" : tactic => `(tactic| first
  | (with_reducible run_leaf)
  | (with_reducible apply KeepsRun.bind)
  | (intro _)
  | (split)
  | (dsimp only)
  | run_leaf)
macro "run_auto" : tactic => `(tactic| repeat run_step)

theorem run_handleRtick (j : Nat) (c : Cfg) (i k : Nat) : KeepsRun j (handleRtick c i k) := by
  unfold handleRtick; run_auto
theorem run_handleAuth (j : Nat) (c : Cfg) (i code ts : Nat) : KeepsRun j (handleAuth c i code ts) := by
  unfold handleAuth; run_auto
theorem run_handleAllinfoNone (j : Nat) (c : Cfg) (i : Nat) : KeepsRun j (handleAllinfoNone c i) := by
  unfold handleAllinfoNone; run_auto
theorem run_handleFailure (j : Nat) (c : Cfg) (i : Nat) (hi : i ≠ j) : KeepsRun j (handleFailure c i) := by
  unfold handleFailure; run_auto
theorem run_handleState (j : Nat) (c : Cfg) (i : Nat) (m : Modes) : KeepsRun j (handleState c i m) :=
  KeepsRun.ofRec (fun r hr => by
    unfold handleState
    have := rec_fsmNext j r c hr
    have : KeepsRec j r (isValid i) := by unfold isValid; rec_auto
    rec_auto)
theorem run_handleEnd (j : Nat) (c : Cfg) (b : Bool) : KeepsRun j (handleEnd c b) :=
  KeepsRun.ofRec (fun r hr => by
    unfold handleEnd
    have h1 := rec_setState j r c hr 12 (some .shuttingDown)
    have h2 := rec_setState j r c hr 12 (some .restarting)
    rec_auto)
theorem run_handleEndSync (j : Nat) (c : Cfg) (m : Option Nat) : KeepsRun j (handleEndSync c m) :=
  KeepsRun.ofRec (fun r hr => by
    unfold handleEndSync
    have := rec_fsmNext j r c hr
    rec_auto)

/-- the operations under which the accuracy clause is claimed for peer `j`, read on the state they are applied to -/
def AccOk (c : Cfg) (j : Nat) (s : St) : Op → Prop
  | .ltick k => k - (s.peers[j]?.getD {}).localCounter ≤ c.inactivity     -- a tick of `j` arrived recently enough
  | .failure i => i ≠ j                                                  -- no XML-RPC to `j` failed
  | _ => True

theorem run_handle (j : Nat) (c : Cfg) (hj : j ≠ c.me) (op : Op) (s : St) (hok : AccOk c j s op) :
    ∀ a s', (handle c op).run s = .ok (a, s') → peerRun j s → peerRun j s' := by
  intro a s' h hp
  cases op with
  | running => exact (KeepsRun.ofRec (fun r hr => rec_fsmNext j r c hr)).run s a s' h hp
  | ltick k =>
    unfold peerRun at hp
    cases hjr : s.peers[j]? with
    | none => simp [hjr] at hp
    | some r =>
      simp [hjr] at hp
      have hfresh : k - r.localCounter ≤ c.inactivity := by simpa [AccOk, hjr] using hok
      have := (rec_handleLtick j r c k hj hp hfresh).run s a s' h hjr
      unfold peerRun; unfold peerRec at this; simp [this, hp]
  | rtick i k => exact (run_handleRtick j c i k).run s a s' h hp
  | state i m => exact (run_handleState j c i m).run s a s' h hp
  | auth i code ts => exact (run_handleAuth j c i code ts).run s a s' h hp
  | allinfoNone i => exact (run_handleAllinfoNone j c i).run s a s' h hp
  | failure i => exact (run_handleFailure j c i hok).run s a s' h hp
  | restart => exact (run_handleEnd j c false).run s a s' h hp
  | shutdown => exact (run_handleEnd j c true).run s a s' h hp
  | endSync m => exact (run_handleEndSync j c m).run s a s' h hp

theorem stepOp_run (j : Nat) (c : Cfg) (hj : j ≠ c.me) (s : St) (now : Nat) (op : Op) (orc : List (Query × Nat))
    (hok : AccOk c j s op) (hp : peerRun j s) : peerRun j (stepOp c s now op orc).1 := by
  unfold stepOp
  cases hr : (handle c op).run { s with now := now, out := [], oracle := orc, oracleBad := 0 } with
  | error e => exact hp
  | ok r =>
    obtain ⟨u, s'⟩ := r
    exact run_handle j c hj op { s with now := now, out := [], oracle := orc, oracleBad := 0 } hok u s' hr hp

end Supv.Inst
