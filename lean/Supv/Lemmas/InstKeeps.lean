import Supv.Model.Inst

/-! Frame lemmas for the instance model: which computations never write the local FSM state (`Keeps`).
    Used by C02 (every change of the FSM state follows the transition table). -/

namespace Supv.Inst

def fsmOf (c : Cfg) (s : St) : SState := (s.modes[c.me]?.getD {}).fsm

/-- `x` does not change the local FSM state -/
structure Keeps (c : Cfg) {α} (x : M α) : Prop where
  run : ∀ s a s', x.run s = .ok (a, s') → fsmOf c s' = fsmOf c s ∧ s'.modes.length = s.modes.length

namespace Keeps
variable {c : Cfg}

theorem pure {α} (a : α) : Keeps c (Pure.pure a : M α) := by
  constructor
  intro s a' s' h
  simp [StateT.run, Pure.pure, StateT.pure, Except.pure] at h
  obtain ⟨_, rfl⟩ := h; exact ⟨rfl, rfl⟩

theorem bind {α β} {x : M α} {f : α → M β} (hx : Keeps c x) (hf : ∀ a, Keeps c (f a)) : Keeps c (x >>= f) := by
  constructor
  intro s b s' h
  simp only [StateT.run, Bind.bind, StateT.bind, Except.bind] at h
  cases hx1 : x s with
  | error e => simp [hx1] at h
  | ok r =>
    obtain ⟨a, s1⟩ := r
    simp only [hx1] at h
    have h1 := (hf a).run s1 b s' (by simpa [StateT.run] using h)
    have h2 := hx.run s a s1 (by simpa [StateT.run] using hx1)
    exact ⟨h1.1.trans h2.1, h1.2.trans h2.2⟩

theorem get : Keeps c (MonadState.get : M St) := by
  constructor
  intro s a s' h
  simp [StateT.run, MonadState.get, getThe, MonadStateOf.get, StateT.get, Pure.pure, Except.pure] at h
  obtain ⟨_, rfl⟩ := h; exact ⟨rfl, rfl⟩

theorem throw {α} (e : Err) : Keeps c (MonadExcept.throw e : M α) := by
  constructor
  intro s a s' h
  have : (MonadExcept.throw e : M α).run s = Except.error e := rfl
  rw [this] at h; cases h

theorem modify (f : St → St) (hf : ∀ s, fsmOf c (f s) = fsmOf c s ∧ (f s).modes.length = s.modes.length) : Keeps c (modify f : M Unit) := by
  constructor
  intro s a s' h
  simp [StateT.run, _root_.modify, modifyGet, MonadStateOf.modifyGet, StateT.modifyGet, Pure.pure, Except.pure] at h
  obtain ⟨_, rfl⟩ := h; exact hf s

theorem forIn {α β} (l : List α) (init : β) (f : α → β → M (ForInStep β))
    (hf : ∀ a b, Keeps c (f a b)) : Keeps c (forIn l init f) := by
  induction l generalizing init with
  | nil => simp only [List.forIn_nil]; exact pure _
  | cons a t ih =>
    simp only [List.forIn_cons]
    apply bind (hf a init)
    intro r
    cases r with
    | done b => exact pure _
    | yield b => exact ih b
end Keeps

/-! leaves -/
theorem keeps_emit (c : Cfg) (o : Out) : Keeps c (emit o) := Keeps.modify _ (fun _ => ⟨rfl, rfl⟩)
theorem keeps_modifyPeer (c : Cfg) (j : Nat) (f : Peer → Peer) : Keeps c (modifyPeer j f) := Keeps.modify _ (fun _ => ⟨rfl, rfl⟩)
theorem keeps_setPeer (c : Cfg) (j : Nat) (p : Peer) : Keeps c (setPeer j p) := Keeps.modify _ (fun _ => ⟨rfl, rfl⟩)
theorem keeps_getPeer (c : Cfg) (j : Nat) : Keeps c (getPeer j) := Keeps.bind Keeps.get (fun _ => Keeps.pure _)
theorem keeps_getModes (c : Cfg) (j : Nat) : Keeps c (getModes j) := Keeps.bind Keeps.get (fun _ => Keeps.pure _)
theorem keeps_localModes (c : Cfg) : Keeps c (localModes c) := keeps_getModes c _

/-- an in-place update of the local record that does not touch its `fsm` field -/
theorem keeps_modifyLocal (c : Cfg) (f : Modes → Modes) (hf : ∀ m, (f m).fsm = m.fsm) : Keeps c (modifyLocal c f) := by
  apply Keeps.modify
  intro s
  refine ⟨?_, by simp⟩
  unfold fsmOf
  simp only [List.getElem?_modify]
  cases h : s.modes[c.me]? with
  | none => simp
  | some m => simp [hf]

theorem keeps_setRemoteModes (c : Cfg) (j : Nat) (m : Modes) : Keeps c (setRemoteModes c j m) := by
  unfold setRemoteModes
  split
  · exact Keeps.pure _
  · rename_i hj
    apply Keeps.modify
    intro s
    refine ⟨?_, by simp⟩
    unfold fsmOf
    simp [List.getElem?_set_ne hj]

/-- extensible leaf tactic -/
syntax "keeps_leaf" : tactic
macro_rules | `(tactic| keeps_leaf) => `(tactic| first
  | exact Keeps.pure _ | exact Keeps.get | exact Keeps.throw _
  | exact keeps_emit _ _ | exact keeps_modifyPeer _ _ _ | exact keeps_setPeer _ _ _ | exact keeps_getPeer _ _
  | exact keeps_getModes _ _ | exact keeps_localModes _ | exact keeps_setRemoteModes _ _ _
  | exact keeps_modifyLocal _ _ (fun _ => rfl)
  | exact Keeps.modify _ (fun _ => ⟨rfl, rfl⟩)
  | assumption)

macro "keeps_step" : tactic => `(tactic| first
  | (with_reducible keeps_leaf)
  | (with_reducible apply Keeps.bind)
  | (with_reducible apply Keeps.forIn)
  | (intro _)
  | (split)
  | (dsimp only)
  | keeps_leaf
  | (apply Keeps.bind)
  | (apply Keeps.forIn))
macro "keeps_auto" : tactic => `(tactic| repeat keeps_step)

theorem keeps_publish (c : Cfg) : Keeps c (publish c) := by unfold publish; keeps_auto
macro_rules | `(tactic| keeps_leaf) => `(tactic| exact keeps_publish _)

theorem keeps_askNat (c : Cfg) (q : Query) : Keeps c (askNat q) := by unfold askNat; keeps_auto
macro_rules | `(tactic| keeps_leaf) => `(tactic| exact keeps_askNat _ _)
theorem keeps_ask (c : Cfg) (q : Query) : Keeps c (ask q) := by unfold ask; keeps_auto
macro_rules | `(tactic| keeps_leaf) => `(tactic| exact keeps_ask _ _)

theorem keeps_setMaster (c : Cfg) (m : Option Nat) : Keeps c (setMaster c m) := by unfold setMaster; keeps_auto
macro_rules | `(tactic| keeps_leaf) => `(tactic| exact keeps_setMaster _ _)
theorem keeps_setDegraded (c : Cfg) (d : Bool) : Keeps c (setDegraded c d) := by unfold setDegraded; keeps_auto
macro_rules | `(tactic| keeps_leaf) => `(tactic| exact keeps_setDegraded _ _)
theorem keeps_updateInstanceState (c : Cfg) (j : Nat) (ns : IState) : Keeps c (updateInstanceState c j ns) := by
  unfold updateInstanceState; keeps_auto
macro_rules | `(tactic| keeps_leaf) => `(tactic| exact keeps_updateInstanceState _ _ _)
theorem keeps_setPeerState (c : Cfg) (j : Nat) (ns : IState) : Keeps c (setPeerState c j ns) := by
  unfold setPeerState; keeps_auto
macro_rules | `(tactic| keeps_leaf) => `(tactic| exact keeps_setPeerState _ _ _)
theorem keeps_masterState (c : Cfg) : Keeps c (masterState c) := by unfold masterState; keeps_auto
macro_rules | `(tactic| keeps_leaf) => `(tactic| exact keeps_masterState _)
theorem keeps_invalidate (c : Cfg) (j : Nat) (f : Bool) : Keeps c (invalidate c j f) := by unfold invalidate; keeps_auto
macro_rules | `(tactic| keeps_leaf) => `(tactic| exact keeps_invalidate _ _ _)
theorem keeps_invalidateFailed (c : Cfg) : Keeps c (invalidateFailed c) := by unfold invalidateFailed; keeps_auto
macro_rules | `(tactic| keeps_leaf) => `(tactic| exact keeps_invalidateFailed _)
theorem keeps_activateChecked (c : Cfg) : Keeps c (activateChecked c) := by unfold activateChecked; keeps_auto
macro_rules | `(tactic| keeps_leaf) => `(tactic| exact keeps_activateChecked _)
theorem keeps_isRunningLocal (c : Cfg) (j : Nat) : Keeps c (isRunningLocal c j) := by unfold isRunningLocal; keeps_auto
macro_rules | `(tactic| keeps_leaf) => `(tactic| exact keeps_isRunningLocal _ _)
theorem keeps_evaluateStability (c : Cfg) : Keeps c (evaluateStability c) := by unfold evaluateStability; keeps_auto
macro_rules | `(tactic| keeps_leaf) => `(tactic| exact keeps_evaluateStability _)
theorem keeps_isStable (c : Cfg) : Keeps c (isStable : M Bool) := by unfold isStable; keeps_auto
macro_rules | `(tactic| keeps_leaf) => `(tactic| exact keeps_isStable _)
theorem keeps_masterIds (c : Cfg) : Keeps c (masterIds c) := by unfold masterIds; keeps_auto
macro_rules | `(tactic| keeps_leaf) => `(tactic| exact keeps_masterIds _)
theorem keeps_checkMaster (c : Cfg) : Keeps c (checkMaster c) := by unfold checkMaster; keeps_auto
macro_rules | `(tactic| keeps_leaf) => `(tactic| exact keeps_checkMaster _)
theorem keeps_selectMaster (c : Cfg) : Keeps c (selectMaster c) := by unfold selectMaster; keeps_auto
macro_rules | `(tactic| keeps_leaf) => `(tactic| exact keeps_selectMaster _)
theorem keeps_stableSubset (c : Cfg) (l : List Nat) : Keeps c (stableSubset l) := by unfold stableSubset; keeps_auto
macro_rules | `(tactic| keeps_leaf) => `(tactic| exact keeps_stableSubset _ _)
theorem keeps_initialRunning (c : Cfg) : Keeps c (initialRunning c) := by unfold initialRunning; keeps_auto
theorem keeps_allRunning (c : Cfg) : Keeps c (allRunning c) := by unfold allRunning; keeps_auto
theorem keeps_coreRunning (c : Cfg) : Keeps c (coreRunning c) := by unfold coreRunning; keeps_auto
macro_rules | `(tactic| keeps_leaf) => `(tactic| first | exact keeps_initialRunning _ | exact keeps_allRunning _ | exact keeps_coreRunning _)
theorem keeps_checkStrictFailure (c : Cfg) : Keeps c (checkStrictFailure c) := by unfold checkStrictFailure; keeps_auto
theorem keeps_checkListFailure (c : Cfg) : Keeps c (checkListFailure c) := by unfold checkListFailure; keeps_auto
theorem keeps_checkCoreFailure (c : Cfg) : Keeps c (checkCoreFailure c) := by unfold checkCoreFailure; keeps_auto
theorem keeps_checkUserFailure (c : Cfg) : Keeps c (checkUserFailure c) := by unfold checkUserFailure; keeps_auto
macro_rules | `(tactic| keeps_leaf) => `(tactic| first | exact keeps_checkStrictFailure _ | exact keeps_checkListFailure _ | exact keeps_checkCoreFailure _ | exact keeps_checkUserFailure _)
theorem keeps_fsmState (c : Cfg) : Keeps c (fsmState c) := by unfold fsmState; keeps_auto
theorem keeps_isMaster (c : Cfg) : Keeps c (isMaster c) := by unfold isMaster; keeps_auto
theorem keeps_localRunning (c : Cfg) : Keeps c (localRunning c) := by unfold localRunning; keeps_auto
macro_rules | `(tactic| keeps_leaf) => `(tactic| first | exact keeps_fsmState _ | exact keeps_isMaster _ | exact keeps_localRunning _)
theorem keeps_checkFailureStrategy (c : Cfg) : Keeps c (checkFailureStrategy c) := by unfold checkFailureStrategy; keeps_auto
macro_rules | `(tactic| keeps_leaf) => `(tactic| exact keeps_checkFailureStrategy _)
theorem keeps_checkConsistence (c : Cfg) (f : SState) : Keeps c (checkConsistence c f) := by unfold checkConsistence; keeps_auto
macro_rules | `(tactic| keeps_leaf) => `(tactic| exact keeps_checkConsistence _ _)
theorem keeps_checkInstances (c : Cfg) (f : SState) : Keeps c (checkInstances c f) := by unfold checkInstances; keeps_auto
macro_rules | `(tactic| keeps_leaf) => `(tactic| exact keeps_checkInstances _ _)
theorem keeps_masterFailJobs (c : Cfg) : Keeps c masterFailJobs := by unfold masterFailJobs; keeps_auto
macro_rules | `(tactic| keeps_leaf) => `(tactic| exact keeps_masterFailJobs _)
theorem keeps_baseNext (c : Cfg) (f : SState) : Keeps c (baseNext c f) := by unfold baseNext; keeps_auto
theorem keeps_endSyncUser (c : Cfg) : Keeps c (endSyncUser c) := by unfold endSyncUser; keeps_auto
macro_rules | `(tactic| keeps_leaf) => `(tactic| first | exact keeps_baseNext _ _ | exact keeps_endSyncUser _)
theorem keeps_nextSync (c : Cfg) : Keeps c (nextSync c) := by unfold nextSync; keeps_auto
theorem keeps_nextElection (c : Cfg) : Keeps c (nextElection c) := by unfold nextElection; keeps_auto
theorem keeps_nextDistribution (c : Cfg) : Keeps c (nextDistribution c) := by unfold nextDistribution; keeps_auto
theorem keeps_nextOperation (c : Cfg) : Keeps c (nextOperation c) := by unfold nextOperation; keeps_auto
theorem keeps_nextConciliation (c : Cfg) : Keeps c (nextConciliation c) := by unfold nextConciliation; keeps_auto
theorem keeps_nextEnding (c : Cfg) (f : SState) : Keeps c (nextEnding c f) := by unfold nextEnding; keeps_auto
macro_rules | `(tactic| keeps_leaf) => `(tactic| first | exact keeps_nextSync _ | exact keeps_nextElection _ | exact keeps_nextDistribution _ | exact keeps_nextOperation _ | exact keeps_nextConciliation _ | exact keeps_nextEnding _ _)
theorem keeps_stateNext (c : Cfg) (f : SState) : Keeps c (stateNext c f) := by unfold stateNext; keeps_auto
theorem keeps_stateEnter (c : Cfg) (f : SState) : Keeps c (stateEnter c f) := by unfold stateEnter; keeps_auto
theorem keeps_stateExit (c : Cfg) (f : SState) : Keeps c (stateExit c f) := by unfold stateExit; keeps_auto


end Supv.Inst
