import Supv.Lemmas.InstMoves

/-! Frame kit for C06 (`C06_master_only_fsm`): in the instance model every `failJobs` order is emitted while the local
    instance is the Master.  The output log itself records the local Master: every change goes through `setMaster`, which
    publishes at once, so "the Master at the time of an emission" is the Master of the last publication before it. -/

namespace Supv.Inst

/-- the local Master (`state_modes.master_identifier`) -/
def masterOf (c : Cfg) (s : St) : Option Nat := (s.modes[c.me]?.getD {}).master

/-- the Master recorded by a log: that of its last publication, `m0` if there is none -/
def lastMaster (m0 : Option Nat) : List Out → Option Nat
  | [] => m0
  | .pub m :: t => lastMaster m.master t
  | .check _ :: t | .restartLocal :: t | .shutdownLocal :: t | .restartAll _ :: t | .shutdownAll _ :: t
  | .refused _ _ :: t | .startApps :: t | .conciliate :: t | .stopApps :: t | .failJobs :: t | .inst _ _ :: t =>
    lastMaster m0 t

/-- every `failJobs` of the log is emitted while the recorded Master is `me` -/
def failsOk (me : Nat) (m0 : Option Nat) : List Out → Prop
  | [] => True
  | .pub m :: t => failsOk me m.master t
  | .failJobs :: t => m0 = some me ∧ failsOk me m0 t
  | .check _ :: t | .restartLocal :: t | .shutdownLocal :: t | .restartAll _ :: t | .shutdownAll _ :: t
  | .refused _ _ :: t | .startApps :: t | .conciliate :: t | .stopApps :: t | .inst _ _ :: t =>
    failsOk me m0 t

theorem lastMaster_append (m0 : Option Nat) (l l' : List Out) :
    lastMaster m0 (l ++ l') = lastMaster (lastMaster m0 l) l' := by
  induction l generalizing m0 with
  | nil => rfl
  | cons o t ih => cases o <;> simp [lastMaster, ih]

theorem failsOk_append (me : Nat) (m0 : Option Nat) (l l' : List Out) :
    failsOk me m0 (l ++ l') ↔ failsOk me m0 l ∧ failsOk me (lastMaster m0 l) l' := by
  induction l generalizing m0 with
  | nil => simp [failsOk, lastMaster]
  | cons o t ih => cases o <;> simp [failsOk, lastMaster, ih, and_assoc]

/-- the log is consistent with the state: it records the local Master, and every `failJobs` was emitted by the Master -/
structure LogOk (c : Cfg) (m0 : Option Nat) (s : St) : Prop where
  tracks : lastMaster m0 s.out = masterOf c s
  fails : failsOk c.me m0 s.out

def Out.plain : Out → Bool
  | .pub _ | .failJobs => false
  | _ => true

theorem logOk_emit_plain (c : Cfg) (m0 : Option Nat) (s : St) (o : Out) (ho : o.plain = true) (h : LogOk c m0 s) :
    LogOk c m0 { s with out := s.out ++ [o] } := by
  obtain ⟨h1, h2⟩ := h
  constructor
  · simp only [lastMaster_append]
    rw [show masterOf c { s with out := s.out ++ [o] } = masterOf c s from rfl, ← h1]
    cases o <;> simp_all [lastMaster, Out.plain]
  · simp only [failsOk_append]
    refine ⟨h2, ?_⟩
    cases o <;> simp_all [failsOk, Out.plain]

theorem logOk_emit_pub (c : Cfg) (m0 : Option Nat) (s : St) (h : failsOk c.me m0 s.out) :
    LogOk c m0 { s with out := s.out ++ [.pub (s.modes[c.me]?.getD {})] } := by
  constructor
  · simp [lastMaster_append, lastMaster, masterOf]
  · simp [failsOk_append, failsOk, h]

theorem logOk_emit_fail (c : Cfg) (m0 : Option Nat) (s : St) (hm : masterOf c s = some c.me) (h : LogOk c m0 s) :
    LogOk c m0 { s with out := s.out ++ [.failJobs] } := by
  obtain ⟨h1, h2⟩ := h
  constructor
  · simp only [lastMaster_append, lastMaster]
    rw [h1]; rfl
  · simp only [failsOk_append, failsOk, and_true]
    exact ⟨h2, h1.trans hm⟩

/-- `x`, run from `s`, keeps the log consistent -/
def TrAt (c : Cfg) (m0 : Option Nat) {α} (x : M α) (s : St) : Prop :=
  ∀ a s', x.run s = .ok (a, s') → LogOk c m0 s → LogOk c m0 s'

structure Tr (c : Cfg) (m0 : Option Nat) {α} (x : M α) : Prop where
  run : ∀ s, TrAt c m0 x s

namespace Tr
variable {c : Cfg} {m0 : Option Nat}

theorem pure {α} (a : α) : Tr c m0 (Pure.pure a : M α) := by
  constructor
  intro s a' s' h
  simp [StateT.run, Pure.pure, StateT.pure, Except.pure] at h
  obtain ⟨_, rfl⟩ := h; exact id

theorem bind {α β} {x : M α} {f : α → M β} (hx : Tr c m0 x) (hf : ∀ a, Tr c m0 (f a)) : Tr c m0 (x >>= f) := by
  constructor
  intro s b s' h hl
  obtain ⟨a, s1, h1, h2⟩ := run_bind _ _ _ _ _ h
  exact (hf a).run s1 b s' h2 (hx.run s a s1 h1 hl)

theorem get : Tr c m0 (MonadState.get : M St) := by
  constructor
  intro s a s' h
  simp [StateT.run, MonadState.get, getThe, MonadStateOf.get, StateT.get, Pure.pure, Except.pure] at h
  obtain ⟨_, rfl⟩ := h; exact id

theorem throw {α} (e : Err) : Tr c m0 (MonadExcept.throw e : M α) := by
  constructor
  intro s a s' h
  have : (MonadExcept.throw e : M α).run s = Except.error e := rfl
  rw [this] at h; cases h

theorem modify (f : St → St) (hf : ∀ s, LogOk c m0 s → LogOk c m0 (f s)) : Tr c m0 (modify f : M Unit) := by
  constructor
  intro s a s' h
  simp [StateT.run, _root_.modify, modifyGet, MonadStateOf.modifyGet, StateT.modifyGet, Pure.pure, Except.pure] at h
  obtain ⟨_, rfl⟩ := h; exact hf s

/-- a write that touches neither the log nor the StateModes table -/
theorem modify_frame (f : St → St) (hf : ∀ s, (f s).out = s.out ∧ (f s).modes = s.modes) : Tr c m0 (_root_.modify f : M Unit) := by
  apply modify
  intro s ⟨h1, h2⟩
  obtain ⟨e1, e2⟩ := hf s
  exact ⟨by rw [e1, h1]; simp [masterOf, e2], by rw [e1]; exact h2⟩

theorem forIn {α β} (l : List α) (init : β) (f : α → β → M (ForInStep β))
    (hf : ∀ a b, Tr c m0 (f a b)) : Tr c m0 (forIn l init f) := by
  induction l generalizing init with
  | nil => simp only [List.forIn_nil]; exact pure _
  | cons a t ih =>
    simp only [List.forIn_cons]
    apply bind (hf a init)
    intro r
    cases r with
    | done b => exact pure _
    | yield b => exact ih b
end Tr

/-! leaves -/
theorem tr_emit (c : Cfg) (m0 : Option Nat) (o : Out) (ho : o.plain = true) : Tr c m0 (emit o) :=
  Tr.modify _ (fun s h => logOk_emit_plain c m0 s o ho h)
theorem tr_modifyPeer (c : Cfg) (m0 : Option Nat) (j : Nat) (f : Peer → Peer) : Tr c m0 (modifyPeer j f) :=
  Tr.modify_frame _ (fun _ => ⟨rfl, rfl⟩)
theorem tr_setPeer (c : Cfg) (m0 : Option Nat) (j : Nat) (p : Peer) : Tr c m0 (setPeer j p) :=
  Tr.modify_frame _ (fun _ => ⟨rfl, rfl⟩)
theorem tr_getPeer (c : Cfg) (m0 : Option Nat) (j : Nat) : Tr c m0 (getPeer j) := Tr.bind Tr.get (fun _ => Tr.pure _)
theorem tr_getModes (c : Cfg) (m0 : Option Nat) (j : Nat) : Tr c m0 (getModes j) := Tr.bind Tr.get (fun _ => Tr.pure _)
theorem tr_localModes (c : Cfg) (m0 : Option Nat) : Tr c m0 (localModes c) := tr_getModes c m0 _

/-- an in-place update of the local record that does not touch its `master` field -/
theorem tr_modifyLocal (c : Cfg) (m0 : Option Nat) (f : Modes → Modes) (hf : ∀ m, (f m).master = m.master) :
    Tr c m0 (modifyLocal c f) := by
  apply Tr.modify
  intro s ⟨h1, h2⟩
  refine ⟨?_, h2⟩
  rw [show ({ s with modes := s.modes.modify c.me f } : St).out = s.out from rfl, h1]
  unfold masterOf
  simp only [List.getElem?_modify]
  cases h : s.modes[c.me]? with
  | none => simp
  | some m => simp [hf]

theorem tr_setRemoteModes (c : Cfg) (m0 : Option Nat) (j : Nat) (m : Modes) : Tr c m0 (setRemoteModes c j m) := by
  unfold setRemoteModes
  split
  · exact Tr.pure _
  · rename_i hj
    apply Tr.modify
    intro s ⟨h1, h2⟩
    refine ⟨?_, h2⟩
    rw [show ({ s with modes := s.modes.set j m } : St).out = s.out from rfl, h1]
    unfold masterOf
    simp [List.getElem?_set_ne hj]

theorem runEq_localModes (c : Cfg) (s : St) : (localModes c).run s = .ok (s.modes[c.me]?.getD {}, s) := by
  simp [localModes, getModes, StateT.run, Bind.bind, StateT.bind, Except.bind, MonadState.get, getThe,
    MonadStateOf.get, StateT.get, Pure.pure, StateT.pure, Except.pure]

theorem runEq_emit (o : Out) (s : St) : (emit o).run s = .ok ((), { s with out := s.out ++ [o] }) := by
  simp [emit, StateT.run, _root_.modify, modifyGet, MonadStateOf.modifyGet, StateT.modifyGet, Pure.pure, Except.pure]

/-- `publish` re-establishes the tracking whatever was written to the local record before -/
theorem logOk_publish (c : Cfg) (m0 : Option Nat) (s s' : St) (u : Unit) (h : (publish c).run s = .ok (u, s'))
    (hf : failsOk c.me m0 s.out) : LogOk c m0 s' := by
  unfold publish at h
  obtain ⟨lm, s1, h1, h2⟩ := run_bind _ _ _ _ _ h
  rw [runEq_localModes] at h1
  simp only [Except.ok.injEq, Prod.mk.injEq] at h1
  obtain ⟨rfl, rfl⟩ := h1
  rw [runEq_emit] at h2
  simp only [Except.ok.injEq, Prod.mk.injEq, true_and] at h2
  subst h2
  exact logOk_emit_pub c m0 s hf

theorem tr_publish (c : Cfg) (m0 : Option Nat) : Tr c m0 (publish c) :=
  ⟨fun s u s' h hl => logOk_publish c m0 s s' u h hl.fails⟩

/-- `setMaster`: the write to the `master` field is followed by a publication -/
theorem tr_setMaster (c : Cfg) (m0 : Option Nat) (m : Option Nat) : Tr c m0 (setMaster c m) := by
  constructor
  intro s u s' h hl
  unfold setMaster at h
  obtain ⟨lm, s1, h1, h2⟩ := run_bind _ _ _ _ _ h
  rw [runEq_localModes] at h1
  simp only [Except.ok.injEq, Prod.mk.injEq] at h1
  obtain ⟨rfl, rfl⟩ := h1
  split at h2
  · obtain ⟨_, s2, h3, h4⟩ := run_bind _ _ _ _ _ h2
    have hs2 : s2.out = s.out := by
      simp [modifyLocal, StateT.run, _root_.modify, modifyGet, MonadStateOf.modifyGet, StateT.modifyGet, Pure.pure, Except.pure] at h3
      rw [← h3]
    exact logOk_publish c m0 s2 s' _ h4 (by rw [hs2]; exact hl.fails)
  · simp [StateT.run, Pure.pure, StateT.pure, Except.pure] at h2
    obtain ⟨_, rfl⟩ := h2; exact hl

/-- extensible leaf tactic -/
syntax "tr_leaf" : tactic
macro_rules | `(tactic| tr_leaf) => `(tactic| first
  | exact Tr.pure _ | exact Tr.get | exact Tr.throw _
  | exact tr_emit _ _ _ rfl | exact tr_modifyPeer _ _ _ _ | exact tr_setPeer _ _ _ _ | exact tr_getPeer _ _ _
  | exact tr_getModes _ _ _ | exact tr_localModes _ _ | exact tr_setRemoteModes _ _ _ _
  | exact tr_modifyLocal _ _ _ (fun _ => rfl)
  | exact tr_publish _ _ | exact tr_setMaster _ _ _
  | exact Tr.modify_frame _ (fun _ => ⟨rfl, rfl⟩)
  | assumption)

macro "tr_step" : tactic => `(tactic| first
  | (with_reducible tr_leaf)
  | (with_reducible apply Tr.bind)
  | (with_reducible apply Tr.forIn)
  | (intro _)
  | (split)
  | (dsimp only)
  | tr_leaf
  | (apply Tr.bind)
  | (apply Tr.forIn))
macro "tr_auto" : tactic => `(tactic| repeat tr_step)

variable (c : Cfg) (m0 : Option Nat)

theorem tr_askNat (q : Query) : Tr c m0 (askNat q) := by unfold askNat; tr_auto
macro_rules | `(tactic| tr_leaf) => `(tactic| exact tr_askNat _ _ _)
theorem tr_ask (q : Query) : Tr c m0 (ask q) := by unfold ask; tr_auto
macro_rules | `(tactic| tr_leaf) => `(tactic| exact tr_ask _ _ _)
theorem tr_setFsm (f : SState) : Tr c m0 (setFsm c f) := by unfold setFsm; tr_auto
macro_rules | `(tactic| tr_leaf) => `(tactic| exact tr_setFsm _ _ _)
theorem tr_setDegraded (d : Bool) : Tr c m0 (setDegraded c d) := by unfold setDegraded; tr_auto
macro_rules | `(tactic| tr_leaf) => `(tactic| exact tr_setDegraded _ _ _)
theorem tr_updateInstanceState (j : Nat) (ns : IState) : Tr c m0 (updateInstanceState c j ns) := by
  unfold updateInstanceState; tr_auto
macro_rules | `(tactic| tr_leaf) => `(tactic| exact tr_updateInstanceState _ _ _ _)
theorem tr_setPeerState (j : Nat) (ns : IState) : Tr c m0 (setPeerState c j ns) := by unfold setPeerState; tr_auto
macro_rules | `(tactic| tr_leaf) => `(tactic| exact tr_setPeerState _ _ _ _)
theorem tr_masterState : Tr c m0 (masterState c) := by unfold masterState; tr_auto
macro_rules | `(tactic| tr_leaf) => `(tactic| exact tr_masterState _ _)
theorem tr_invalidate (j : Nat) (f : Bool) : Tr c m0 (invalidate c j f) := by unfold invalidate; tr_auto
macro_rules | `(tactic| tr_leaf) => `(tactic| exact tr_invalidate _ _ _ _)
theorem tr_invalidateFailed : Tr c m0 (invalidateFailed c) := by unfold invalidateFailed; tr_auto
macro_rules | `(tactic| tr_leaf) => `(tactic| exact tr_invalidateFailed _ _)
theorem tr_activateChecked : Tr c m0 (activateChecked c) := by unfold activateChecked; tr_auto
macro_rules | `(tactic| tr_leaf) => `(tactic| exact tr_activateChecked _ _)
theorem tr_isRunningLocal (j : Nat) : Tr c m0 (isRunningLocal c j) := by unfold isRunningLocal; tr_auto
macro_rules | `(tactic| tr_leaf) => `(tactic| exact tr_isRunningLocal _ _ _)
theorem tr_evaluateStability : Tr c m0 (evaluateStability c) := by unfold evaluateStability; tr_auto
macro_rules | `(tactic| tr_leaf) => `(tactic| exact tr_evaluateStability _ _)
theorem tr_isStable : Tr c m0 (isStable : M Bool) := by unfold isStable; tr_auto
macro_rules | `(tactic| tr_leaf) => `(tactic| exact tr_isStable _ _)
theorem tr_masterIds : Tr c m0 (masterIds c) := by unfold masterIds; tr_auto
macro_rules | `(tactic| tr_leaf) => `(tactic| exact tr_masterIds _ _)
theorem tr_checkMaster : Tr c m0 (checkMaster c) := by unfold checkMaster; tr_auto
macro_rules | `(tactic| tr_leaf) => `(tactic| exact tr_checkMaster _ _)
theorem tr_selectMaster : Tr c m0 (selectMaster c) := by unfold selectMaster; tr_auto
macro_rules | `(tactic| tr_leaf) => `(tactic| exact tr_selectMaster _ _)
theorem tr_stableSubset (l : List Nat) : Tr c m0 (stableSubset l) := by unfold stableSubset; tr_auto
macro_rules | `(tactic| tr_leaf) => `(tactic| exact tr_stableSubset _ _ _)
theorem tr_initialRunning : Tr c m0 (initialRunning c) := by unfold initialRunning; tr_auto
theorem tr_allRunning : Tr c m0 (allRunning c) := by unfold allRunning; tr_auto
theorem tr_coreRunning : Tr c m0 (coreRunning c) := by unfold coreRunning; tr_auto
macro_rules | `(tactic| tr_leaf) => `(tactic| first | exact tr_initialRunning _ _ | exact tr_allRunning _ _ | exact tr_coreRunning _ _)
theorem tr_checkStrictFailure : Tr c m0 (checkStrictFailure c) := by unfold checkStrictFailure; tr_auto
theorem tr_checkListFailure : Tr c m0 (checkListFailure c) := by unfold checkListFailure; tr_auto
theorem tr_checkCoreFailure : Tr c m0 (checkCoreFailure c) := by unfold checkCoreFailure; tr_auto
theorem tr_checkUserFailure : Tr c m0 (checkUserFailure c) := by unfold checkUserFailure; tr_auto
macro_rules | `(tactic| tr_leaf) => `(tactic| first | exact tr_checkStrictFailure _ _ | exact tr_checkListFailure _ _ | exact tr_checkCoreFailure _ _ | exact tr_checkUserFailure _ _)
theorem tr_fsmState : Tr c m0 (fsmState c) := by unfold fsmState; tr_auto
theorem tr_isMaster : Tr c m0 (isMaster c) := by unfold isMaster; tr_auto
theorem tr_localRunning : Tr c m0 (localRunning c) := by unfold localRunning; tr_auto
macro_rules | `(tactic| tr_leaf) => `(tactic| first | exact tr_fsmState _ _ | exact tr_isMaster _ _ | exact tr_localRunning _ _)
theorem tr_checkFailureStrategy : Tr c m0 (checkFailureStrategy c) := by unfold checkFailureStrategy; tr_auto
macro_rules | `(tactic| tr_leaf) => `(tactic| exact tr_checkFailureStrategy _ _)
theorem tr_checkConsistence (f : SState) : Tr c m0 (checkConsistence c f) := by unfold checkConsistence; tr_auto
macro_rules | `(tactic| tr_leaf) => `(tactic| exact tr_checkConsistence _ _ _)
theorem tr_checkInstances (f : SState) : Tr c m0 (checkInstances c f) := by unfold checkInstances; tr_auto
macro_rules | `(tactic| tr_leaf) => `(tactic| exact tr_checkInstances _ _ _)
theorem tr_baseNext (f : SState) : Tr c m0 (baseNext c f) := by unfold baseNext; tr_auto
theorem tr_endSyncUser : Tr c m0 (endSyncUser c) := by unfold endSyncUser; tr_auto
macro_rules | `(tactic| tr_leaf) => `(tactic| first | exact tr_baseNext _ _ _ | exact tr_endSyncUser _ _)
theorem tr_nextSync : Tr c m0 (nextSync c) := by unfold nextSync; tr_auto
theorem tr_nextElection : Tr c m0 (nextElection c) := by unfold nextElection; tr_auto
theorem tr_nextEnding (f : SState) : Tr c m0 (nextEnding c f) := by unfold nextEnding; tr_auto

/-! the only emission site of `failJobs`: behind the `isMaster` test of the `_master_next` of the three working states -/

theorem runEq_isMaster (s : St) : (isMaster c).run s = .ok (decide (masterOf c s = some c.me), s) := by
  simp [isMaster, localModes, getModes, masterOf, StateT.run, Bind.bind, StateT.bind, Except.bind, MonadState.get, getThe,
    MonadStateOf.get, StateT.get, Pure.pure, StateT.pure, Except.pure]
  congr

/-- `masterFailJobs` run from a state where the local instance is the Master -/
theorem trAt_masterFailJobs (s : St) (hm : masterOf c s = some c.me) : TrAt c m0 masterFailJobs s := by
  intro u s' h hl
  unfold masterFailJobs at h
  obtain ⟨st, s1, h1, h2⟩ := run_bind _ _ _ _ _ h
  simp [StateT.run, MonadState.get, getThe, MonadStateOf.get, StateT.get, Pure.pure, Except.pure] at h1
  obtain ⟨rfl, rfl⟩ := h1
  split at h2
  · rw [runEq_emit] at h2
    simp only [Except.ok.injEq, Prod.mk.injEq, true_and] at h2
    subst h2
    exact logOk_emit_fail c m0 _ hm hl
  · simp [StateT.run, Pure.pure, StateT.pure, Except.pure] at h2
    obtain ⟨_, rfl⟩ := h2; exact hl

/-- `if ← isMaster c then (masterFailJobs; k) else e` -/
theorem tr_masterBranch {α} (k : M α) (e : M α) (hk : Tr c m0 k) (he : Tr c m0 e) :
    Tr c m0 (do if ← isMaster c then (do masterFailJobs; k) else e) := by
  constructor
  intro s a s' h hl
  obtain ⟨b, s1, h1, h2⟩ := run_bind _ _ _ _ _ h
  rw [runEq_isMaster] at h1
  simp only [Except.ok.injEq, Prod.mk.injEq] at h1
  obtain ⟨rfl, rfl⟩ := h1
  split at h2
  · rename_i hb
    simp only [decide_eq_true_eq] at hb
    obtain ⟨_, s2, h3, h4⟩ := run_bind _ _ _ _ _ h2
    exact hk.run s2 a s' h4 (trAt_masterFailJobs c m0 _ hb _ s2 h3 hl)
  · exact he.run _ a s' h2 hl

theorem tr_nextDistribution : Tr c m0 (nextDistribution c) := by
  unfold nextDistribution
  apply tr_masterBranch
  · tr_auto
  · tr_auto

theorem tr_nextOperation : Tr c m0 (nextOperation c) := by
  unfold nextOperation
  apply tr_masterBranch
  · tr_auto
  · tr_auto

theorem tr_nextConciliation : Tr c m0 (nextConciliation c) := by
  unfold nextConciliation
  apply tr_masterBranch
  · tr_auto
  · tr_auto

macro_rules | `(tactic| tr_leaf) => `(tactic| first | exact tr_nextSync _ _ | exact tr_nextElection _ _ | exact tr_nextDistribution _ _ | exact tr_nextOperation _ _ | exact tr_nextConciliation _ _ | exact tr_nextEnding _ _ _)
theorem tr_stateNext (f : SState) : Tr c m0 (stateNext c f) := by unfold stateNext; tr_auto
theorem tr_stateEnter (f : SState) : Tr c m0 (stateEnter c f) := by unfold stateEnter; tr_auto
theorem tr_stateExit (f : SState) : Tr c m0 (stateExit c f) := by unfold stateExit; tr_auto
macro_rules | `(tactic| tr_leaf) => `(tactic| first | exact tr_stateNext _ _ _ | exact tr_stateEnter _ _ _ | exact tr_stateExit _ _ _)

theorem tr_setState (fuel : Nat) : ∀ nxt, Tr c m0 (setState c nxt fuel) := by
  induction fuel with
  | zero => intro nxt; unfold setState; exact Tr.pure _
  | succ fuel ih =>
    intro nxt
    unfold setState
    cases nxt with
    | none => exact Tr.pure _
    | some t =>
      dsimp only
      have := ih
      tr_auto

theorem tr_fsmNext : Tr c m0 (fsmNext c) := by
  unfold fsmNext
  apply Tr.bind (tr_fsmState c m0); intro cur
  apply Tr.bind (tr_stateNext c m0 cur); intro n
  exact tr_setState c m0 12 n

attribute [local irreducible] setState fsmNext

macro_rules | `(tactic| tr_leaf) => `(tactic| first | exact tr_fsmNext _ _ | exact tr_setState _ _ _ _)

theorem tr_isValid (j : Nat) : Tr c m0 (isValid j) := by unfold isValid; tr_auto
theorem tr_timerCheck (k : Nat) : Tr c m0 (timerCheck c k) := by unfold timerCheck; tr_auto
theorem tr_deferredPublish : Tr c m0 (deferredPublish c) := by unfold deferredPublish; tr_auto
macro_rules | `(tactic| tr_leaf) => `(tactic| first | exact tr_isValid _ _ _ | exact tr_timerCheck _ _ _ | exact tr_deferredPublish _ _)

theorem tr_handleLtick (k : Nat) : Tr c m0 (handleLtick c k) := by unfold handleLtick; tr_auto
theorem tr_handleRtick (j k : Nat) : Tr c m0 (handleRtick c j k) := by unfold handleRtick; tr_auto
theorem tr_handleState (j : Nat) (m : Modes) : Tr c m0 (handleState c j m) := by unfold handleState; tr_auto
theorem tr_handleAuth (j k t : Nat) : Tr c m0 (handleAuth c j k t) := by unfold handleAuth; tr_auto
theorem tr_handleAllinfoNone (j : Nat) : Tr c m0 (handleAllinfoNone c j) := by unfold handleAllinfoNone; tr_auto
theorem tr_handleFailure (j : Nat) : Tr c m0 (handleFailure c j) := by unfold handleFailure; tr_auto
theorem tr_handleEnd (b : Bool) : Tr c m0 (handleEnd c b) := by cases b <;> (unfold handleEnd; tr_auto)
theorem tr_handleEndSync (m : Option Nat) : Tr c m0 (handleEndSync c m) := by
  cases m <;> (unfold handleEndSync; tr_auto)

theorem tr_handle (op : Op) : Tr c m0 (handle c op) := by
  cases op with
  | running => exact tr_fsmNext c m0
  | ltick k => exact tr_handleLtick c m0 k
  | rtick j k => exact tr_handleRtick c m0 j k
  | state j m => exact tr_handleState c m0 j m
  | auth j k t => exact tr_handleAuth c m0 j k t
  | allinfoNone j => exact tr_handleAllinfoNone c m0 j
  | failure j => exact tr_handleFailure c m0 j
  | restart => exact tr_handleEnd c m0 false
  | shutdown => exact tr_handleEnd c m0 true
  | endSync m => exact tr_handleEndSync c m0 m

/-- the log of one operation (errors included, any oracle stream) is consistent -/
theorem stepOp_logOk (s : St) (now : Nat) (op : Op) (orc : List (Query × Nat)) :
    LogOk c (masterOf c s) (stepOp c s now op orc).1 := by
  have h0 : LogOk c (masterOf c s) { s with now := now, out := [], oracle := orc, oracleBad := 0 } :=
    ⟨rfl, trivial⟩
  unfold stepOp
  cases h : (handle c op).run { s with now := now, out := [], oracle := orc, oracleBad := 0 } with
  | error e => exact h0
  | ok r =>
    obtain ⟨u, s'⟩ := r
    exact (tr_handle c (masterOf c s) op).run _ u s' h h0

theorem stepOp_tracks_master (s : St) (now : Nat) (op : Op) (orc : List (Query × Nat)) :
    lastMaster (masterOf c s) (stepOp c s now op orc).1.out = masterOf c (stepOp c s now op orc).1 :=
  (stepOp_logOk c s now op orc).tracks

theorem stepOp_failJobs_master (s : St) (now : Nat) (op : Op) (orc : List (Query × Nat)) (pre post : List Out)
    (hout : (stepOp c s now op orc).1.out = pre ++ Out.failJobs :: post) :
    lastMaster (masterOf c s) pre = some c.me := by
  have := (stepOp_logOk c s now op orc).fails
  rw [hout, failsOk_append] at this
  exact this.2.1

end Supv.Inst
