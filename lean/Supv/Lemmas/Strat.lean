import Supv.Model.Cmd

/-! Lemmas on the selection functions of the starting strategies (`firstMin`, `lastMax`, `minKey`, `maxKey`, `popKey`). -/

namespace Supv.Cmd

/-- lexicographic order on load keys -/
def lexLe (a b : Nat × Nat) : Prop := a.1 < b.1 ∨ (a.1 = b.1 ∧ a.2 ≤ b.2)
def lexLt (a b : Nat × Nat) : Prop := a.1 < b.1 ∨ (a.1 = b.1 ∧ a.2 < b.2)

theorem not_lexLt_of_lexLe {a b : Nat × Nat} (h : lexLe a b) : ¬ lexLt b a := by
  unfold lexLe at h; unfold lexLt; omega

theorem firstMin_none (key : Nat → Nat × Nat) (l : List Nat) : firstMin key l = none ↔ l = [] := by
  cases l with
  | nil => simp [firstMin]
  | cons a t => simp only [firstMin]; split <;> (try split) <;> simp

/-- the chosen element belongs to the list and no element has a strictly smaller key -/
theorem firstMin_optimal (key : Nat → Nat × Nat) (l : List Nat) (m : Nat) (h : firstMin key l = some m) :
    m ∈ l ∧ ∀ x ∈ l, lexLe (key m) (key x) := by
  induction l generalizing m with
  | nil => simp [firstMin] at h
  | cons a t ih =>
    simp only [firstMin] at h
    cases ht : firstMin key t with
    | none =>
      simp [ht] at h; subst h
      have : t = [] := (firstMin_none key t).mp ht
      subst this
      exact ⟨by simp, by intro x hx; simp at hx; subst hx; unfold lexLe; omega⟩
    | some m' =>
      simp only [ht] at h
      obtain ⟨hm', hall⟩ := ih m' ht
      split at h
      · rename_i hlt
        simp at h; subst h
        refine ⟨by simp [hm'], ?_⟩
        intro x hx
        simp at hx
        cases hx with
        | inl hxa => subst hxa; unfold lexLe; omega
        | inr hxt => exact hall x hxt
      · rename_i hnlt
        simp at h; subst h
        refine ⟨by simp, ?_⟩
        intro x hx
        simp at hx
        cases hx with
        | inl hxa => subst hxa; unfold lexLe; omega
        | inr hxt =>
          have := hall x hxt
          unfold lexLe at *
          omega

theorem lastMax_none (key : Nat → Nat × Nat) (l : List Nat) : lastMax key l = none ↔ l = [] := by
  cases l with
  | nil => simp [lastMax]
  | cons a t => simp only [lastMax]; split <;> (try split) <;> simp

/-- the chosen element belongs to the list and no element has a strictly greater key -/
theorem lastMax_optimal (key : Nat → Nat × Nat) (l : List Nat) (m : Nat) (h : lastMax key l = some m) :
    m ∈ l ∧ ∀ x ∈ l, lexLe (key x) (key m) := by
  induction l generalizing m with
  | nil => simp [lastMax] at h
  | cons a t ih =>
    simp only [lastMax] at h
    cases ht : lastMax key t with
    | none =>
      simp [ht] at h; subst h
      have : t = [] := (lastMax_none key t).mp ht
      subst this
      exact ⟨by simp, by intro x hx; simp at hx; subst hx; unfold lexLe; omega⟩
    | some m' =>
      simp only [ht] at h
      obtain ⟨hm', hall⟩ := ih m' ht
      split at h
      · rename_i hgt
        simp at h; subst h
        refine ⟨by simp, ?_⟩
        intro x hx
        simp at hx
        cases hx with
        | inl hxa => subst hxa; unfold lexLe; omega
        | inr hxt =>
          have := hall x hxt
          unfold lexLe at *
          omega
      · rename_i hngt
        simp at h; subst h
        refine ⟨by simp [hm'], ?_⟩
        intro x hx
        simp at hx
        cases hx with
        | inl hxa => subst hxa; unfold lexLe; omega
        | inr hxt => exact hall x hxt

theorem minKey_le {α} (l : List (Nat × α)) (k : Nat) (h : minKey l = some k) : ∀ x ∈ l, k ≤ x.1 := by
  induction l generalizing k with
  | nil => simp [minKey] at h
  | cons a t ih =>
    obtain ⟨ka, va⟩ := a
    simp only [minKey] at h
    split at h
    · rename_i hn
      simp at h; subst h
      intro x hx
      simp at hx
      rcases hx with rfl | hx
      · exact Nat.le_refl _
      · cases t with
        | nil => simp at hx
        | cons b u => obtain ⟨kb, vb⟩ := b; simp only [minKey] at hn; split at hn <;> simp at hn
    · rename_i m hm
      simp at h; subst h
      intro x hx
      simp at hx
      rcases hx with rfl | hx
      · exact Nat.min_le_left _ _
      · exact Nat.le_trans (Nat.min_le_right _ _) (ih m hm x hx)

theorem minKey_mem {α} (l : List (Nat × α)) (k : Nat) (h : minKey l = some k) : ∃ x ∈ l, x.1 = k := by
  induction l generalizing k with
  | nil => simp [minKey] at h
  | cons a t ih =>
    obtain ⟨ka, va⟩ := a
    simp only [minKey] at h
    split at h
    · simp at h; exact ⟨(ka, va), by simp, h⟩
    · rename_i m hm
      simp at h
      by_cases hle : ka ≤ m
      · exact ⟨(ka, va), by simp, by simp [← h, Nat.min_eq_left hle]⟩
      · obtain ⟨x, hx, hxk⟩ := ih m hm
        exact ⟨x, by simp [hx], by rw [hxk, ← h]; omega⟩

theorem maxKey_ge {α} (l : List (Nat × α)) (k : Nat) (h : maxKey l = some k) : ∀ x ∈ l, x.1 ≤ k := by
  induction l generalizing k with
  | nil => simp [maxKey] at h
  | cons a t ih =>
    obtain ⟨ka, va⟩ := a
    simp only [maxKey] at h
    split at h
    · rename_i hn
      simp at h; subst h
      intro x hx
      simp at hx
      rcases hx with rfl | hx
      · exact Nat.le_refl _
      · cases t with
        | nil => simp at hx
        | cons b u => obtain ⟨kb, vb⟩ := b; simp only [maxKey] at hn; split at hn <;> simp at hn
    · rename_i m hm
      simp at h; subst h
      intro x hx
      simp at hx
      rcases hx with rfl | hx
      · exact Nat.le_max_left _ _
      · exact Nat.le_trans (ih m hm x hx) (Nat.le_max_right _ _)

end Supv.Cmd
