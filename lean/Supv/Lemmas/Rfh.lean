import Supv.Model.Rfh
import Supv.Spec.C06

/-! Helper lemmas for C06: set operations, the mutual-exclusion invariant `Excl`, the representation invariant `Rep`
    (job sets = closed form of the pending notifications). -/

namespace Supv.Rfh
open Supv.Spec.C06

theorem mem_ins (x y : Nat) (l : List Nat) : y ∈ ins x l ↔ y = x ∨ y ∈ l := by
  unfold ins; split <;> simp_all <;> grind

theorem nodup_ins (x : Nat) (l : List Nat) (h : l.Nodup) : (ins x l).Nodup := by
  unfold ins; split
  · exact h
  · rw [List.nodup_append]; simp_all; grind

theorem mem_del (x y : Nat) (l : List Nat) : y ∈ del x l ↔ y ∈ l ∧ y ≠ x := by
  simp [del]

theorem nodup_del (x : Nat) (l : List Nat) (h : l.Nodup) : (del x l).Nodup := h.filter _

theorem nodup_map_inj {α β} (f : α → β) (hf : ∀ x y, f x = f y → x = y) (l : List α) (h : l.Nodup) :
    (l.map f).Nodup := by
  induction l with
  | nil => simp
  | cons a t ih =>
    rw [List.nodup_cons] at h
    rw [List.map_cons, List.nodup_cons]
    refine ⟨?_, ih h.2⟩
    intro hm
    rw [List.mem_map] at hm
    obtain ⟨b, hb, hfb⟩ := hm
    exact h.1 (hf _ _ hfb ▸ hb)

/-! ### Mutual exclusion -/

/-- The invariant of the four job sets.  `restart_procs` carries the code's proviso: a RESTART_APPLICATION job only
    excludes the process jobs of the processes that belong to the start sequence of the application. -/
structure Excl (c : Cfg) (h : St) : Prop where
  stop_restart : ∀ a, a ∈ h.stopApps → a ∉ h.restartApps
  stop_procs : ∀ p, c.app p ∈ h.stopApps → p ∉ h.restartProcs ∧ p ∉ h.continueProcs
  restart_procs : ∀ p, c.app p ∈ h.restartApps → c.seq p = true → p ∉ h.restartProcs ∧ p ∉ h.continueProcs
  proc_continue : ∀ p, p ∈ h.restartProcs → p ∉ h.continueProcs
  nodupS : h.stopApps.Nodup
  nodupRA : h.restartApps.Nodup
  nodupRP : h.restartProcs.Nodup
  nodupC : h.continueProcs.Nodup

theorem excl_init (c : Cfg) : Excl c {} := by
  constructor <;> simp

theorem addJob_excl (c : Cfg) (h : St) (s : Strategy) (p : Nat) (hx : Excl c h) : Excl c (addJob c h s p) := by
  obtain ⟨h1, h2, h3, h4, n1, n2, n3, n4⟩ := hx
  cases s
  · -- CONTINUE
    simp only [addJob, addContinue]
    repeat' split
    all_goals first | exact ⟨h1, h2, h3, h4, n1, n2, n3, n4⟩ | skip
    refine ⟨h1, ?_, ?_, ?_, n1, n2, n3, nodup_ins _ _ n4⟩ <;> simp only [mem_ins] <;> grind
  · -- RESTART_PROCESS
    simp only [addJob, addRestartProc]
    repeat' split
    all_goals first | exact ⟨h1, h2, h3, h4, n1, n2, n3, n4⟩ | skip
    refine ⟨h1, ?_, ?_, ?_, n1, n2, nodup_ins _ _ n3, nodup_del _ _ n4⟩ <;> simp only [mem_ins, mem_del] <;> grind
  · -- STOP_APPLICATION
    simp only [addJob, addStop]
    refine ⟨?_, ?_, ?_, ?_, nodup_ins _ _ n1, nodup_del _ _ n2, n3.filter _, n4.filter _⟩ <;>
      simp only [mem_ins, mem_del, List.mem_filter] <;> grind
  · -- RESTART_APPLICATION
    simp only [addJob, addRestartApp]
    split
    · exact ⟨h1, h2, h3, h4, n1, n2, n3, n4⟩
    · refine ⟨?_, ?_, ?_, ?_, n1, nodup_ins _ _ n2, n3.filter _, n4.filter _⟩ <;>
        simp only [mem_ins, List.mem_filter] <;> grind
  · exact ⟨h1, h2, h3, h4, n1, n2, n3, n4⟩
  · exact ⟨h1, h2, h3, h4, n1, n2, n3, n4⟩

theorem addDefault_excl (c : Cfg) (h : St) (p : Nat) (st : Bool) (hx : Excl c h) : Excl c (addDefault c h p st) := by
  unfold addDefault
  simp only
  split
  · exact addJob_excl _ _ _ _ (addJob_excl _ _ _ _ hx)
  · exact addJob_excl _ _ _ _ hx

theorem foldDefault_excl (c : Cfg) (l : List (Nat × Bool)) (h : St) (hx : Excl c h) :
    Excl c (l.foldl (fun h x => addDefault c h x.1 x.2) h) := by
  induction l generalizing h with
  | nil => exact hx
  | cons x t ih => exact ih _ (addDefault_excl _ _ _ _ hx)

theorem trigger_excl (c : Cfg) (h : St) (busy : List Nat) (hx : Excl c h) : Excl c (trigger c h busy).1 := by
  obtain ⟨h1, h2, h3, h4, n1, n2, n3, n4⟩ := hx
  simp only [trigger]
  refine ⟨?_, ?_, ?_, ?_, n1.filter _, n2.filter _, n3.filter _, by simp⟩ <;> simp only [List.mem_filter] <;> grind

theorem step_excl (c : Cfg) (h : St) (op : Op) (hx : Excl c h) : Excl c (step c h op).1 := by
  cases op with
  | addJob s p => exact addJob_excl _ _ _ _ hx
  | addDefault p st => exact addDefault_excl _ _ _ _ hx
  | trigger busy => exact trigger_excl _ _ _ hx
  | abort => exact excl_init c
  | crash m cr f p st busy =>
    simp only [step]
    split
    · exact hx
    · exact hx
    · exact hx
    · exact trigger_excl _ _ _ (addDefault_excl _ _ _ _ hx)
  | lost m w failed withJob busy =>
    simp only [step]
    split
    · split
      · exact hx
      · exact trigger_excl _ _ _ (foldDefault_excl _ _ _ hx)
    · exact hx

theorem foldl_excl (c : Cfg) (ops : List Op) (h : St) (hx : Excl c h) :
    Excl c (ops.foldl (fun h op => (step c h op).1) h) := by
  induction ops generalizing h with
  | nil => exact hx
  | cons op t ih => exact ih _ (step_excl _ _ _ hx)

theorem after_excl (c : Cfg) (ops : List Op) : Excl c (after c ops) := foldl_excl c ops {} (excl_init c)

/-! ### Pending notifications -/

/-- some process of application `a` has a pending notification with strategy `s` -/
def N (c : Cfg) (P : List Note) (s : Strategy) (a : Nat) : Prop := ∃ p, (s, p) ∈ P ∧ c.app p = a

theorem notified_iff (c : Cfg) (P : List Note) (s : Strategy) (a : Nat) : notified c P s a = true ↔ N c P s a := by
  simp only [notified, N, List.any_eq_true, Bool.and_eq_true, beq_iff_eq]
  constructor
  · rintro ⟨⟨s', p⟩, hm, h1, h2⟩; exact ⟨p, by simp_all, h2⟩
  · rintro ⟨p, hm, h2⟩; exact ⟨(s, p), hm, rfl, h2⟩

theorem N_append (c : Cfg) (P Q : List Note) (s : Strategy) (a : Nat) : N c (P ++ Q) s a ↔ N c P s a ∨ N c Q s a := by
  simp only [N, List.mem_append]; grind

theorem N_nil (c : Cfg) (s : Strategy) (a : Nat) : ¬ N c [] s a := by simp [N]

theorem N_single (c : Cfg) (s' : Strategy) (p : Nat) (s : Strategy) (a : Nat) :
    N c [(s', p)] s a ↔ s' = s ∧ c.app p = a := by
  simp only [N, List.mem_singleton, Prod.mk.injEq]; grind

theorem mem_deferred (c : Cfg) (busy : List Nat) (P : List Note) (s : Strategy) (p : Nat) :
    (s, p) ∈ deferred c busy P ↔ (s, p) ∈ P ∧ c.app p ∈ busy ∧ s ≠ .cont := by
  simp [deferred]

theorem N_deferred (c : Cfg) (busy : List Nat) (P : List Note) (s : Strategy) (a : Nat) :
    N c (deferred c busy P) s a ↔ N c P s a ∧ a ∈ busy ∧ s ≠ .cont := by
  simp only [N, mem_deferred]; grind

/-- The job sets are the closed form of the pending notifications `P`. -/
structure Rep (c : Cfg) (h : St) (P : List Note) : Prop where
  s : ∀ a, a ∈ h.stopApps ↔ N c P .stopApplication a
  ra : ∀ a, a ∈ h.restartApps ↔ ¬ N c P .stopApplication a ∧ N c P .restartApplication a
  rp : ∀ p, p ∈ h.restartProcs ↔
        (Strategy.restartProcess, p) ∈ P ∧ ¬ N c P .stopApplication (c.app p)
          ∧ ¬ (N c P .restartApplication (c.app p) ∧ c.seq p = true)
  ct : ∀ p, p ∈ h.continueProcs ↔
        (Strategy.cont, p) ∈ P ∧ (Strategy.restartProcess, p) ∉ P ∧ ¬ N c P .stopApplication (c.app p)
          ∧ ¬ (N c P .restartApplication (c.app p) ∧ c.seq p = true)

theorem rep_init (c : Cfg) : Rep c {} [] := by
  constructor <;> simp [N]

theorem addJob_rep (c : Cfg) (h : St) (P : List Note) (s : Strategy) (p : Nat) (hr : Rep c h P) :
    Rep c (addJob c h s p) (P ++ [(s, p)]) := by
  obtain ⟨r1, r2, r3, r4⟩ := hr
  cases s
  · -- CONTINUE
    simp only [addJob, addContinue]
    repeat' split
    all_goals
      constructor <;> intros <;>
        simp only [mem_ins, N_append, N_single, List.mem_append, List.mem_singleton, Prod.mk.injEq] <;> grind
  · -- RESTART_PROCESS
    simp only [addJob, addRestartProc]
    repeat' split
    all_goals
      constructor <;> intros <;>
        simp only [mem_ins, mem_del, N_append, N_single, List.mem_append, List.mem_singleton, Prod.mk.injEq] <;> grind
  · -- STOP_APPLICATION
    simp only [addJob, addStop]
    constructor <;> intros <;>
      simp only [mem_ins, mem_del, List.mem_filter, N_append, N_single, List.mem_append, List.mem_singleton,
        Prod.mk.injEq, decide_eq_true_eq] <;> grind
  · -- RESTART_APPLICATION
    simp only [addJob, addRestartApp]
    split
    all_goals
      constructor <;> intros <;>
        simp only [mem_ins, List.mem_filter, N_append, N_single, List.mem_append, List.mem_singleton,
          Prod.mk.injEq, decide_eq_true_eq] <;> grind
  · -- SHUTDOWN
    simp only [addJob]
    constructor <;> intros <;>
      simp only [N_append, N_single, List.mem_append, List.mem_singleton, Prod.mk.injEq] <;> grind
  · -- RESTART
    simp only [addJob]
    constructor <;> intros <;>
      simp only [N_append, N_single, List.mem_append, List.mem_singleton, Prod.mk.injEq] <;> grind

theorem promotes_eq (c : Cfg) (p : Nat) (st : Bool) : promotes c p st = promoted c p st := by
  simp only [promotes, promoted]
  cases h : decide (c.strat p = .restartProcess) <;> simp_all

theorem addDefault_rep (c : Cfg) (h : St) (P : List Note) (p : Nat) (st : Bool) (hr : Rep c h P) :
    Rep c (addDefault c h p st) (P ++ defaultNotes c p st) := by
  unfold addDefault defaultNotes
  simp only [promotes_eq]
  split
  · have := addJob_rep c _ _ .restartApplication p (addJob_rep c h P (c.strat p) p hr)
    simpa [List.append_assoc] using this
  · simpa using addJob_rep c h P (c.strat p) p hr

theorem foldDefault_rep (c : Cfg) (l : List (Nat × Bool)) (h : St) (P : List Note) (hr : Rep c h P) :
    Rep c (l.foldl (fun h x => addDefault c h x.1 x.2) h) (P ++ l.flatMap (fun x => defaultNotes c x.1 x.2)) := by
  induction l generalizing h P with
  | nil => simpa using hr
  | cons x t ih =>
    have := ih _ _ (addDefault_rep c h P x.1 x.2 hr)
    simpa [List.append_assoc] using this

theorem trigger_rep (c : Cfg) (h : St) (P : List Note) (busy : List Nat) (hr : Rep c h P) :
    Rep c (trigger c h busy).1 (deferred c busy P) := by
  obtain ⟨r1, r2, r3, r4⟩ := hr
  simp only [trigger]
  constructor <;> intros <;>
    simp only [List.mem_filter, N_deferred, mem_deferred, decide_eq_true_eq, List.not_mem_nil] <;> grind

theorem step_rep (c : Cfg) (h : St) (P : List Note) (op : Op) (hr : Rep c h P) :
    Rep c (step c h op).1 (pend c P op) := by
  cases op with
  | addJob s p => simpa [step, pend, triggers, incoming] using addJob_rep c h P s p hr
  | addDefault p st => simpa [step, pend, triggers, incoming] using addDefault_rep c h P p st hr
  | trigger busy => simpa [step, pend, triggers, incoming] using trigger_rep c h P busy hr
  | abort => simpa [step, pend, abort] using rep_init c
  | crash m cr f p st busy =>
    simp only [step, pend, triggers, incoming]
    cases hc : crashAction m cr f (c.strat p) <;> simp only [reduceCtorEq, if_false, if_true, List.append_nil]
    · exact hr
    · exact hr
    · exact hr
    · exact trigger_rep _ _ _ _ (addDefault_rep _ _ _ _ _ hr)
  | lost m w failed withJob busy =>
    simp only [step, pend, triggers, incoming]
    cases hm : handsLost m w
    · simpa using hr
    · simp only [if_true, true_and]
      cases hl : leftToHandler failed withJob with
      | nil => simpa using hr
      | cons x t =>
        simp only [ne_eq, reduceCtorEq, not_false_eq_true, if_true]
        exact trigger_rep _ _ _ _ (foldDefault_rep _ _ _ _ hr)

theorem foldl_rep (c : Cfg) (ops : List Op) (h : St) (P : List Note) (hr : Rep c h P) :
    Rep c (ops.foldl (fun h op => (step c h op).1) h) (ops.foldl (pend c) P) := by
  induction ops generalizing h P with
  | nil => exact hr
  | cons op t ih => exact ih _ _ (step_rep _ _ _ _ hr)

theorem after_rep (c : Cfg) (ops : List Op) : Rep c (after c ops) (pendAfter c ops) :=
  foldl_rep c ops {} [] (rep_init c)

/-! ### The specification functions in terms of `N` -/

theorem top_stop (c : Cfg) (P : List Note) (a : Nat) :
    top c P a = some .stopApplication ↔ N c P .stopApplication a := by
  simp only [top, ← notified_iff]; repeat' split
  all_goals simp_all

theorem top_restartApp (c : Cfg) (P : List Note) (a : Nat) :
    top c P a = some .restartApplication ↔ ¬ N c P .stopApplication a ∧ N c P .restartApplication a := by
  simp only [top, ← notified_iff]; repeat' split
  all_goals simp_all

theorem top_restartProc (c : Cfg) (P : List Note) (a : Nat) :
    top c P a = some .restartProcess ↔
      ¬ N c P .stopApplication a ∧ ¬ N c P .restartApplication a ∧ N c P .restartProcess a := by
  simp only [top, ← notified_iff]; repeat' split
  all_goals simp_all

theorem top_cont (c : Cfg) (P : List Note) (a : Nat) :
    top c P a = some .cont ↔
      ¬ N c P .stopApplication a ∧ ¬ N c P .restartApplication a ∧ ¬ N c P .restartProcess a ∧ N c P .cont a := by
  simp only [top, ← notified_iff]; repeat' split
  all_goals simp_all

theorem top_none (c : Cfg) (P : List Note) (a : Nat) :
    top c P a = none ↔
      ¬ N c P .stopApplication a ∧ ¬ N c P .restartApplication a ∧ ¬ N c P .restartProcess a ∧ ¬ N c P .cont a := by
  simp only [top, ← notified_iff]; repeat' split
  all_goals simp_all

theorem top_handled (c : Cfg) (P : List Note) (a : Nat) (s : Strategy) (h : top c P a = some s) : s.handled = true := by
  simp only [top] at h; repeat' split at h
  all_goals first | (injection h with h; subst h; rfl) | cases h

/-! ### Outputs of `trigger` -/

theorem trigger_stopApp (c : Cfg) (h : St) (busy : List Nat) (a : Nat) :
    Out.stopApp a ∈ (trigger c h busy).2 ↔ a ∈ h.stopApps ∧ a ∉ busy := by
  simp [trigger]

theorem trigger_restartApp (c : Cfg) (h : St) (busy : List Nat) (a : Nat) :
    Out.restartApp a ∈ (trigger c h busy).2 ↔ a ∈ h.restartApps ∧ a ∉ busy := by
  simp [trigger]

theorem trigger_restartProc (c : Cfg) (h : St) (busy : List Nat) (p : Nat) :
    Out.restartProc p ∈ (trigger c h busy).2 ↔ p ∈ h.restartProcs ∧ c.app p ∉ busy := by
  simp [trigger]

theorem trigger_nothing (c : Cfg) (h : St) (busy : List Nat) (p : Nat) :
    Out.nothing p ∈ (trigger c h busy).2 ↔ p ∈ h.continueProcs := by
  simp [trigger]

theorem trigger_no_fsm (c : Cfg) (h : St) (busy : List Nat) :
    Out.fsmRestart ∉ (trigger c h busy).2 ∧ Out.fsmShutdown ∉ (trigger c h busy).2 := by
  simp [trigger]

/-- same members in each of the four sets -/
def SetEq (h h' : St) : Prop :=
  (∀ a, a ∈ h.stopApps ↔ a ∈ h'.stopApps) ∧ (∀ a, a ∈ h.restartApps ↔ a ∈ h'.restartApps)
  ∧ (∀ p, p ∈ h.restartProcs ↔ p ∈ h'.restartProcs) ∧ (∀ p, p ∈ h.continueProcs ↔ p ∈ h'.continueProcs)

theorem N_congr (c : Cfg) (P Q : List Note) (hPQ : ∀ n, n ∈ P ↔ n ∈ Q) (s : Strategy) (a : Nat) :
    N c P s a ↔ N c Q s a := by
  simp only [N, hPQ]

theorem rep_setEq (c : Cfg) (h h' : St) (P Q : List Note) (hr : Rep c h P) (hr' : Rep c h' Q)
    (hPQ : ∀ n, n ∈ P ↔ n ∈ Q) : SetEq h h' := by
  obtain ⟨r1, r2, r3, r4⟩ := hr
  obtain ⟨q1, q2, q3, q4⟩ := hr'
  have hN := N_congr c P Q hPQ
  refine ⟨fun a => ?_, fun a => ?_, fun p => ?_, fun p => ?_⟩
  · rw [r1, q1, hN]
  · rw [r2, q2, hN, hN]
  · rw [r3, q3, hN, hN, hPQ]
  · rw [r4, q4, hN, hN, hPQ, hPQ]

theorem trigger_out_congr (c : Cfg) (h h' : St) (busy : List Nat) (he : SetEq h h') (o : Out) :
    o ∈ (trigger c h busy).2 ↔ o ∈ (trigger c h' busy).2 := by
  obtain ⟨e1, e2, e3, e4⟩ := he
  cases o with
  | stopApp a => rw [trigger_stopApp, trigger_stopApp, e1]
  | restartApp a => rw [trigger_restartApp, trigger_restartApp, e2]
  | restartProc p => rw [trigger_restartProc, trigger_restartProc, e3]
  | nothing p => rw [trigger_nothing, trigger_nothing, e4]
  | fsmRestart => simp [(trigger_no_fsm c h busy).1, (trigger_no_fsm c h' busy).1]
  | fsmShutdown => simp [(trigger_no_fsm c h busy).2, (trigger_no_fsm c h' busy).2]

end Supv.Rfh
