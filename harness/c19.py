""" C19 — start predictions are side-effect free and match a real start.
    Proof obligations: Supv.Props.C19.  Correspondence: the prediction of the real StarterModel against the Lean model of it
    (`testStartApplication`, driver op `teststart`), then the actual start played with every process starting normally, in
    lock-step as in the other commander checks.  Judges on the implementation: (a) the complete observable snapshot (process
    states and per-instance information, application states, instance loads, jobs in progress, emitted messages) is identical
    before and after any number of predictions; (b) the predicted placement is the placement of the actual start. """
import copy
from cmdh import *
from core import derive_seeds


def snapshot(c):
    """ every status Supvisors reports: deep copy of what the status XML-RPCs read """
    s = c.s
    procs = {}
    for an, app in s.context.applications.items():
        for pn, p in app.processes.items():
            procs[f'{an}:{pn}'] = (int(p.state), p.forced_state, p.forced_reason, bool(p.expected_exit), sorted(p.running_identifiers),
                                   copy.deepcopy({k: {kk: vv for kk, vv in v.items()} for k, v in p.info_map.items()}), p.extra_args)
    apps = {an: (app.state.name, bool(app.major_failure), bool(app.minor_failure)) for an, app in s.context.applications.items()}
    loads = {i: st.get_load() for i, st in s.context.instances.items()}
    jobs = (s.starter.in_progress(), s.stopper.in_progress(), sorted(s.starter.get_application_job_names()),
            sorted(s.stopper.get_application_job_names()), s.starter_model.in_progress())
    return {'processes': procs, 'applications': apps, 'loads': loads, 'jobs': jobs, 'emitted': list(c.emitted)}


def diff_snap(a, b):
    out = []
    for k in a:
        if a[k] != b[k]:
            if isinstance(a[k], dict):
                for kk in a[k]:
                    if a[k][kk] != b[k].get(kk): out.append(f'{k}[{kk}]')
            else: out.append(k)
    return out


def prediction_items(c, result):
    items = []
    for r in result:
        p = c.pidx[f"{r['application_name']}:{r['process_name']}"]
        for ident in sorted(r['running_identifiers'], key=lambda x: c.ids.index(x)): items.append((p, f'{p}>{c.ids.index(ident)}'))
        if not r['running_identifiers'] and r['forced_reason'] == 'No resource available': items.append((p, f'{p}!'))
    return ','.join(x for _, x in sorted(items, key=lambda x: x[0]))


class PredCase(Case):
    """ a generated world (as the commander checks) in which predictions are requested, then the actual start is played """
    def run(self):
        rnd, s = self.rnd, self.s
        self.findings = []; self.predictions = 0; self.compared = 0
        # some activity first, so that loads / states are not the initial ones
        for _ in range(rnd.randint(0, 8)):
            T[0] += rnd.randint(1, 2 * UNIT)
            p = rnd.randrange(len(self.pinfo)); cfg = self.pinfo[p]; i = rnd.choice(cfg['known'])
            if not self.running[i]: continue
            ns = f"{cfg['aname']}:{cfg['name']}"; procx = s.context.get_process(ns)
            st = rnd.choice([0, 20, 20, 100, 200])
            if st == 20 and any(x != self.ids[i] for x in procx.running_identifiers): continue
            ev = event(cfg['aname'], cfg['name'], self.ids[i], st, True, T[0] / UNIT); ev['disabled'] = i in cfg['disabled']
            s.fsm.on_process_state_event(s.context.instances[self.ids[i]], ev)
            info = procx.info_map[self.ids[i]]
            self.record(f"event {i} {p} {st} 1 {int(info['event_time'] * UNIT)} {int(info['local_mtime'] * UNIT)}")
        if self.gen >= 4 and self.rnd2.random() < 0.35:
            # a forced state that hides the real one (e.g. a start given up on time-out while the process is STARTING somewhere): the
            # prediction must start from the REAL state of the process, as the actual start does
            cands = [(p, i) for p, cfg in enumerate(self.pinfo) for i in cfg['known'] if self.running[i]
                     and s.context.get_process(f"{cfg['aname']}:{cfg['name']}").info_map.get(self.ids[i], {}).get('state') in (10, 20)]
            if cands:
                p, i = self.rnd2.choice(cands); cfg = self.pinfo[p]
                procx = s.context.get_process(f"{cfg['aname']}:{cfg['name']}")
                T[0] += 1
                procx.force_state({'identifier': self.ids[i], 'state': 200, 'now_monotonic': T[0] / UNIT, 'spawnerr': 'start given up'})
                s.context.applications[cfg['aname']].update()
                self.record(f"force {p} {i} 200 {T[0]}")
        # predictions about single processes (`test_start_process`): side-effect freedom judged on the implementation
        if self.gen >= 4:
            procs_ = [(p, cfg) for p, cfg in enumerate(self.pinfo) if s.context.get_process(f"{cfg['aname']}:{cfg['name']}").stopped()]
            self.rnd2.shuffle(procs_)
            for p, cfg in procs_[:2]:
                procx = s.context.get_process(f"{cfg['aname']}:{cfg['name']}")
                strat = self.rnd2.choice(list(StartingStrategies))
                before = snapshot(self)
                try:
                    s.starter_model.test_start_processes(strat, [procx])
                except Exception as e:
                    self.findings.append((f'C19:exception:test_start_processes:{type(e).__name__}', f'test_start_processes({strat.name}, {procx.namespec}) raised {e!r}'))
                self.predictions += 1
                d = diff_snap(before, snapshot(self))
                if d: self.findings.append(('C19:side-effect:' + d[0].split('[')[0] + ':test_start_process', f'statuses changed by a process prediction ({procx.namespec}, {strat.name}): {d[:4]}'))
                self.emitted = []
        apps = [a for a in self.aidx if s.context.applications[a].stopped()]
        rnd.shuffle(apps)
        for aname in apps[:2]:
            app = s.context.applications[aname]
            if not app.stopped(): continue
            strat = rnd.choice(list(StartingStrategies))
            T[0] += rnd.randint(1, UNIT)
            before = snapshot(self)
            pred = None
            for _ in range(rnd.randint(1, 3)):
                r = s.starter_model.test_start_application(strat, app)
                self.predictions += 1
                items = prediction_items(self, r)
                if pred is not None and items != pred:
                    self.findings.append(('C19:prediction-not-repeatable', f'two predictions from the same situation differ: {pred} / {items}'))
                pred = items
            after = snapshot(self)
            d = diff_snap(before, after)
            if d: self.findings.append(('C19:side-effect:' + d[0].split('[')[0], f'statuses changed by a prediction: {d[:4]}'))
            self.lines.append(f"op {T[0]} teststart {self.aidx[aname]} {strat.value}"); self.obs.append(f'pred=[{pred}]')
            # the actual start from the same situation, every process starting normally
            jc = self.job_count
            s.starter.start_application(strat, app)
            self.record(f"startapp {self.aidx[aname]} {strat.value}")
            jid = jc if self.job_count > jc else -2
            placed = []; played = set(); guard = 0
            while guard < 60:
                guard += 1
                todo = [e for o in self.obs for e in o.split('out=[')[-1].split(']')[0].split(',') if e.startswith('start:') and e.split('@')[1].split('/')[0] == str(jid)]
                nxt = next((e for e in todo if e not in played), None)
                if nxt is None: break
                played.add(nxt)
                p, i = int(nxt.split(':')[1].split('>')[0]), int(nxt.split('>')[1].split('@')[0])
                placed.append((p, f'{p}>{i}'))
                cfg = self.pinfo[p]
                for st in [10, 20] + ([100] if cfg['wait_exit'] else []):
                    T[0] += rnd.randint(1, UNIT // 2)
                    ev = event(cfg['aname'], cfg['name'], self.ids[i], st, True, T[0] / UNIT); ev['disabled'] = i in cfg['disabled']
                    s.fsm.on_process_state_event(s.context.instances[self.ids[i]], ev)
                    info = s.context.get_process(f"{cfg['aname']}:{cfg['name']}").info_map[self.ids[i]]
                    self.record(f"event {i} {p} {st} 1 {int(info['event_time'] * UNIT)} {int(info['local_mtime'] * UNIT)}")
                if self.orphaned: break
            if self.orphaned: break
            noRes = [(int(e.split(':')[1]), f"{e.split(':')[1]}!") for o in self.obs[-(3 * len(played) + 2):] for e in o.split('out=[')[-1].split(']')[0].split(',')
                     if e.startswith('force:') and e.split(':')[3].startswith('1@') and e.split('@')[1] == str(jid)]
            real = ','.join(x for _, x in sorted(set(placed + noRes), key=lambda x: x[0]))
            self.compared += 1
            if real != pred:
                self.findings.append(('C19:prediction-differs-from-real-start',
                                      f'application {aname} strategy {strat.name}: predicted [{pred}] actual [{real}]'))
        return self


def run(chk):
    chk.regen(['constants', 'enum:StartingStrategies', 'ast:is_loading_valid'])
    chk.prove('Supv.Props.C19', extra_targets=['drv_cmd'])
    if chk.tier == 'thorough': chk.leanchecker(['Supv.Props.C19'])
    n = 600 if chk.tier == 'quick' else 12000
    stats = {'evaluations': 0, 'predictions': 0, 'compared': 0, 'nontrivial': set(), 'lines': 0}
    samples = []
    import cmdh
    seeds = corpus_cases('C19')
    seeds += derive_seeds(chk.seed, n)
    if True:
        orig = cmdh.Case
        cmdh.Case = PredCase
        try:
            for k in range(0, len(seeds), 500):
                for r in cmdh.run_cases(chk, seeds[k:k + 500]):
                    c = r['case']
                    stats['evaluations'] += 1; stats['lines'] += len(r['lines'])
                    stats['predictions'] += getattr(c, 'predictions', 0); stats['compared'] += getattr(c, 'compared', 0)
                    preds = [o for o in r['obs'] if o.startswith('pred=[')]
                    if any(o.count('>') >= 2 for o in preds): stats['nontrivial'].add(r['seed'])
                    base = {'case_seed': r['seed'], 'gen': r['gen'], 'how': './check C19 --replay <this file> regenerates the case from case_seed (and gen)'}
                    if r['exc']:
                        chk.reject(f"C19:exception:{tb_signature(r['exc'][1])}", f"the implementation raised {r['exc'][0]}", dict(base, traceback=r['exc'][1][-1500:]))
                    if r['diff']: chk.disagree('Cmd', dict(base, **r['diff']))
                    for sig, what in getattr(c, 'findings', []):
                        chk.reject(sig, what, dict(base, operations=[f'{l}  ->  {o}' for l, o in zip(r['lines'], r['obs']) if l.startswith('op') and ' info ' not in l][-25:]))
                    if not samples and preds:
                        samples.append({'case_seed': r['seed'], 'operations': [f'{l}  ->  {o}' for l, o in zip(r['lines'], r['obs']) if l.startswith('op') and ' info ' not in l][:12]})
        finally:
            cmdh.Case = orig
    chk.coverage.update({
        'evaluations': stats['evaluations'], 'distinct_nontrivial': len(stats['nontrivial']),
        'rule': 'generated worlds (as the commander checks) with some prior process activity; for up to two stopped applications: 1-3 '
                'predictions (repeatability + full snapshot before/after), then the actual start with every process starting normally; '
                'non-trivial = a prediction placing at least two processes; distinct = distinct case seed',
        'samples': samples, 'predictions_requested': stats['predictions'], 'predictions_compared_with_an_actual_start': stats['compared'],
        'recorded_lines': stats['lines'], 'traces_validated_against_impl': stats['evaluations'], 'exhaustive': False})
    chk.trusted += ['harness/c19.py + harness/cmdh.py + harness/simenv.py (real StarterModel / Starter; deep snapshot of every reported status)',
                    'lean/Supv/Drv/Cmd.lean (teststart op)']
    chk.assumptions += ['"when every process starts normally" = STARTING then RUNNING (then an expected EXITED with wait_exit) reported by the '
                        'instance asked, in request order']


def replay(chk, path):
    import cmdh
    c = json.load(open(path)); r0 = c.get('replay', c)
    orig = cmdh.Case; cmdh.Case = PredCase
    try:
        for r in cmdh.run_cases(chk, [(r0['case_seed'], r0.get('gen', 0))]):
            if r['diff']: chk.disagree('Cmd', r['diff'])
            for sig, what in getattr(r['case'], 'findings', []): chk.reject(sig, what, {'case_seed': r['seed'], 'gen': r['gen']})
    finally:
        cmdh.Case = orig
    chk.coverage.update({'evaluations': 1, 'distinct_nontrivial': 0, 'rule': 'replay', 'samples': [r0['case_seed']]})
