""" C06 — running failure strategies: the real RunningFailureHandler inside a real instance (real Context, Starter, Stopper,
    FiniteStateMachine state classes) against the Lean model `Supv.Rfh`, judged by the Lean specification `Supv.Spec.C06`
    (driver `drv_c06`).

    Two variants of every generated case:
      * isolated — what the handler orders (`stopper.stop_application(a, False)`, `stopper.default_restart_application(a, False)`,
        `stopper.default_restart_process(p, False)`) is recorded and NOT executed; Starter/Stopper only hold the jobs the
        harness asks for (user requests), so that "busy" is controlled;
      * live — the orders are recorded and then executed by the real Stopper/Starter: the jobs they create make the
        application busy for the next notifications, process events / ticks / periodic checks make them progress.
"""
import os, random, itertools, json
from simenv import *
from core import shrink, derive_seeds
from supvisors.internal_com.mapper import LocalNetwork
from supvisors.application import ApplicationRules, ApplicationStatus
from supvisors.statemachine import DistributionState, OperationState, ConciliationState
from supvisors.strategy import conciliate_conflicts
from supvisors.ttypes import (SupvisorsInstanceStates as IS, RunningFailureStrategies as RFS, StartingStrategies,
                              ConciliationStrategies)

SNAME = {0: 'STOPPED', 10: 'STARTING', 20: 'RUNNING', 30: 'BACKOFF', 40: 'STOPPING', 100: 'EXITED', 200: 'FATAL', 1000: 'UNKNOWN'}
WCLS = {'D': DistributionState, 'O': OperationState, 'C': ConciliationState}
HANDLED = ['CONTINUE', 'RESTART_PROCESS', 'STOP_APPLICATION', 'RESTART_APPLICATION']
ALL_STRATS = HANDLED + ['SHUTDOWN', 'RESTART']


def full_info(app, name, state, t):
    return {'group': app, 'name': name, 'state': state, 'statename': SNAME[state], 'start': 0, 'stop': 0, 'now': int(t), 'pid': 0,
            'description': '', 'spawnerr': '', 'expected': True, 'startsecs': 1, 'stopwaitsecs': 5, 'extra_args': '',
            'disabled': False, 'now_monotonic': float(t), 'start_monotonic': 0.0, 'stop_monotonic': 0.0,
            'program_name': name, 'process_index': 0, 'has_stdout': False, 'has_stderr': False}


def csv(l):
    l = sorted(l)
    return ','.join(map(str, l)) if l else '-'


# ---------------------------------------------------------------------------------------------------- configurations
def gen_config(rnd, variant):
    """ a world: instances, applications (managed or not), processes with start sequence, strategy, initial placement """
    n = rnd.randint(2, 4)
    apps = []; procs = []
    for a in range(rnd.randint(1, 3)):
        apps.append({'managed': rnd.random() < 0.85, 'start_sequence': rnd.randint(0, 2), 'stop_sequence': rnd.randint(0, 2),
                     'starting_strategy': rnd.choice(['CONFIG', 'LESS_LOADED', 'MOST_LOADED'])})
        for k in range(rnd.randint(1, 4)):
            procs.append({'app': a, 'seq': rnd.choice([0, 0, 1, 1, 2]), 'stopseq': rnd.randint(0, 2),
                          'strat': rnd.choice(HANDLED * 3 + ['SHUTDOWN', 'RESTART']),
                          # where it runs at the beginning (None: stopped everywhere); biased to instance 1 (often lost)
                          'init': rnd.choice([None, 1, 1, rnd.randrange(n)])})
    return {'n': n, 'apps': apps, 'procs': procs, 'variant': variant, 'master': rnd.random() < 0.7}


EXH_CONFIG = {'n': 2, 'variant': 'isolated',
              'apps': [{'managed': True, 'start_sequence': 1, 'stop_sequence': 1, 'starting_strategy': 'CONFIG'}] * 2,
              'procs': [{'app': 0, 'seq': 1, 'stopseq': 0, 'strat': 'CONTINUE', 'init': None},
                        {'app': 0, 'seq': 0, 'stopseq': 0, 'strat': 'CONTINUE', 'init': None},
                        {'app': 1, 'seq': 1, 'stopseq': 0, 'strat': 'CONTINUE', 'init': None},
                        {'app': 1, 'seq': 0, 'stopseq': 0, 'strat': 'CONTINUE', 'init': None}]}


# ---------------------------------------------------------------------------------------------------- the real instance
class World:
    """ one real instance loaded with the applications / processes of `cfg`; every operation is recorded as driver lines """

    def __init__(self, cfg):
        self.cfg = cfg; self.live = cfg['variant'] == 'live'
        T[0] = 100 * UNIT
        n = self.n = cfg['n']
        s = self.s = Sim(Net(), 1, n, {'conciliation_strategy': 'USER'})
        self.ids = list(s.mapper.instances)
        s.mapper.nodes = {}
        for i, ident in enumerate(self.ids):
            sid = s.mapper.instances[ident]
            sid.local_view = LocalNetwork(s.logger); sid.local_view.machine_id = f'node{i}'
            s.mapper.nodes.setdefault(f'node{i}', []).append(ident)
            s.context.instances[ident]._state = IS.RUNNING
            s.state_modes.local_state_modes.instance_states[ident] = IS.RUNNING
        # applications with generated rules, processes loaded through the real Context, process rules set afterwards
        self.anames = [f'app{a}' for a in range(len(cfg['apps']))]
        for a, ac in enumerate(cfg['apps']):
            rules = ApplicationRules(s); rules.managed = ac['managed']
            rules.start_sequence = ac['start_sequence']; rules.stop_sequence = ac['stop_sequence']
            rules.starting_strategy = StartingStrategies[ac['starting_strategy']]
            s.context.applications[self.anames[a]] = ApplicationStatus(self.anames[a], rules, s)
        self.pnames = []; counters = {}
        for pc in cfg['procs']:
            k = counters.get(pc['app'], 0); counters[pc['app']] = k + 1
            self.pnames.append((self.anames[pc['app']], f'p{k}'))
        for i, ident in enumerate(self.ids):
            status = s.context.instances[ident]
            status._state = IS.CHECKING
            s.context.load_processes(status, [full_info(an, pn, 20 if pc['init'] == i else 0, T[0] / UNIT)
                                              for (an, pn), pc in zip(self.pnames, cfg['procs'])])
            status._state = IS.RUNNING
        self.procs = []
        for (an, pn), pc in zip(self.pnames, cfg['procs']):
            proc = s.context.applications[an].processes[pn]
            proc.rules.start_sequence = pc['seq']; proc.rules.stop_sequence = pc['stopseq']
            proc.rules.running_failure_strategy = RFS[pc['strat']]
            proc.rules.expected_load = 0; proc.rules.identifiers = ['*']
            self.procs.append(proc)
        self.apps = [s.context.applications[an] for an in self.anames]
        for app in self.apps:
            app.update_sequences(); app.update()
        self.pidx = {p.namespec: k for k, p in enumerate(self.procs)}
        self.aidx = {an: a for a, an in enumerate(self.anames)}
        # declarations for the model: membership of the start sequence is computed from the CONFIGURATION
        self.records = [('new', None)]
        for k, pc in enumerate(cfg['procs']):
            seq = cfg['apps'][pc['app']]['managed'] and pc['seq'] > 0
            self.records.append((f"proc {k} {pc['app']} {int(seq)} {pc['strat']}", None))
        self.master = True
        self.frames = []; self.depth = 0
        self.requests = {'start': 0, 'stop': 0}
        self.stats = {'deferred': 0, 'promotions': 0, 'multi_strategy': 0, 'handed': 0, 'nested_crash': 0, 'actions': 0}
        self.err = None
        self._install()
        self.set_master(cfg.get('master', True))

    # ------------------------------------------------------------------ instrumentation (from outside /repo)
    def _install(self):
        s = self.s; fh = s.failure_handler
        s.rpc_handler.send_start_process = lambda ident, namespec, extra: self._req('start')
        s.rpc_handler.send_stop_process = lambda ident, namespec: self._req('stop')
        s.rpc_handler.send_process_state_event = lambda payload: None
        s.fsm.on_restart = lambda: self._out('fsmRestart')
        s.fsm.on_shutdown = lambda: self._out('fsmShutdown')
        # the three orders of the handler (second positional argument False); nested calls of a call-through are not orders
        for name, tok, index in [('stop_application', 'stopApp', self._a), ('default_restart_application', 'restartApp', self._a),
                                 ('default_restart_process', 'restartProc', self._p)]:
            orig = getattr(s.stopper, name)
            def sink(obj, *args, _orig=orig, _tok=tok, _index=index, **kw):
                if args == (False,) and not kw and self.depth == 0:
                    self._out(f'{_tok}:{_index(obj)}')
                    if not self.live: return None
                    self.depth += 1
                    try: return _orig(obj, *args)
                    finally: self.depth -= 1
                return _orig(obj, *args, **kw)
            setattr(s.stopper, name, sink)
        orig_default = fh.add_default_job
        def add_default(process):
            stopped = s.context.applications[process.application_name].stopped()
            orig_default(process)
            self._prim('default', (self.pidx[process.namespec], stopped))
        fh.add_default_job = add_default
        orig_trigger = fh.trigger_jobs
        def trigger():
            busy = sorted(self.aidx[x] for x in fh.get_application_job_names())
            top = self.frames[-1]
            if top['kind'] == 'prims': self.frames.append({'kind': 'trigger', 'outs': [], 'nested': []})
            try: orig_trigger()
            finally:
                if top['kind'] == 'prims':
                    f = self.frames.pop()
                    top['recs'] += f['nested']
                    top['recs'].append((f"trigger {csv(busy)}", self.obs(f['outs'], None)))
                    self._count_trigger(busy, f['outs'])
                else:
                    top['busy'] = busy
        fh.trigger_jobs = trigger
        # crash dispatch: every call of the FSM handler (nested ones included) is one `crash` record
        orig_ctx = s.context.on_process_state_event
        def ctx_event(status, event):
            process = orig_ctx(status, event)
            f = self.frames[-1]
            if f['kind'] == 'crash' and 'p' not in f:
                ns = f"{event['group']}:{event['name']}"
                f['p'] = self.pidx.get(ns)
                f['crashed'] = bool(process.crashed()) if process else False
                f['forced'] = (process.forced_state is not None) if process else False
            return process
        s.context.on_process_state_event = ctx_event
        orig_fsm_event = s.fsm.on_process_state_event
        def fsm_event(status, event):
            nested = len(self.frames) > 1
            entry_sets = self.sets()
            self.frames.append({'kind': 'crash', 'outs': [], 'handed': None, 'busy': None, 'nested': []})
            try: orig_fsm_event(status, event)
            finally:
                f = self.frames.pop()
                rec = self._crash_record(f, entry_sets if nested else None)
                parent = self.frames[-1]
                if rec is not None:
                    if nested: self.stats['nested_crash'] += 1
                    (parent['nested'] if parent['kind'] != 'prims' else parent['recs']).extend(f['nested'] + [rec])
        s.fsm.on_process_state_event = fsm_event
        # Starter / Stopper are told about the invalidation one after the other: what each holds when it is told
        for cmd in (s.starter, s.stopper):
            orig_inv = cmd.on_instances_invalidation
            def inv(identifiers, failed, _cmd=cmd, _orig=orig_inv):
                f = next((x for x in reversed(self.frames) if x['kind'] == 'lost'), None)
                if f is not None: f['withjob'] |= self._with_job(_cmd, identifiers)
                return _orig(identifiers, failed)
            cmd.on_instances_invalidation = inv

    def _a(self, app): return self.aidx[app.application_name]
    def _p(self, proc): return self.pidx[proc.namespec]
    def _req(self, kind): self.requests[kind] += 1
    def _out(self, tok): self.frames[-1]['outs'].append(tok)

    def _prim(self, kind, args):
        top = self.frames[-1]
        if top['kind'] == 'prims':
            p, stopped = args
            top['recs'].append((f"default {p} {int(stopped)}", self.obs([], None)))
        else:
            if top.get('handed') is None: top['handed'] = []
            top['handed'].append(args)

    def _with_job(self, cmd, identifiers):
        """ the processes `cmd` keeps for itself: a pending request on a lost instance, or a planned command """
        res = set()
        jobs = list(cmd.current_jobs.values()) + [j for m in cmd.planned_jobs.values() for j in m.values()]
        for job in jobs:
            for c in job.current_jobs:
                if c.identifier in identifiers: res.add(self.pidx[c.process.namespec])
            for c in sum(job.planned_jobs.values(), []):
                res.add(self.pidx[c.process.namespec])
        return res

    def _crash_record(self, f, entry_sets):
        if f.get('p') is None: return None      # event for an unknown process: nothing can be asked of it
        fh = self.s.failure_handler
        p = f['p']
        if f['handed']:
            stopped = f['handed'][0][1]; handed = [x[0] for x in f['handed']]
        else:
            stopped = self.apps[self.cfg['procs'][p]['app']].stopped(); handed = None
        busy = f['busy'] if f['busy'] is not None else sorted(self.aidx[x] for x in fh.get_application_job_names())
        line = f"crash {int(self.master)} {int(f['crashed'])} {int(f['forced'])} {p} {int(stopped)} {csv(busy)}"
        if entry_sets is not None and not f['outs'] and handed is None:
            return None                          # nested event that did nothing: not recorded
        if handed is not None:
            self.stats['handed'] += 1; self._count_trigger(busy, f['outs'])
        return (line, self.obs(f['outs'], handed, entry_sets))

    def _count_trigger(self, busy, outs):
        fh = self.s.failure_handler
        if any(self.aidx[a.application_name] in busy for a in list(fh.stop_application_jobs) + list(fh.restart_application_jobs)) \
                or any(self.cfg['procs'][self.pidx[p.namespec]]['app'] in busy for p in fh.restart_process_jobs):
            self.stats['deferred'] += 1
        self.stats['actions'] += len(outs)

    # ------------------------------------------------------------------ observation
    def sets(self):
        fh = self.s.failure_handler
        return (csv(self._a(a) for a in fh.stop_application_jobs), csv(self._a(a) for a in fh.restart_application_jobs),
                csv(self._p(p) for p in fh.restart_process_jobs), csv(self._p(p) for p in fh.continue_process_jobs))

    def obs(self, outs, handed, sets=None):
        s, ra, rp, c = sets or self.sets()
        order = {'stopApp': 0, 'restartApp': 1, 'restartProc': 2, 'fsmRestart': 4, 'fsmShutdown': 5}
        toks = sorted(outs, key=lambda t: (order[t.split(':')[0]], int(t.split(':')[1]) if ':' in t else 0))
        return (f"S={s} RA={ra} RP={rp} C={c} out={','.join(toks) if toks else '-'}"
                f" handed={'none' if handed is None else csv(handed)}")

    # ------------------------------------------------------------------ helpers
    def set_master(self, flag):
        self.master = flag
        ident = self.ids[0] if flag else self.ids[1]
        for sm in self.s.state_modes.instance_state_modes.values():
            sm.master_identifier = ident

    def running_instances(self):
        return [i for i, ident in enumerate(self.ids) if self.s.context.instances[ident].state == IS.RUNNING]

    def inflight(self):
        s = self.s
        return [(self.pidx[c.process.namespec], self.ids.index(c.identifier), kind)
                for kind, cmd in (('start', s.starter), ('stop', s.stopper))
                for j in cmd.current_jobs.values() for c in j.current_jobs if c.identifier in self.ids]

    def event_payload(self, i, p, state, expected, forced):
        an, pn = self.pnames[p]; ident = self.ids[i]
        ev = {'identifier': ident, 'nick_identifier': ident, 'group': an, 'name': pn, 'state': state, 'now': int(T[0] / UNIT),
              'now_monotonic': T[0] / UNIT, 'pid': 0, 'expected': expected, 'spawnerr': '' if not forced else 'forced',
              'extra_args': '', 'disabled': False}
        if forced: ev['forced'] = True
        return ev

    # ------------------------------------------------------------------ operations
    def apply(self, op):
        """ one harness operation on the implementation; appends (driver line, implementation observation) records """
        if self.err: return
        frame = {'kind': 'prims', 'recs': [], 'outs': []}
        self.frames = [frame]
        try:
            with watchdog(20):
                self._apply(op, frame)
        except Hang as e:
            self.err = ('Hang', str(e))
        except Exception as e:
            self.err = (type(e).__name__, traceback.format_exc())
        self.records += frame['recs']
        if self.err:
            self.records.append((f"abort", f"err:{self.err[0]}"))

    def _apply(self, op, frame):
        s = self.s; fh = s.failure_handler; k = op[0]
        if k == 'add':
            fh.add_job(RFS[op[1]], self.procs[op[2]])
            frame['recs'].append((f"add {op[1]} {op[2]}", self.obs(frame['outs'], None)))
        elif k == 'default':
            before = self.sets()
            fh.add_default_job(self.procs[op[1]])
            pc = self.cfg['procs'][op[1]]
            if pc['strat'] == 'RESTART_PROCESS' and frame['recs'] and frame['recs'][-1][0].endswith(' 1') \
                    and self.cfg['apps'][pc['app']]['managed'] and pc['seq'] > 0 and before != self.sets():
                self.stats['promotions'] += 1
        elif k == 'trigger':
            fh.trigger_jobs()
        elif k == 'abort':
            fh.abort()
            frame['recs'].append(("abort", self.obs(frame['outs'], None)))
        elif k == 'check':
            # FiniteStateMachine.next, before the state evaluation
            s.starter.check(); s.stopper.check(); fh.trigger_jobs()
        elif k == 'tick':
            T[0] += 5 * UNIT
            for i in self.running_instances():
                s.context.instances[self.ids[i]].times.remote_sequence_counter += 1
        elif k == 'master':
            self.set_master(op[1])
        elif k == 'busy':
            kind, x = op[1], op[2]
            strat = StartingStrategies.CONFIG
            if kind == 'start_app': s.starter.start_application(strat, self.apps[x])
            elif kind == 'stop_app': s.stopper.stop_application(self.apps[x])
            elif kind == 'restart_app': s.stopper.restart_application(strat, self.apps[x])
            elif kind == 'start_proc': s.starter.start_process(strat, self.procs[x])
            elif kind == 'stop_proc': s.stopper.stop_process(self.procs[x])
            elif kind == 'restart_proc': s.stopper.restart_process(strat, self.procs[x])
        elif k == 'unbusy':
            s.starter.abort(); s.stopper.abort()
        elif k == 'event':
            _, i, p, state, expected, forced = op
            status = s.context.instances[self.ids[i]]
            if status.state != IS.RUNNING: return
            T[0] += 1
            s.fsm.on_process_state_event(status, self.event_payload(i, p, state, expected, forced))
        elif k == 'revive':
            status = s.context.instances[self.ids[op[1]]]
            if status.state == IS.STOPPED:
                status._state = IS.RUNNING
                s.state_modes.local_state_modes.instance_states[self.ids[op[1]]] = IS.RUNNING
                self.set_master(self.master)
        elif k == 'lose':
            _, i, w = op
            status = s.context.instances[self.ids[i]]
            if i == 0 or status.state != IS.RUNNING: return
            self.set_master(self.master)
            state = WCLS[w](s)
            captured = {}
            orig = s.context.invalidate_failed
            def invalidate_failed():
                lost, failed = orig()
                captured['failed'] = [(self.pidx[p.namespec], s.context.applications[p.application_name].stopped()) for p in failed]
                return lost, failed
            s.context.invalidate_failed = invalidate_failed
            f = {'kind': 'lost', 'outs': [], 'handed': None, 'busy': None, 'withjob': set(), 'nested': []}
            self.frames.append(f)
            entry_master = self.master
            try:
                status.state = IS.FAILED
                state.next()
            finally:
                self.frames.pop()
                s.context.invalidate_failed = orig
            master = s.state_modes.is_master()
            stopped_at = dict(f['handed'] or [])
            failed = sorted((p, stopped_at.get(p, st)) for p, st in captured.get('failed', []))
            busy = f['busy'] if f['busy'] is not None else sorted(self.aidx[x] for x in fh.get_application_job_names())
            handed = [x[0] for x in f['handed']] if f['handed'] is not None else None
            line = (f"lost {int(master)} {w} {','.join(f'{p}:{int(st)}' for p, st in failed) if failed else '-'}"
                    f" {csv(f['withjob'])} {csv(busy)}")
            frame['recs'] += f['nested']
            frame['recs'].append((line, self.obs(f['outs'], handed)))
            if handed is not None:
                self.stats['handed'] += 1; self._count_trigger(busy, f['outs'])
            if not master and entry_master:
                self.master = False              # the lost instance was... (cannot happen: instance 0 is never lost)
        elif k == 'conciliate':
            conflicts = s.context.conflicts()
            if conflicts:
                conciliate_conflicts(s, ConciliationStrategies.RUNNING_FAILURE, conflicts)
        else:
            raise ValueError(op)


# ---------------------------------------------------------------------------------------------------- generation
def gen_op(rnd, w):
    """ next operation, chosen with the current implementation state in view (in-flight requests get plausible events) """
    np_, na = len(w.procs), len(w.apps)
    r = rnd.random()
    if r < 0.22: return ('add', rnd.choice(HANDLED * 4 + ['SHUTDOWN', 'RESTART']), rnd.randrange(np_))
    if r < 0.40: return ('default', rnd.randrange(np_))
    if r < 0.52: return ('trigger',)
    if r < 0.54: return ('abort',)
    if r < 0.64:
        kind = rnd.choice(['start_app', 'stop_app', 'restart_app', 'start_proc', 'stop_proc', 'restart_proc'])
        return ('busy', kind, rnd.randrange(na) if kind.endswith('app') else rnd.randrange(np_))
    if r < 0.66: return ('unbusy',)
    if r < 0.80:
        infl = w.inflight()
        if infl and rnd.random() < 0.7:
            p, i, kind = rnd.choice(infl)
            cur = w.procs[p].info_map[w.ids[i]]['state']
            nxt = {0: [10, 10, 200], 100: [10, 10, 200], 200: [10, 10], 10: [20, 20, 20, 30, 100], 30: [10, 200],
                   20: [100, 40, 40], 40: [0, 0, 40]}.get(int(cur), [0])
            return ('event', i, p, rnd.choice(nxt), rnd.random() < 0.5, False)
        run = w.running_instances()
        i = rnd.choice(run); p = rnd.randrange(np_)
        forced = rnd.random() < 0.12
        state = rnd.choice([200, 200, 0]) if forced else rnd.choice([0, 10, 20, 20, 100, 100, 200, 200, 40])
        return ('event', i, p, state, rnd.random() < 0.4, forced)
    if r < 0.88:
        cand = [i for i in w.running_instances() if i != 0]
        if cand: return ('lose', rnd.choice(cand), rnd.choice('DOOOC'))
        return ('revive', rnd.randrange(1, w.n))
    if r < 0.91: return ('revive', rnd.randrange(1, w.n))
    if r < 0.94: return ('master', rnd.random() < 0.6)
    if r < 0.97: return ('check',)
    if r < 0.99: return ('tick',)
    return ('conciliate',)


def gen_case(rnd, variant):
    cfg = gen_config(rnd, variant)
    w = World(cfg); ops = []
    for _ in range(rnd.randint(4, 40)):
        op = gen_op(rnd, w); ops.append(op); w.apply(op)
        if w.err: break
    return cfg, ops, w


def run_ops(cfg, ops):
    w = World(cfg)
    for op in ops:
        w.apply(tuple(op))
        if w.err: break
    return w


# ---------------------------------------------------------------------------------------------------- judging
def strip_nothing(model_obs):
    """ CONTINUE jobs only log: not observed on the implementation """
    parts = model_obs.split(' ')
    for k, w in enumerate(parts):
        if w.startswith('out='):
            toks = [t for t in w[4:].split(',') if t != '-' and not t.startswith('nothing:')]
            parts[k] = 'out=' + (','.join(toks) if toks else '-')
    return ' '.join(parts)


def signature(clause, line):
    kind = line.split(' ')[0]
    if clause == 'lost-not-handled' and kind == 'lost':
        w = {'D': 'distribution', 'O': 'operation', 'C': 'conciliation'}[line.split(' ')[2]]
        return f'C06:lost-not-handled:{w}'
    return f'C06:{clause}:{kind}'


def judge_worlds(chk, worlds):
    """ pipes the recorded lines of every world to the model driver; yields per world (findings, diffs) """
    all_lines = []; spans = []
    for w in worlds:
        lines = [l if o is None else f'{l} | {o}' for l, o in w.records]
        spans.append((len(all_lines), len(lines))); all_lines += lines
    model = chk.driver('drv_c06', all_lines)
    for w, (start, ln) in zip(worlds, spans):
        findings = []; diffs = []
        for k in range(ln):
            line, i_obs = w.records[k]
            if i_obs is None: continue
            m_obs, verdict, self_verdict = [x.strip() for x in model[start + k].split('|')]
            if self_verdict != 'M:ok':
                # the judge must accept the model itself (non-vacuity)
                diffs.append({'layer': 'judge-rejects-model', 'line': line, 'model_observation': m_obs, 'verdict': self_verdict})
            ctx = {'config': w.cfg, 'driver_lines': [l for l, _ in w.records[:k + 1]][-12:], 'impl_observation': i_obs,
                   'model_observation': m_obs, 'verdict': verdict}
            if i_obs.startswith('err:'):
                findings.append((f"C06:exception:{tb_signature(w.err[1]) if w.err[0] != 'Hang' else 'Hang'}",
                                 f'{w.err[0]} raised by the implementation while a failure strategy was being applied',
                                 dict(ctx, traceback=w.err[1][-1500:])))
                break
            if verdict != 'J:ok':
                clause = verdict[2:]
                sig = signature(clause, line)
                if not any(f[0] == sig for f in findings):
                    findings.append((sig, f'clause "{clause}" violated after `{line}`', dict(ctx, clause=clause)))
                # the specification's pending list follows what was really handed over: after a KNOWN finding the rest of
                # the case is still compared and judged; anything else ends the case
                if sig not in chk.known: break
            if strip_nothing(m_obs) != i_obs:
                diffs.append(ctx)
                break
        yield findings, diffs


def nontrivial(w):
    return w.stats['deferred'] > 0 or w.stats['promotions'] > 0 or w.stats['multi'] > 0


def multi_strategy(w):
    """ number of instants at which one application holds notifications of >= 2 distinct strategies (precedence decides) """
    n = 0; pend = {}
    app = [pc['app'] for pc in w.cfg['procs']]; strat = [pc['strat'] for pc in w.cfg['procs']]
    for line, o in w.records:
        ws = line.split(' ')
        if ws[0] == 'add' and ws[1] in HANDLED:
            pend.setdefault(app[int(ws[2])], set()).add(ws[1])
        elif ws[0] == 'default' and strat[int(ws[1])] in HANDLED:
            pend.setdefault(app[int(ws[1])], set()).add(strat[int(ws[1])])
        elif ws[0] == 'lost' and ws[1] == '1' and ws[3] != '-':
            for x in ws[3].split(','):
                p = int(x.split(':')[0])
                if strat[p] in HANDLED: pend.setdefault(app[p], set()).add(strat[p])
        if ws[0] in ('trigger', 'lost', 'crash'):
            n += sum(1 for v in pend.values() if len(v) >= 2)
            pend = {}
        elif ws[0] in ('abort', 'new'):
            pend = {}
    return n


def process_worlds(chk, batch, stats, do_shrink=True):
    """ batch: list of (cfg, ops, world) """
    for (cfg, ops, w), (findings, diffs) in zip(batch, judge_worlds(chk, [b[2] for b in batch])):
        w.stats['multi'] = multi_strategy(w)
        stats['evaluations'] += 1; stats['ops'] += len(ops); stats['lines'] += len(w.records)
        stats['variants'][cfg['variant']] = stats['variants'].get(cfg['variant'], 0) + 1
        for op in ops: stats['op_kinds'][op[0]] = stats['op_kinds'].get(op[0], 0) + 1
        for l, _ in w.records:
            kd = l.split(' ')[0]
            if kd not in ('new', 'proc'): stats['line_kinds'][kd] = stats['line_kinds'].get(kd, 0) + 1
            if kd == 'lost': stats['lost_states'][l.split(' ')[2]] = stats['lost_states'].get(l.split(' ')[2], 0) + 1
        for key in ('deferred', 'promotions', 'multi', 'handed', 'nested_crash', 'actions'):
            stats['branches'][key] = stats['branches'].get(key, 0) + w.stats[key]
        stats['requests'] += w.requests['start'] + w.requests['stop']
        if nontrivial(w): stats['nontrivial'].add(json.dumps([cfg, ops]))
        if w.err: stats['impl_errors'][w.err[0]] = stats['impl_errors'].get(w.err[0], 0) + 1
        for d in diffs: chk.disagree('Rfh', d)
        for sig, what, ctx in findings:
            small = list(ops)
            if do_shrink and stats['shrinks'] < 10:
                stats['shrinks'] += 1
                def still(cand):
                    w2 = run_ops(cfg, cand)
                    for fs, _ in judge_worlds(chk, [w2]):
                        return any(x[0] == sig for x in fs)
                    return False
                small = shrink(small, still, max_tests=150)
                w2 = run_ops(cfg, small)
                for fs, _ in judge_worlds(chk, [w2]):
                    hit = next((x for x in fs if x[0] == sig), None)
                    if hit: what, ctx = hit[1], hit[2]
            chk.reject(sig, what, {'config': cfg, 'ops': [list(o) for o in small], 'context': ctx})


def exhaustive_worlds(max_len, nprocs=4):
    """ every add_job sequence up to max_len over 2 applications x 2 processes (one inside, one outside the start sequence)
        x 4 strategies (nprocs=2: the two processes of application 0 only), followed by a trigger with application 1 busy
        and a trigger with nothing busy; one real instance is reused (abort() between sequences) """
    alphabet = [(s, p) for s in HANDLED for p in range(nprocs)]
    w = World(EXH_CONFIG)
    header = list(w.records)
    fh = w.s.failure_handler
    for L in range(1, max_len + 1):
        for combo in itertools.product(alphabet, repeat=L):
            w.records = list(header); w.err = None
            fh.abort()
            ops = [('add', s, p) for s, p in combo]
            for op in ops: w.apply(op)
            # application 1 is made busy by a real user request, then released
            w.apply(('busy', 'start_app', 1)); w.apply(('trigger',)); w.apply(('unbusy',)); w.apply(('trigger',))
            snap = World.__new__(World); snap.__dict__ = dict(w.__dict__); snap.records = list(w.records)
            snap.stats = dict(w.stats); w.stats = {k: 0 for k in w.stats}
            snap.requests = dict(w.requests); w.requests = {'start': 0, 'stop': 0}
            yield EXH_CONFIG, ops + [('busy', 'start_app', 1), ('trigger',), ('unbusy',), ('trigger',)], snap


def anchored_coverage(seed, ncases=300):
    """ line coverage (coverage.py) of the anchored Python code under the generated cases: RunningFailureHandler, the crash
        dispatch of the FSM, the working states' next, invalidate_failed, on_instances_invalidation """
    try:
        import coverage, inspect
        import supvisors.strategy as st, supvisors.statemachine as sm, supvisors.context as cx, supvisors.commander as cm
    except Exception as e:
        return {'error': repr(e)}
    targets = {'strategy.RunningFailureHandler': st.RunningFailureHandler,
               'statemachine._MasterSlaveState.next': sm._MasterSlaveState.next,
               'statemachine._WorkingState._common_next': sm._WorkingState._common_next,
               'statemachine._WorkingState._master_next': sm._WorkingState._master_next,
               'statemachine.FiniteStateMachine.on_process_state_event': sm.FiniteStateMachine.on_process_state_event,
               'context.Context.invalidate_failed': cx.Context.invalidate_failed,
               'commander.ApplicationJobs.on_instances_invalidation': cm.ApplicationJobs.on_instances_invalidation,
               'commander.Commander.on_instances_invalidation': cm.Commander.on_instances_invalidation}
    files = sorted({inspect.getsourcefile(t) for t in targets.values()})
    cov = coverage.Coverage(data_file=None, include=files)
    cov.start()
    try:
        rnd = random.Random(seed + 17)
        for k in range(ncases): gen_case(rnd, 'isolated' if k % 2 == 0 else 'live')
    finally:
        cov.stop()
    res = {}
    for name, t in targets.items():
        src, first = inspect.getsourcelines(t)
        _, statements, _, missing, _ = cov.analysis2(inspect.getsourcefile(t))
        # `def` / `class` lines run at import time, before the measurement starts
        mine = [l for l in statements if first <= l < first + len(src)
                and not src[l - first].lstrip().startswith(('def ', 'class '))]
        miss = [l for l in missing if l in mine]
        res[name] = {'statements': len(mine), 'executed': len(mine) - len(miss), 'missing_lines': miss}
    return res


def new_stats():
    return {'evaluations': 0, 'ops': 0, 'lines': 0, 'op_kinds': {}, 'line_kinds': {}, 'lost_states': {}, 'branches': {},
            'variants': {}, 'nontrivial': set(), 'impl_errors': {}, 'shrinks': 0, 'requests': 0}


def load_corpus():
    d = os.path.join(os.path.dirname(os.path.dirname(os.path.abspath(__file__))), 'corpus', 'C06')
    cases = []
    if os.path.isdir(d):
        for f in sorted(os.listdir(d)):
            if f.endswith('.json'):
                c = json.load(open(os.path.join(d, f)))
                c = c.get('replay', c)
                cases.append((c['config'], [tuple(o) for o in c['ops']]))
    return cases


def run(chk):
    quick = chk.tier == 'quick'
    stats = new_stats()
    chk.prove('Supv.Props.C06', extra_targets=['drv_c06', 'drv_cmd'])
    # corpus first
    batch = [(cfg, ops, run_ops(cfg, ops)) for cfg, ops in load_corpus()]
    process_worlds(chk, batch, stats)
    seeds = [chk.seed] if quick else derive_seeds(chk.seed, 8)
    per_seed = 1500 if quick else 5000
    samples = []
    for sd in seeds:
        rnd = random.Random(sd)
        batch = [gen_case(rnd, 'isolated' if k % 2 == 0 else 'live') for k in range(per_seed)]
        if not samples:
            samples = [{'variant': b[0]['variant'], 'lines': [l for l, _ in b[2].records[:14]]} for b in batch[:2]]
        process_worlds(chk, batch, stats)
    exhaustive = 0
    ex_len = 3 if quick else 4
    batch = []
    scopes = [exhaustive_worlds(ex_len)] if quick else [exhaustive_worlds(ex_len), exhaustive_worlds(5, nprocs=2)]
    for item in itertools.chain(*scopes):
        batch.append(item); exhaustive += 1
        if len(batch) >= 5000:
            process_worlds(chk, batch, stats, do_shrink=False); batch = []
    process_worlds(chk, batch, stats, do_shrink=False)
    # which processes are handed over: the set `Context.invalidate_failed` returns and the commanders leave (one or TWO instances lost in
    # the same evaluation) is an observable of the commander lock-step (`lose` operations of harness/cmdh.py, printed `failed=[..]`)
    import cmdh
    lost_ops = 0; cases = 0
    for r in cmdh.run_cases(chk, derive_seeds(chk.seed + 606, 500 if quick else 8000)):
        cases += 1; lost_ops += sum(1 for l in r['lines'] if ' lose ' in l)
        if r['diff']: chk.disagree('Cmd', dict(case_seed=r['seed'], gen=r.get('gen'), **r['diff']))
    stats['commander_cases'] = cases; stats['commander_lose_operations'] = lost_ops
    anchored = None
    if not quick:
        anchored = anchored_coverage(chk.seed)
        try: chk.leanchecker(['Supv.Props.C06', 'Supv.Lemmas.Rfh', 'Supv.Lemmas.InstFail', 'Supv.Spec.C06', 'Supv.Model.Rfh'])
        except Exception as e: chk.notes.append(f'leanchecker not run: {e}')
    if not chk.obligations_ok() or chk.disagreements:
        # search stage: more cases, judged on the implementation by the Lean specification
        for sd in derive_seeds(chk.seed + 7919, 4):
            rnd = random.Random(sd)
            process_worlds(chk, [gen_case(rnd, 'isolated' if k % 2 == 0 else 'live') for k in range(600)], stats)
    chk.coverage.update({
        'evaluations': stats['evaluations'], 'distinct_nontrivial': len(stats['nontrivial']),
        'rule': 'generated worlds (2-4 instances, 1-3 applications managed or not, 1-4 processes each with start sequence 0-2 and '
                'one of the 6 running failure strategies) driven by random sequences of add_job / add_default_job / trigger_jobs / '
                'abort / user start-stop-restart requests held by the real Starter-Stopper / process events through the real '
                'FSM handler (crashes, forced states, Master or not) / instance losses through the real DISTRIBUTION-OPERATION-'
                'CONCILIATION state objects / periodic checks / ticks / RUNNING_FAILURE conciliation; each case in an isolated and '
                'a live variant; non-trivial = some application held notifications of >= 2 distinct strategies when the handler '
                'was triggered, or a job was deferred because its application was busy, or a promotion took place; '
                'distinct = distinct (configuration, op list)',
        'samples': samples, 'operations': stats['ops'], 'driver_lines': stats['lines'], 'op_kinds': stats['op_kinds'],
        'driver_line_kinds': stats['line_kinds'], 'lost_by_fsm_state': stats['lost_states'], 'branches_hit': stats['branches'],
        'variants': stats['variants'], 'start_stop_requests_emitted_by_real_commanders': stats['requests'],
        'implementation_exceptions': stats['impl_errors'], 'traces_validated_against_impl': stats['evaluations'],
        'exhaustive': True, 'exhaustive_small_scope_cases': exhaustive, 'anchored_line_coverage': anchored,
        'exhaustive_scope': f'all add_job sequences of length <= {ex_len} over 2 applications x 2 processes x 4 strategies'
                            + ('' if quick else ' and of length <= 5 over the 2 processes of one application x 4 strategies')
                            + ', each followed by trigger_jobs with one application busy then with none'})
    chk.trusted += ['harness/c06.py + harness/simenv.py (drive the real RunningFailureHandler / Starter / Stopper / Context / FSM '
                    'state classes; recording wrappers installed from outside /repo; canonical observation printer)',
                    'lean/Supv/Drv/C06.lean (op-line parser, observation printer)',
                    'modelled as inputs, not verified here: application.stopped() (C15), process.crashed() / forced_state (C11), '
                    'Starter/Stopper.get_application_job_names() and the commands they hold (C03/C09/C10)',
                    'lean/Supv/Model/Inst.lean is tied to statemachine.py by the lock-step checks of C02/C07/C13 (not re-run here)']
    chk.assumptions += ['reading (proviso): RESTART_APPLICATION supersedes the process-level jobs of the processes of the start '
                        'sequence only; a failed process outside the start sequence keeps its own RESTART_PROCESS/CONTINUE job '
                        '(the application restart would not start it). Stated in C06_mutual_exclusion / C06_precedence, '
                        'witness C06_proviso_witness',
                        'reading (promotion): RESTART_PROCESS is promoted to RESTART_APPLICATION when the application is left '
                        'fully stopped AND the process belongs to its start sequence',
                        'reading (crash): a forced state (start request given up) is not the crash of a running process; the '
                        'judge accepts both answers for STOP/RESTART_APPLICATION there',
                        'membership of the start sequence and the strategy of a process do not change during a case',
                        'end-to-end clause "running again on exactly one surviving instance / FATAL if none has room" is not '
                        'covered here (commander layer, C03/C04/C10)']


def replay(chk, path):
    c = json.load(open(path))
    r = c.get('replay', c)
    stats = new_stats()
    cfg = r['config']; ops = [tuple(o) for o in r['ops']]
    process_worlds(chk, [(cfg, ops, run_ops(cfg, ops))], stats, do_shrink=False)
    chk.coverage.update({'evaluations': 1, 'distinct_nontrivial': len(stats['nontrivial']), 'samples': [r['ops'][:10]],
                         'rule': 'replay'})
