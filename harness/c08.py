""" C08 — after disturbances the cluster returns to OPERATION; nobody stays parked.
    Proof obligations: Supv.Props.C08 (the decisions of every state class, regenerated from the source by AST, are accepted by the
    regenerated transition table).  Correspondence: global lock-step of the real cluster with the Lean cluster model.
    Judge (Python, on the real objects): after the last disturbance, 24 quiet ticks and a drain of every queue, every live,
    mutually reachable, non-isolated instance must be in the state of its Master - OPERATION (or CONCILIATION) - with no job
    pending, provided the synchronisation condition can be met and supvisors_failure_strategy is not SHUTDOWN.  The number of
    ticks needed is measured and reported. """
from cluster import *
from c01 import drain


def nontrivial(lines, obs, n):
    """ at least one disturbance (crash / restart / cut / heal) after some instance has reached OPERATION """
    reached = False
    for l, o in zip(lines, obs):
        if any(w.startswith('4/') for w in o.split()[:n]): reached = True
        if reached and l.startswith('act') and l.split()[2] in ('crash', 'restart', 'cut', 'heal'): return True
    return False


def sync_possible(live, sims, opts):
    """ TIMEOUT selected, or the instances required by the configured options alive """
    so = opts['synchro_options'].split(',')
    if 'TIMEOUT' in so: return True
    alive = {s.identifier for s in live}
    s0 = live[0]
    ok = []
    if 'LIST' in so: ok.append(alive == set(s0.ids))
    if 'STRICT' in so: ok.append(set(s0.mapper.initial_identifiers) <= alive)
    if 'CORE' in so: ok.append(bool(s0.mapper.core_identifiers) and set(s0.mapper.core_identifiers) <= alive)
    if 'USER' in so: ok.append(False)      # needs a user action: not counted as "can be met" on its own
    return any(ok)


def judge(sims, net, opts, n, info, rec):
    out = []
    info['judged'] = False
    live = [s for s in sims if s.identifier not in net.down]
    if net.cut or not live or opts['supvisors_failure_strategy'] == 'SHUTDOWN': return out
    if not drain(sims, net): return out
    RUN = SupvisorsInstanceStates.RUNNING
    for s in live:
        seen = {i for i in s.ids if s.state_modes.local_state_modes.instance_states[i] == RUN}
        if seen != {x.identifier for x in live}: return out       # not mutually seen RUNNING (isolated / not yet re-admitted)
    if not sync_possible(live, sims, opts): return out
    states = {s.k - 1: s.state_modes.state for s in live}
    if set(states.values()) & {SupvisorsStates.RESTARTING, SupvisorsStates.SHUTTING_DOWN, SupvisorsStates.FINAL}: return out
    info['judged'] = True
    for s in live:
        st = s.state_modes.state
        m = s.state_modes.master_identifier
        mstate = net.instances[m].state_modes.state if m in net.instances and m not in net.down else None
        if st in (SupvisorsStates.SYNCHRONIZATION, SupvisorsStates.ELECTION, SupvisorsStates.DISTRIBUTION, SupvisorsStates.OFF):
            out.append((f'C08:parked:{st.name}:master-in-{mstate.name if mstate else "NONE"}',
                        f'instance {s.k - 1} is still in {st.name} {info.get("quiet_ticks", "?")} quiet ticks after the last disturbance '
                        f'(Master {m or "-"} in {mstate.name if mstate else "-"}; options {opts["synchro_options"]}/{opts["supvisors_failure_strategy"]})'))
        elif mstate is not None and st != mstate:
            out.append((f'C08:not-in-master-state:{st.name}:master-in-{mstate.name}', f'instance {s.k - 1} in {st.name}, its Master in {mstate.name}'))
        if s.starter.in_progress() or s.stopper.in_progress():
            out.append(('C08:job-pending', f'instance {s.k - 1} still has a start/stop job in progress'))
    return out


def run(chk):
    chk.regen(['enum:SupvisorsStates', 'FiniteStateMachine._Transitions', 'FiniteStateMachine._StateInstances', 'ast:fsm_decisions'])
    chk.prove('Supv.Props.C08', extra_targets=['drv_net'])
    if chk.tier == 'thorough': chk.leanchecker(['Supv.Props.C08'])
    judged = [0]
    def j(sims, net, opts, n, info, rec):
        info['quiet_ticks'] = 24
        r = judge(sims, net, opts, n, info, rec)
        judged[0] += bool(info.get('judged'))
        return r
    cluster_check(chk, ['C08-'], nontrivial,
                  'generated cluster schedules (2-5 instances, every synchro_options subset used, RESYNC / CONTINUE / SHUTDOWN, auto_fence) with '
                  'crashes, restarts (also faster than detection), cuts and heals, then all cuts healed, 24 quiet ticks and a drain of every queue; '
                  'non-trivial = a disturbance after some instance reached OPERATION; distinct = distinct schedule seed',
                  quick_cases=50, thorough_cases=700,
                  sched_kwargs={'quiet_ticks': 24, 'nmax': 5, 'heal_at_end': True, 'rpc_names': ('end_sync', 'end_sync', 'end_sync'), 'split_start': 0.3},
                  extra_judge=j)
    chk.coverage['schedules_judged_at_quiescence'] = judged[0]
    # closed loop with processes, commanders, failure handler and conflicts (CONCILIATION is only reached there): harness/c16free.py
    import c16free
    c16free.liveness_stage(chk, 'C08:free:', [{}, {'ending': True}], 100, 6000)
    chk.assumptions += ['"within a bounded number of ticks" is liveness under fair schedules: not proved; judged 24 quiet ticks after the last disturbance',
                        'the application-free cluster is explored here (no start/stop job, no conflict); process failures are covered by C06 / C10',
                        'USER alone is not counted as a synchronisation condition that "can be met" (it needs a user action)']


def replay(chk, path):
    import json
    c = json.load(open(path)); r = c.get('replay', c)
    if r.get('stage') == 'free':
        import c16free
        c16free.liveness_replay(chk, r, 'C08:free:')
    else:
        replay_schedule(chk, path, ['C08-'])
