""" C09 — stop sequences are honoured; restart / shutdown is orderly and reaches everyone.
    Proof obligations: Supv.Props.C09 (Stopper plans and pick-up order; on the instance FSM model, for every history: at most one
    restart / shutdown order to the local Supervisor, sent in the step that reaches FINAL, none from FINAL).
    Correspondence + monitors:
      * commander level: lock-step of the real Starter / Stopper with the Lean commander model, Lean monitor (Supv.Spec.Cmd) on the requests
        the implementation emitted (process-level and application-level stop order, only where running);
      * cluster level: global lock-step of N real instances with the Lean cluster model under restart / shutdown requests issued on any
        instance, crashes, cuts and restarts; every order given to a Supervisor is compared at every step; judge on the real objects:
        never two orders to one Supervisor, an instance that gave the order is in FINAL. """
from cmdh import commander_check, commander_replay


def cluster_stage(chk):
    from cluster import cluster_check, SupvisorsStates
    cov1 = dict(chk.coverage)
    def judge(sims, net, opts, n, info, rec):
        out = []
        for s in sims:
            if len(s.orders) > 1:
                out.append(('C09:more-than-one-order', f'the Supervisor of instance {s.k - 1} received {len(s.orders)} orders: {s.orders}'))
            if s.orders and s.state_modes.state != SupvisorsStates.FINAL:
                out.append(('C09:order-not-in-final', f'instance {s.k - 1} ordered its Supervisor to {s.orders[0]} and is in {s.state_modes.state.name}'))
        return out
    def nontrivial(lines, obs, n):
        return any('restartLocal' in o or 'shutdownLocal' in o for o in obs)
    st = cluster_check(chk, ['C09-', 'C02-walk'], nontrivial,
                       'generated cluster schedules (2-5 instances) with restart / shutdown requests issued on any instance, crashes, restarts, cuts; '
                       'non-trivial = some instance orders its Supervisor to restart / shut down; distinct = schedule seed',
                       quick_cases=40, thorough_cases=600,
                       sched_kwargs={'nmax': 5, 'quiet_ticks': 8, 'heal_at_end': True, 'faults_max': 18,
                                     'rpc_names': ('restart', 'shutdown', 'restart', 'shutdown', 'end_sync')},
                       extra_judge=judge)
    cov2 = dict(chk.coverage)
    chk.coverage.update(cov1)
    chk.coverage['evaluations'] = cov1.get('evaluations', 0) + cov2.get('evaluations', 0)
    chk.coverage['distinct_nontrivial'] = cov1.get('distinct_nontrivial', 0) + cov2.get('distinct_nontrivial', 0)
    chk.coverage['traces_validated_against_impl'] = chk.coverage['evaluations']
    chk.coverage['cluster_stage'] = {'schedules': st['evaluations'], 'global_steps': st['steps'], 'action_kinds': st['kinds'], 'faults': st['faults'],
                                     'rule': cov2.get('rule'), 'distinct_nontrivial': cov2.get('distinct_nontrivial')}


def run(chk):
    commander_check(chk, 'Supv.Props.C09', ['C09-'])
    chk.prove('Supv.Props.C09', extra_targets=['drv_net'])
    cluster_stage(chk)
    import c16free
    c16free.liveness_stage(chk, 'C09:free:', [{'ending': True}, {}], 150, 6000)


def replay(chk, path):
    import json
    c = json.load(open(path)); r = c.get('replay', c)
    if r.get('stage') == 'free':
        import c16free
        c16free.liveness_replay(chk, r, 'C09:free:')
    elif 'schedule_seed' in r:
        from cluster import replay_schedule
        replay_schedule(chk, path, ['C09-', 'C02-walk'])
    else:
        commander_replay(chk, path, ['C09-'])
