""" C18 — rules and options resolution: the real Parser (lxml+XSD path and ElementTree path), ProcessRules,
    ApplicationRules, HomogeneousGroup and SupvisorsOptions against the Lean model `Supv.Rules`, judged by the Lean
    specification `Supv.Spec.C18` (driver `drv_c18`). """
import os, sys, re, ast, json, random, shutil, signal, tempfile, contextlib, io, traceback, warnings
warnings.filterwarnings('ignore')
from xml.sax.saxutils import escape, quoteattr

REPO = os.environ.get('SUPVISORS_REPO', '/repo')
sys.path.insert(0, REPO)
import supvisors
assert os.path.realpath(os.path.dirname(supvisors.__file__)).startswith(os.path.realpath(REPO)), \
    f'supvisors imported from {supvisors.__file__}, expected {REPO}'
from supvisors.sparser import Parser
from supvisors.process import ProcessRules
from supvisors.application import ApplicationRules, HomogeneousGroup
from supvisors.options import SupvisorsOptions
from supvisors.internal_com.mapper import SupvisorsMapper
from supvisors.ttypes import SynchronizationOptions, StartingStrategies
import supvisors.sparser as _sparser_mod
_sparser_mod.stderr = io.StringIO()       # the XSD error log of refused documents is printed there
import core
from core import shrink

VERIF = os.path.dirname(os.path.dirname(os.path.abspath(__file__)))


# ------------------------------------------------------------------------------------------------ helpers
class Hang(Exception):
    pass


class watchdog:
    """ every implementation-side operation runs under a watchdog: a hang is a finding, never a check time-out """
    def __init__(self, seconds=20): self.seconds = seconds
    def _fire(self, signum, frame): raise Hang(f'operation did not return within {self.seconds}s')
    # CPU-time budget (ITIMER_PROF) so that a loaded machine cannot fire it; wall-clock fallback at 30 x the budget (see simenv.watchdog)
    def __enter__(self):
        self.old = signal.signal(signal.SIGALRM, self._fire); self.oldp = signal.signal(signal.SIGPROF, self._fire)
        signal.setitimer(signal.ITIMER_PROF, self.seconds); signal.alarm(self.seconds * 30)
    def __exit__(self, *exc):
        signal.setitimer(signal.ITIMER_PROF, 0); signal.alarm(0)
        signal.signal(signal.SIGPROF, self.oldp); signal.signal(signal.SIGALRM, self.old); return False


class NullLogger:
    level = 50; handlers = []
    def _drop(self, *a, **k): pass
    critical = error = warn = info = debug = trace = blather = log = close = _drop


class FakeMapperSelf:
    """ the attributes read by the REAL SupvisorsMapper.filter """
    def __init__(self, m):
        self._instances = {i: None for i in m['instances']}
        self._nick_identifiers = dict(m['nicks'])
        self.stereotypes = {k: list(v) for k, v in m['stereotypes'].items()}
        self.logger = NullLogger()


class FakeMapper:
    def __init__(self, m):
        self._self = FakeMapperSelf(m)
        self.instances = self._self._instances

    def filter(self, lst): return SupvisorsMapper.filter(self._self, lst)


class FakeSupervisorData:
    def autorestart(self, namespec): return False
    def disable_autorestart(self, namespec): pass


class FakeSupvisors:
    def __init__(self, files, mapper):
        self.logger = NullLogger()
        self.options = type('O', (), {})(); self.options.rules_files = files
        self.mapper = FakeMapper(mapper)
        self.supervisor_data = FakeSupervisorData()


class FakeProcess:
    """ what HomogeneousGroup reads of a ProcessStatus """
    def __init__(self, app, name, index, rules):
        self.namespec = f'{app}:{name}'; self.process_name = name; self.process_index = index
        self.rules = rules; self.program_name = 'prg'


def exc_name(e):
    return 're.error' if isinstance(e, re.error) else type(e).__name__


def hx(s): return '~' if s == '' else s.encode('ascii').hex()
def opt(s): return '_' if s is None else '=' + hx(s)
def csv(l): return '-' if not l else ','.join(hx(x) for x in l)


# ------------------------------------------------------------------------------------------------ generators: rules
APPS = ['web', 'web_1', 'web_2', 'web-03', 'db_0', 'db', 'batch_12']
PROCS = ['srv_01', 'srv_02', 'srv_03', 'srv_04', 'worker', 'work_a', 'cron']
APP_PATTERNS = ['web', 'web_', 'web[-_]', 'b', 'db|batch', '.*', 'we.', r'_\d+$', 'eb']
PRG_PATTERNS = ['srv', 'srv_', r'srv_0\d', 'srv_0[12]', 'wor', 'work', '.', 'o', 'cron$', '_0', r'srv_\d+']
BAD_PATTERNS = ['(', '[a', '*x']
SEQ_OK = ['0', '1', '2', '5', ' 3 ', '+4', '-1', '-7', '127', '-128', '007']
SEQ_ANY = SEQ_OK + ['abc', '1_0', '', ' ', '3.5', '1e2', '128', '999999', '- 1', '0x1']
BOOL_OK = ['true', 'false', '1', '0', ' true ']
BOOL_ANY = BOOL_OK + ['yes', 'no', 'on', 'off', 'True', 'TRUE', 'maybe', 'y', 't', 'n', 'f', '2', '', 'False']
LOAD_OK = ['0', '10', '100', ' 50 ', '+7', '007']
LOAD_ANY = LOAD_OK + ['101', '-5', 'x', '1_0', '1e1', '', '100.0', '-0']
SFS_OK = ['ABORT', 'STOP', 'CONTINUE']; SFS_ANY = SFS_OK + ['abort', 'RESTART', ' STOP', '']
RFS_OK = ['CONTINUE', 'RESTART_PROCESS', 'STOP_APPLICATION', 'RESTART_APPLICATION', 'SHUTDOWN', 'RESTART']
RFS_ANY = RFS_OK + ['restart', 'STOP', 'RESTART_PROCESS ', '']
DIST_OK = ['ALL_INSTANCES', 'SINGLE_INSTANCE', 'SINGLE_NODE']; DIST_ANY = DIST_OK + ['single_node', 'NODE', '']
STRAT_OK = ['CONFIG', 'LESS_LOADED', 'MOST_LOADED', 'LOCAL', 'LESS_LOADED_NODE', 'MOST_LOADED_NODE']
STRAT_ANY = STRAT_OK + ['local', 'RANDOM', '']
IDS = ['*', 'n1', 'n1,n2', 'n2, n1 ,n1', '#', '@', '#,n1,n2', '@,n2', '#,@,n1', 'al1', 'al1,n3', 'al2', '*,n1', ' ', ',',
       'n1,,n2', 'al1,al1', '#,n3,n2,n1', '@,n3,n1', '#,*', '@,*,n1', 'n9', '#,n9', '@,n9,n2', 'st1', '#,st1', 'al3', '#,al1',
       '10.0.0.2:25000,n1', '']
FORMULAS = ['all(".*")', '"a" and "b"', 'any("srv.*") or "cron"', '"a" and', 'x = 1', 'a; b', '(', '   ', 'not "a"', '"a"\n"b"']
REFS = ['m1', 'm2', 'm3', 'm4', 'nope', '']
ALIAS_VALUES = ['n1,n2', 'al2, n4', 'al3,al1', '#,n1', '', ' ', 'n3', 'n2,al3,n1', '@', 'al1', '*']
PROG_TAGS = ['reference', 'identifiers', 'start_sequence', 'stop_sequence', 'required', 'wait_exit', 'expected_loading',
             'starting_failure_strategy', 'running_failure_strategy']
APP_TAGS = ['distribution', 'identifiers', 'start_sequence', 'stop_sequence', 'starting_strategy',
            'starting_failure_strategy', 'running_failure_strategy', 'operational_status']


ID_ATOMS = ['n1', 'n2', 'n3', 'n4', 'n9', 'al1', 'al2', 'al3', '#', '@', '*', 'st1', '', '10.0.0.1:25000']
RULE_STRESS = '0123456789' * 2 + '+-_ .eEtrufalsTRUEyno'


def gen_ids(rnd):
    if rnd.random() < 0.7: return rnd.choice(IDS)
    return ','.join(rnd.choice(['', ' ']) + rnd.choice(ID_ATOMS) + rnd.choice(['', ' ']) for _ in range(rnd.randint(1, 5)))


def gen_children(rnd, valid, kind):
    """ children (tag, text) of a program/model (kind 'p') or application (kind 'a') element """
    def pick(ok, anyv):
        if not valid and rnd.random() < 0.08:
            return ''.join(rnd.choice(RULE_STRESS) for _ in range(rnd.randint(1, 6)))
        return rnd.choice(ok if valid else anyv)
    f = []
    if kind == 'p':
        if rnd.random() < 0.45: f.append(('reference', rnd.choice(REFS[:5] if valid and rnd.random() < 0.9 else REFS)))
        if rnd.random() < 0.5: f.append(('identifiers', gen_ids(rnd)))
        if rnd.random() < 0.6: f.append(('start_sequence', pick(SEQ_OK, SEQ_ANY)))
        if rnd.random() < 0.4: f.append(('stop_sequence', pick(SEQ_OK, SEQ_ANY)))
        if rnd.random() < 0.5: f.append(('required', pick(BOOL_OK, BOOL_ANY)))
        if rnd.random() < 0.3: f.append(('wait_exit', pick(BOOL_OK, BOOL_ANY)))
        if rnd.random() < 0.5: f.append(('expected_loading', pick(LOAD_OK, LOAD_ANY)))
        if rnd.random() < 0.4: f.append(('starting_failure_strategy', pick(SFS_OK, SFS_ANY)))
        if rnd.random() < 0.4: f.append(('running_failure_strategy', pick(RFS_OK, RFS_ANY)))
    else:
        if rnd.random() < 0.4: f.append(('distribution', pick(DIST_OK, DIST_ANY)))
        if rnd.random() < 0.5: f.append(('identifiers', gen_ids(rnd)))
        if rnd.random() < 0.6: f.append(('start_sequence', pick(SEQ_OK, SEQ_ANY)))
        if rnd.random() < 0.4: f.append(('stop_sequence', pick(SEQ_OK, SEQ_ANY)))
        if rnd.random() < 0.4: f.append(('starting_strategy', pick(STRAT_OK, STRAT_ANY)))
        if rnd.random() < 0.4: f.append(('starting_failure_strategy', pick(SFS_OK, SFS_ANY)))
        if rnd.random() < 0.4: f.append(('running_failure_strategy', pick(RFS_OK, RFS_ANY)))
        if rnd.random() < 0.4: f.append(('operational_status', rnd.choice(FORMULAS)))
    if not valid and f and rnd.random() < 0.12:
        # a tag given twice (only the first one counts) -- impossible under the XSD (xs:all)
        t, _ = rnd.choice(f)
        f.append((t, rnd.choice(SEQ_ANY + BOOL_ANY + IDS)))
    rnd.shuffle(f)
    return [list(x) for x in f]


def gen_attrs(rnd, names, patterns, hostile):
    r = rnd.random()
    if r < 0.5: return {'name': rnd.choice(names)}
    pats = patterns + (BAD_PATTERNS if hostile else [])
    if r < 0.95: return {'pattern': rnd.choice(pats)}
    return {'name': rnd.choice(names), 'pattern': rnd.choice(pats)}


def gen_mapper(rnd):
    n = rnd.randint(1, 5)
    ins = [f'10.0.0.{k}:25000' for k in range(1, n + 1)]
    m = {'instances': ins, 'nicks': {f'n{k}': ins[k - 1] for k in range(1, n + 1)}, 'stereotypes': {}}
    if rnd.random() < 0.4: m['stereotypes']['st1'] = rnd.sample(ins, rnd.randint(1, n))
    return m


def gen_doc_case(rnd, path):
    """ one rules document (possibly split over two files) + the queries made on it """
    valid = path == 'xsd' and rnd.random() < 0.92      # XSD-valid values by construction
    if path == 'et': valid = rnd.random() < 0.35
    hostile = rnd.random() < 0.04
    items = []
    for an in rnd.sample(['al1', 'al2', 'al3', 'al1'], rnd.randint(0, 4)) if rnd.random() < 0.8 else ():
        items.append(['alias', an, rnd.choice(ALIAS_VALUES) if rnd.random() < 0.7 else gen_ids(rnd)])
    for mn in rnd.sample(['m1', 'm2', 'm3', 'm4', 'm1'], rnd.randint(0, 5)):
        items.append(['model', {'name': mn}, gen_children(rnd, valid, 'p')])
    for _ in range(rnd.randint(1, 4)):
        attrs = gen_attrs(rnd, APPS, APP_PATTERNS, hostile)
        progs = [[gen_attrs(rnd, PROCS, PRG_PATTERNS, hostile), gen_children(rnd, valid, 'p')] for _ in range(rnd.randint(0, 5))]
        items.append(['app', attrs, gen_children(rnd, valid, 'a'), progs])
    sign_app = None
    if rnd.random() < 0.4:
        # an application whose homogeneous programs carry a sign (the documented use of '#' / '@')
        sign_app = rnd.choice(APPS)
        progs = [[{'pattern': rnd.choice(['srv_', r'srv_0\d', 'srv_0[12]', r'srv_\d+'])},
                  [['identifiers', rnd.choice(['#', '@', '#,n1,n2', '@,n2', '#,n3,n2,n1', '@,n3,n1', '#,*', '#,n9', '@,n9,n2', '#,st1', '#,al1', '@,al1'])],
                   ['start_sequence', '1']]]]
        if rnd.random() < 0.3: progs.append([{'name': 'srv_03'}, gen_children(rnd, valid, 'p')])
        items.append(['app', {'name': sign_app}, gen_children(rnd, valid, 'a') if rnd.random() < 0.5 else [], progs])
    rnd.shuffle(items)
    split = rnd.randint(0, len(items)) if rnd.random() < 0.2 else None
    queries = [['qapp', a] for a in APPS] + [['qprog', a, p] for a in APPS for p in PROCS]
    for g in range(2):
        a = sign_app if sign_app and (g == 0 or rnd.random() < 0.5) else rnd.choice(APPS)
        members = [[f'srv_0{k}', k - 1] for k in range(1, 5)]
        if rnd.random() < 0.25: members.append(['worker', rnd.randint(0, 5)])
        if rnd.random() < 0.3: rnd.shuffle(members)
        k = rnd.randint(1, len(members)) if rnd.random() < 0.35 else len(members)
        queries.append(['group', a, members[:k]])
        if k < len(members): queries.append(['groupadd', a, members[k:]])
    case = {'kind': 'doc', 'path': path, 'items': items, 'split': split, 'mapper': gen_mapper(rnd), 'queries': queries}
    if rnd.random() < 0.01: case['malformed'] = True      # not well-formed: must be refused by both parsers
    return case


# ------------------------------------------------------------------------------------------------ XML writing
def xml_children(children):
    return ''.join(f'<{t}>{escape(v)}</{t}>' if v != '' else (f'<{t}/>' if len(t) % 2 else f'<{t}></{t}>') for t, v in children)


def xml_attrs(attrs):
    return ''.join(f' {k}={quoteattr(v)}' for k, v in attrs.items())


def xml_item(it):
    if it[0] == 'alias':
        return f'<alias name={quoteattr(it[1])}>{escape(it[2])}</alias>'
    if it[0] == 'model':
        return f'<model{xml_attrs(it[1])}>{xml_children(it[2])}</model>'
    _, attrs, children, progs = it
    body = xml_children(children)
    if progs or len(children) % 2:
        body += '<programs>' + ''.join(f'<program{xml_attrs(pa)}>{xml_children(pc)}</program>' for pa, pc in progs) + '</programs>'
    return f'<application{xml_attrs(attrs)}>{body}</application>'


def write_files(case, workdir):
    items = case['items']; split = case.get('split')
    parts = [items] if split is None else [items[:split], items[split:]]
    files = []
    for k, part in enumerate(parts):
        p = os.path.join(workdir, f'rules{k}.xml')
        with open(p, 'w', encoding='utf-8') as f:
            f.write('<?xml version="1.0" encoding="UTF-8" standalone="no"?>\n<root>\n' + '\n'.join(xml_item(i) for i in part)
                    + ('\n<root>\n' if case.get('malformed') else '\n</root>\n'))
        files.append(p)
    return files


@contextlib.contextmanager
def parser_path(path):
    """ 'et': the lxml import inside Parser.parse fails, the ElementTree fallback is taken """
    saved = {k: sys.modules.get(k, 'absent') for k in ('lxml', 'lxml.etree')}
    if path == 'et':
        sys.modules['lxml'] = None; sys.modules['lxml.etree'] = None
    try:
        yield
    finally:
        for k, v in saved.items():
            if v == 'absent': sys.modules.pop(k, None)
            else: sys.modules[k] = v


# ------------------------------------------------------------------------------------------------ observations
def obs_ids(r):
    return f"ids={csv(r.identifiers)} at={csv(r.at_identifiers)} hash={csv(r.hash_identifiers)}"


def obs_proc(r):
    return (f"{obs_ids(r)} start={r.start_sequence} stop={r.stop_sequence} req={int(bool(r.required))} wait={int(bool(r.wait_exit))}"
            f" load={r.expected_load} sfs={r.starting_failure_strategy.name} rfs={r.running_failure_strategy.name}")


def obs_app(r):
    return (f"managed={int(bool(r.managed))} dist={r.distribution.name} {obs_ids(r)} start={r.start_sequence} stop={r.stop_sequence}"
            f" strat={r.starting_strategy.name} sfs={r.starting_failure_strategy.name} rfs={r.running_failure_strategy.name}"
            f" formula={opt(r.status_formula)}")


def line_elt(kw, attrs, children):
    return ' '.join([kw, opt(attrs.get('name')), opt(attrs.get('pattern'))] + [f'{hx(t)}:{hx(v)}' for t, v in children])


def doc_lines(case):
    """ the document as driver lines (structure only; the harness adds the regex and formula tables) """
    lines = ['doc']
    for it in case['items']:
        if it[0] == 'alias': lines.append(f"alias {hx(it[1])} {opt(it[2] if it[2] != '' else None)}")
        elif it[0] == 'model': lines.append(line_elt('model', it[1], it[2]))
        else:
            lines.append(line_elt('app', it[1], it[2]))
            for pa, pc in it[3]: lines.append(line_elt('prog', pa, pc))
    return lines


def table_lines(case):
    """ results of Python `re` and `ast.parse` (trusted), supplied to the model as data """
    lines = []
    items = case['items']
    pats_app = sorted({it[1]['pattern'] for it in items if it[0] == 'app' and 'pattern' in it[1]})
    pats_prg = sorted({pa['pattern'] for it in items if it[0] == 'app' for pa, _ in it[3] if 'pattern' in pa})
    for pats, names in ((pats_app, APPS), (pats_prg, PROCS)):
        for p in pats:
            for n in names:
                try:
                    mo = re.search(f'({p})', n)
                    if mo: lines.append(f"match {hx(p)} {hx(n)} {len(mo.group())}")
                except re.error:
                    lines.append(f"match {hx(p)} {hx(n)} err")
    for f in sorted({v for it in items if it[0] == 'app' for t, v in it[2] if t == 'operational_status' and v}):
        # acceptance of a formula is the business of C15: the REAL `status_formula` setter decides (ast.parse + shape test)
        try:
            ApplicationRules(FakeSupvisors([], case['mapper'])).status_formula = f
            ok = True
        except Exception:
            ok = False
        if ok: lines.append(f"formula {hx(f)}")
    m = case['mapper']
    nicks = ','.join(f'{hx(k)}:{hx(v)}' for k, v in m['nicks'].items()) or '-'
    st = ','.join(f"{hx(k)}:{'+'.join(hx(x) for x in v)}" for k, v in m['stereotypes'].items()) or '-'
    lines.append(f"mapper {csv(m['instances'])} {nicks} {st}")
    return lines


def run_doc_case(case, workdir):
    """ runs the REAL parser on the case; returns (lines, obs, info) -- obs[k] is the implementation observation of line k
        ('' for structural lines); info = {'refused': exception name or None} """
    files = write_files(case, workdir)
    supv = FakeSupvisors(files, case['mapper'])
    try:
        with parser_path(case['path']), watchdog(20):
            parser = Parser(supv)
    except Hang:
        raise
    except Exception as e:
        return None, None, {'refused': type(e).__name__}
    lines = doc_lines(case) + table_lines(case)
    obs = [''] * len(lines)
    app_rules = {}
    group = None

    def program_rules(an, pn):
        sfs, rfs = app_rules.get(an, ('ABORT', 'CONTINUE'))
        r = ProcessRules(supv)
        r.starting_failure_strategy = type(r.starting_failure_strategy)[sfs]
        r.running_failure_strategy = type(r.running_failure_strategy)[rfs]
        parser.load_program_rules(f'{an}:{pn}', r)
        return r, sfs, rfs

    for q in case['queries']:
        try:
            with watchdog(20):
                if q[0] == 'qapp':
                    strat = 'LESS_LOADED' if len(q[1]) % 2 else 'CONFIG'     # the starting_strategy option (inherited default)
                    lines.append(f"qapp {hx(q[1])} {strat}")
                    r = ApplicationRules(supv); r.starting_strategy = StartingStrategies[strat]
                    try:
                        parser.load_application_rules(q[1], r)
                        obs.append(obs_app(r))
                        app_rules[q[1]] = (r.starting_failure_strategy.name, r.running_failure_strategy.name)
                    except Hang: raise
                    except Exception as e:
                        obs.append(f'err:{exc_name(e)}')
                elif q[0] == 'qprog':
                    sfs, rfs = app_rules.get(q[1], ('ABORT', 'CONTINUE'))
                    lines.append(f"qprog {hx(q[1])} {hx(q[2])} {sfs} {rfs}")
                    try:
                        r, _, _ = program_rules(q[1], q[2])
                        obs.append(obs_proc(r))
                    except Hang: raise
                    except Exception as e:
                        obs.append(f'err:{exc_name(e)}')
                else:
                    an = q[1]; sfs, rfs = app_rules.get(an, ('ABORT', 'CONTINUE'))
                    lines.append(f"{q[0]} {hx(an)} {sfs} {rfs} " + ' '.join(f'{hx(p)}:{i}' for p, i in q[2]))
                    if q[0] == 'group' or group is None: group = HomogeneousGroup('prg', supv)
                    for pn, idx in q[2]:
                        try:
                            r, _, _ = program_rules(an, pn)
                        except Hang: raise
                        except Exception:
                            continue
                        group.add_process(FakeProcess(an, pn, idx, r))
                    ids3 = lambda r: f"{csv(r.identifiers)}/{csv(r.at_identifiers)}/{csv(r.hash_identifiers)}"
                    before = [ids3(p.rules) for p in group.processes]
                    err = ''
                    try:
                        group.resolve_rules()
                    except Hang: raise
                    except Exception as e:
                        err = f' err:{exc_name(e)}'
                    obs.append(' '.join(f"{hx(p.process_name)}:{p.process_index}={b}>{ids3(p.rules)}"
                                        for p, b in zip(group.processes, before)) + err)
        except Hang:
            obs.append('err:Hang')
    return lines, obs, {'refused': None}


def model_view_of_group(impl_obs):
    """ the part of a group observation that the model prints: `name=ids/at/hash` after the resolution (+ err) """
    out = []
    for w in impl_obs.split():
        if w.startswith('err:'): out.append(w)
        else:
            ni, rest = w.split('=', 1)
            out.append(f"{ni.split(':')[0]}={rest.split('>')[1]}")
    return ' '.join(out)


# ------------------------------------------------------------------------------------------------ generators: options
INT_POOL = ['0', '1', '2', '5', '9', '10', '14', '15', '16', '20', '255', '256', '719', '720', '721', '1199', '1200', '1201', '1500', '1501',
            '65535', '65536', '-1', '-15', ' 20 ', '+30', '1_0', '1__0', '3.5', 'abc', '', ' ', '0x10', '1e2', '007', '- 5', '99999999999999999999']
FLOAT_POOL = ['1', '5', '10', '3600', '3601', '0.5', '0.99', '1.0', '7.5', '1e3', '1E1', '3.6e3', '36e2', '.5e1', '5.', '1_0.5', ' 7 ', '+8',
              '-3', '0', '-0', 'nan', 'NaN', '-nan', '+NAN', 'inf', '-inf', 'Infinity', 'abc', '', '1e', 'e5', '1e400', '1e-400', '.', '1..2',
              '0.1', '3600.0000000000001', '3600.000000000001', '0.99999999999999999', '0.9999999999999999', '1e-1', '100000', '99999.5',
              '59.94', '2.675', '0.30000000000000004', '1234.5678', '4.35', '1e0', '12e-1', '0x10', '1 0']
BOOL_POOL = ['true', 'false', 'yes', 'no', 'on', 'off', '1', '0', 'True', 'FALSE', 'y', 'n', 't', 'f', ' true', 'maybe', '', '2']
SYNC_POOL = ['STRICT', 'LIST', 'TIMEOUT', 'CORE', 'USER', 'strict', 'core', 'Timeout', ' user ', 'LIST,LIST', 'CORE,STRICT', 'STRICT,TIMEOUT,CORE',
             'TIMEOUT,USER', 'CORE', 'STRICT', 'STRICT,CORE', '', ',', ' , ', 'NONE', 'STRICT;CORE', 'TIMEOUT,BAD', 'LIST,,USER', 'core,timeout']
LIST_POOL = ['a,b,c', 'a', '', ' ', ',', 'a,,b', ' a , b ', 'b,a,b']
FAIL_POOL = ['CONTINUE', 'RESYNC', 'SHUTDOWN', 'resync', 'Shutdown', 'STOP', '', ' RESYNC']
LINK_POOL = ['NONE', 'ZMQ', 'WS', 'zmq', 'ws', 'TCP', '', 'W S']
CONC_POOL = ['SENICIDE', 'INFANTICIDE', 'USER', 'STOP', 'RESTART', 'RUNNING_FAILURE', 'user', 'senicide', 'KILL', '']
STARTING_POOL = STRAT_OK + ['local', 'less_loaded_node', 'RANDOM', '']
STATS_POOL = ['OFF', 'HOST', 'PROCESS', 'ALL', 'host,process', 'true', 'false', 'off', 'all', 'HOST,bad', '', 'yes', 'host, off', 'no,PROCESS', ',']
SIZE_POOL = ['1024', '1KB', '2kb', '1MB', '1gb', '10', '0', '-5', '-1kb', 'kb', 'b', '', '1 kb', '1.5kb', 'abc', '1_0kb', ' 12 ', '5mb ', '7Kb']
MGROUP_POOL = ['239.0.0.1:1234', '224.0.0.1:7777', '224.0.0.0:1234', '239.0.0.0:1', '240.0.0.1:1234', '239.0.0.1', '239.0.0.1:0', '239.0.0.1:65536',
               '239.0.1:1234', '239.0.0.256:1234', '239.a.0.1:1234', ':1234', '239.0.0.1:12:34', ' 239.0.0.1:1234', '239.0.0.1: 1234', '239.+0.0_0.1:1_0']
IFACE_POOL = ['ANY', 'INADDR_ANY', '10.0.0.1', '0.0.0.0', '255.255.255.255', '256.0.0.1', '10.0.0', '10.0.0.1.2', 'any', 'eth0', '', '10. 0.0.1', '1_0.0.0.1']
PERIODS_POOL = ['10', '5,60,600', '600,5,60', '1,2,3,4', '', ',', '5,', '5,nan', 'nan,5,1', 'nan,nan,2', '0.5,5', '5,3601', '7.5, 2.5', '5,abc', '3600,1',
                '1e1,1e2,1e3', '2,1', '1,1,1', '3,nan,1', 'nan', '1,nan,3', '2,nan,1', 'nan,2,1', 'nan,1,2', '5,inf']
OPTION_POOLS = {
    'multicast_ttl': INT_POOL, 'event_port': INT_POOL, 'synchro_timeout': INT_POOL, 'inactivity_ticks': INT_POOL, 'stats_histo': INT_POOL,
    'event_link': LINK_POOL, 'auto_fence': BOOL_POOL, 'stats_irix_mode': BOOL_POOL, 'synchro_options': SYNC_POOL,
    'supvisors_list': LIST_POOL, 'core_identifiers': LIST_POOL, 'conciliation_strategy': CONC_POOL, 'starting_strategy': STARTING_POOL,
    'supvisors_failure_strategy': FAIL_POOL, 'stats_enabled': STATS_POOL, 'stats_collecting_period': FLOAT_POOL,
    'stats_periods': PERIODS_POOL, 'tail_limit': SIZE_POOL, 'tailf_limit': SIZE_POOL, 'multicast_group': MGROUP_POOL,
    'multicast_interface': IFACE_POOL}
OPTION_KEYS = sorted(OPTION_POOLS)
STRESS = '0123456789' * 3 + '+-_. eEnaNfiIyt,'


def gen_value(rnd, key):
    if key in ('stats_collecting_period',) and rnd.random() < 0.3:
        # random decimal literals around the bounds: exercises the rounding of float()
        kind = rnd.random()
        if kind < 0.3: return f"{rnd.choice(['0.', '1.', '3599.', '3600.', '0.9', '3600.0'])}{''.join(rnd.choice('0123456789') for _ in range(rnd.randint(1, 22)))}"
        if kind < 0.6: return f"{rnd.randint(0, 99999)}e{rnd.randint(-6, 3)}"
        return ''.join(rnd.choice(STRESS) for _ in range(rnd.randint(1, 7)))
    if key in ('synchro_timeout', 'inactivity_ticks', 'stats_histo', 'event_port', 'multicast_ttl') and rnd.random() < 0.15:
        return ''.join(rnd.choice(STRESS) for _ in range(rnd.randint(1, 6)))
    return rnd.choice(OPTION_POOLS[key])


def gen_opts_case(rnd):
    """ 1-3 option dictionaries built one after the other in the same interpreter (as after a Supvisors restart): the
        effective options must be a function of each dictionary alone (regression of b925545) """
    cfgs = []
    for _ in range(rnd.choice([1, 1, 1, 2, 3])):
        keys = [k for k in OPTION_KEYS if rnd.random() < 0.3]
        # the synchro clean-up needs its three ingredients often enough
        for k, p in (('synchro_options', 0.6), ('supvisors_list', 0.6), ('core_identifiers', 0.5), ('supvisors_failure_strategy', 0.5)):
            if k not in keys and rnd.random() < p: keys.append(k)
        cfgs.append({k: gen_value(rnd, k) for k in keys})
    return {'kind': 'opts', 'configs': cfgs}


class FakeSupervisord:
    def __init__(self):
        self.options = type('O', (), {})(); self.options.here = '.'; self.options.environ_expansions = {}


def obs_period(x):
    if x != x: return 'nan'
    n, d = float(x).as_integer_ratio()
    return f'{n}/{d}'


def obs_options(o):
    lst = '_' if o.supvisors_list is None else '=' + csv(o.supvisors_list)
    mg = '_' if o.multicast_group is None else f'={hx(o.multicast_group[0])}:{o.multicast_group[1]}'
    return (f"list={lst} mgroup={mg} miface={opt(o.multicast_interface)} ttl={o.multicast_ttl} link={o.event_link.name} port={o.event_port}"
            f" fence={int(bool(o.auto_fence))} sync={csv([x.name for x in o.synchro_options])} to={o.synchro_timeout}"
            f" ticks={o.inactivity_ticks} core={csv(sorted(o.core_identifiers))} conc={o.conciliation_strategy.name}"
            f" strat={o.starting_strategy.name} fail={o.supvisors_failure_strategy.name} host={int(bool(o.host_stats_enabled))}"
            f" proc={int(bool(o.process_stats_enabled))} period={obs_period(o.collecting_period)}"
            f" periods={','.join(obs_period(x) for x in o.stats_periods)} histo={o.stats_histo} irix={int(bool(o.stats_irix_mode))}"
            f" tail={o.tail_limit} tailf={o.tailf_limit}")


def ascii_only(s):
    return all(ord(c) < 128 for c in s)


def run_opts_case(case):
    lines = ['optsreset']; obs = ['']
    SupvisorsOptions.SYNCHRO_DEFAULT_OPTIONS = [SynchronizationOptions.STRICT, SynchronizationOptions.TIMEOUT, SynchronizationOptions.CORE]
    for cfg in case['configs']:
        cfg = {k: v for k, v in cfg.items() if ascii_only(v)}      # non-ASCII numerals are outside the modelled alphabet
        lines.append('opts ' + ' '.join(f'{hx(k)}:{hx(v)}' for k, v in cfg.items()))
        try:
            with watchdog(20):
                o = SupvisorsOptions(FakeSupervisord(), NullLogger(), **cfg)
            obs.append(obs_options(o))
        except Hang:
            obs.append('err:Hang')
        except Exception as e:
            obs.append(f'err:{exc_name(e)}')
    SupvisorsOptions.SYNCHRO_DEFAULT_OPTIONS = [SynchronizationOptions.STRICT, SynchronizationOptions.TIMEOUT, SynchronizationOptions.CORE]
    return lines, obs, {'refused': None}


# ------------------------------------------------------------------------------------------------ judging
def run_impl(case, workdir):
    if case['kind'] == 'opts': return run_opts_case(case)
    return run_doc_case(case, workdir)


def describe(line):
    """ human-readable form of a driver line """
    ws = line.split()
    def uh(x): return '' if x == '~' else bytes.fromhex(x).decode()
    if ws[0] == 'qapp': return f'application rules of {uh(ws[1])!r}'
    if ws[0] == 'qprog': return f'program rules of {uh(ws[1])}:{uh(ws[2])}'
    if ws[0] in ('group', 'groupadd'): return f"homogeneous group of {uh(ws[1])}: " + ','.join(f"{uh(w.split(':')[0])}#{w.split(':')[1]}" for w in ws[4:])
    if ws[0] == 'opts': return 'options {' + ', '.join(f"{uh(w.split(':')[0])}={uh(w.split(':')[1])!r}" for w in ws[1:]) + '}'
    return line


def signature_of(clause, tag, line):
    kind = line.split()[0]
    if tag and tag != '-': return 'C18:' + tag
    area = {'qapp': 'application', 'qprog': 'program', 'group': 'group', 'groupadd': 'group', 'opts': 'option'}[kind]
    return f'C18:{area}:{clause}'


def judge_batch(chk, cases, workdir):
    """ runs implementation and model on every case; yields per case (case, lines, obs, info, findings, diffs) """
    all_lines = []; spans = []
    for case in cases:
        lines, obs, info = run_impl(case, workdir)
        if lines is None:
            spans.append((case, None, None, info, 0, 0)); continue
        spans.append((case, lines, obs, info, len(all_lines), len(lines)))
        all_lines += [f'{l} | {o}' for l, o in zip(lines, obs)]
    model = chk.driver('drv_c18', all_lines)
    for case, lines, obs, info, start, ln in spans:
        findings = []; diffs = []; covs = []
        if lines is not None:
            for k in range(ln):
                kind = lines[k].split()[0]
                parts = [x.strip() for x in model[start + k].split('|')]
                m_obs, verdict, tag = parts[0], parts[1], parts[2][2:]
                cov = dict(w.split('=', 1) for w in parts[3][2:].split() if '=' in w) if len(parts) > 3 else {}
                if m_obs == 'bad-op':
                    diffs.append({'line': lines[k], 'note': 'driver could not parse the line'}); continue
                if kind not in ('qapp', 'qprog', 'group', 'groupadd', 'opts'): continue
                i_obs = obs[k] if kind not in ('group', 'groupadd') else model_view_of_group(obs[k])
                q = {'query_line': lines[k], 'query': describe(lines[k]), 'impl_observation': obs[k], 'model_observation': m_obs}
                covs.append((kind, cov))
                if verdict != 'J:ok':
                    clause = verdict[2:]
                    findings.append((signature_of(clause, tag, lines[k]), f'clause "{clause}" violated for {describe(lines[k])}', q, k))
                if m_obs != i_obs:
                    diffs.append(q)
        yield case, lines, obs, info, findings, diffs, covs


def still_fails_factory(chk, workdir, case, sig, qline):
    """ predicate for the shrinker: the same query still gives the same signature on the reduced document """
    def rebuild(items):
        c = dict(case); c['items'] = items; c['split'] = None
        return c
    def still(items):
        c = rebuild(items)
        for _, lines, _, _, fs, _, _ in judge_batch(chk, [c], workdir):
            return any(f[0] == sig and f[2]['query_line'].split()[:3] == qline.split()[:3] for f in fs)
        return False
    return rebuild, still


def shrink_doc(chk, workdir, case, sig, qline):
    ws = qline.split()
    small = dict(case)
    # keep only the failing query (and the application query that feeds its inherited strategies)
    def uh(x): return '' if x == '~' else bytes.fromhex(x).decode()
    if ws[0] == 'qprog': small['queries'] = [['qapp', uh(ws[1])], ['qprog', uh(ws[1]), uh(ws[2])]]
    elif ws[0] == 'qapp': small['queries'] = [['qapp', uh(ws[1])]]
    else:
        qs = [q for q in case['queries'] if q[0] in ('group', 'groupadd')]
        small['queries'] = [['qapp', uh(ws[1])]] + qs
    case2 = dict(small); case2['split'] = None
    rebuild, still = still_fails_factory(chk, workdir, case2, sig, qline)
    if not still(case2['items']): return case
    items = shrink(list(case2['items']), still, max_tests=120)
    # then inside the remaining elements: programs, children
    def variants(items):
        for i, it in enumerate(items):
            if it[0] == 'app':
                for j in range(len(it[3])):
                    yield items[:i] + [[it[0], it[1], it[2], it[3][:j] + it[3][j + 1:]]] + items[i + 1:]
                for j in range(len(it[2])):
                    yield items[:i] + [[it[0], it[1], it[2][:j] + it[2][j + 1:], it[3]]] + items[i + 1:]
                for j, (pa, pc) in enumerate(it[3]):
                    for c in range(len(pc)):
                        yield items[:i] + [[it[0], it[1], it[2], it[3][:j] + [[pa, pc[:c] + pc[c + 1:]]] + it[3][j + 1:]]] + items[i + 1:]
            elif it[0] == 'model':
                for c in range(len(it[2])):
                    yield items[:i] + [[it[0], it[1], it[2][:c] + it[2][c + 1:]]] + items[i + 1:]
    budget = 150; progress = True
    while progress and budget > 0:
        progress = False
        for v in variants(items):
            budget -= 1
            if budget <= 0: break
            if still(v):
                items = v; progress = True; break
    out = rebuild(items); out['queries'] = case2['queries']
    return out


def shrink_opts(chk, workdir, case, sig):
    def still(cfgs):
        for _, _, _, _, fs, _, _ in judge_batch(chk, [{'kind': 'opts', 'configs': cfgs}], workdir):
            return any(f[0] == sig for f in fs)
        return False
    cfgs = [dict(c) for c in case['configs']]
    changed = True
    while changed:
        changed = False
        for i in range(len(cfgs)):
            if len(cfgs) > 1 and still(cfgs[:i] + cfgs[i + 1:]):
                cfgs = cfgs[:i] + cfgs[i + 1:]; changed = True; break
            for k in list(cfgs[i]):
                c2 = [dict(c) for c in cfgs]; del c2[i][k]
                if still(c2): cfgs = c2; changed = True; break
            if changed: break
    return {'kind': 'opts', 'configs': cfgs}


def run_cases(chk, cases, workdir, stats, do_shrink=True):
    for case, lines, obs, info, findings, diffs, covs in judge_batch(chk, cases, workdir):
        stats['evaluations'] += 1
        kind = case['kind'] if case['kind'] == 'opts' else f"doc-{case['path']}"
        stats['case_kinds'][kind] = stats['case_kinds'].get(kind, 0) + 1
        if lines is None:
            stats['refused'][f"{case['path']}:{info['refused']}"] = stats['refused'].get(f"{case['path']}:{info['refused']}", 0) + 1
            if info['refused'] not in ('ValueError', 'ParseError', 'XMLSyntaxError'):
                chk.reject('C18:refusal:unexpected-exception', f"rules file refused with {info['refused']}", case)
            continue
        results = set()
        for l, o in zip(lines, obs):
            k = l.split()[0]
            if k in ('qapp', 'qprog', 'group', 'groupadd', 'opts'):
                stats['queries'][k] = stats['queries'].get(k, 0) + 1
                results.add(o)
                if o.startswith('err:') or ' err:' in o:
                    e = o[o.index('err:'):].split()[0]
                    stats['impl_errors'][e] = stats['impl_errors'].get(e, 0) + 1
        # branch statistics from the model's coverage flags, and the non-triviality rule
        nt = False
        for kind_, cov in covs:
            br = stats['branches']
            def bump(key): br[key] = br.get(key, 0) + 1
            if kind_ in ('qapp', 'qprog'):
                bump(f"{kind_}:look={cov.get('look')}")
                nm = int(cov.get('nmatch', 0))
                if cov.get('look') == 'pat': bump(f"{kind_}:matching-patterns={'1' if nm == 1 else '2' if nm == 2 else '3+'}")
                if kind_ == 'qprog':
                    bump(f"qprog:chain={cov.get('chain')}")
                    if int(cov.get('ties', 1)) > 1: bump('qprog:tie-between-longest-patterns')
                    if int(cov.get('chain', 0)) >= 2: nt = True
                if cov.get('look') == 'pat' and nm >= 2: nt = True
            elif kind_ in ('group', 'groupadd'):
                bump(f"{kind_}:sign={cov.get('sign')}")
                if cov.get('sign') in ('at', 'hash'): nt = True
            elif kind_ == 'opts':
                fb = int(cov.get('fallback', 0))
                bump(f"opts:fallbacks={'0' if fb == 0 else '1' if fb == 1 else '2+'}")
                if cov.get('cleaned') == '1': bump('opts:synchro-cleaned')
                if cov.get('forced') == '1': bump('opts:failure-strategy-forced')
                if fb or cov.get('cleaned') == '1' or cov.get('forced') == '1': nt = True
        if nt:
            stats['nontrivial'].add(json.dumps(case['items'] if case['kind'] == 'doc' else case['configs'], sort_keys=True))
        for d in diffs: chk.disagree('Rules', dict(d, case=case))
        seen = set()
        for sig, what, q, k in findings:
            if sig in seen: continue
            seen.add(sig)
            stats['rejections'][sig] = stats['rejections'].get(sig, 0) + 1
            known = sig in chk.known
            small = case
            if do_shrink and not known and stats['shrinks'] < 8:
                stats['shrinks'] += 1
                try:
                    small = shrink_opts(chk, workdir, case, sig) if case['kind'] == 'opts' else shrink_doc(chk, workdir, case, sig, q['query_line'])
                    for _, _, _, _, fs2, _, _ in judge_batch(chk, [small], workdir):
                        hit = next((f for f in fs2 if f[0] == sig), None)
                        if hit: what, q = hit[1], hit[2]
                        else: small = case
                except Exception:
                    small = case
            chk.reject(sig, what, dict(q, case=small))


def load_corpus():
    d = os.path.join(VERIF, 'corpus', 'C18')
    cases = []
    if os.path.isdir(d):
        for f in sorted(os.listdir(d)):
            if f.endswith('.json'):
                c = json.load(open(os.path.join(d, f)))
                cases.append(c.get('case', c))
    return cases


def new_stats():
    return {'evaluations': 0, 'case_kinds': {}, 'queries': {}, 'nontrivial': set(), 'impl_errors': {}, 'refused': {}, 'rejections': {},
            'shrinks': 0, 'branches': {}}


def exhaustive_opts():
    """ small scope, complete: every synchro_options subset x empty/non-empty lists x failure strategy (the clean-up clauses),
        and every pool value of every single option on its own """
    cases = []
    names = ['STRICT', 'LIST', 'TIMEOUT', 'CORE', 'USER']
    for mask in range(32):
        sync = ','.join(n for k, n in enumerate(names) if mask >> k & 1)
        for lst in (None, '', 'a,b'):
            for core in (None, '', 'a'):
                for fail in (None, 'RESYNC', 'SHUTDOWN', 'CONTINUE'):
                    cfg = {'synchro_options': sync}
                    if lst is not None: cfg['supvisors_list'] = lst
                    if core is not None: cfg['core_identifiers'] = core
                    if fail is not None: cfg['supvisors_failure_strategy'] = fail
                    cases.append({'kind': 'opts', 'configs': [cfg]})
    for k, pool in OPTION_POOLS.items():
        for v in pool:
            cases.append({'kind': 'opts', 'configs': [{k: v, 'supvisors_list': 'a', 'core_identifiers': 'a'}]})
    return cases


def regen_consts(chk):
    """ translator part of C18: constants, enumerations and literal bounds of the CURRENT source -> Supv/Gen/C18.lean """
    sys.path.insert(0, os.path.join(VERIF, 'tools'))
    import extract_c18
    with core.Lock(os.path.join(core.LEAN, '.lake', 'verif.lock')):
        problems = extract_c18.generate_c18(REPO, os.path.join(core.LEAN, 'Supv', 'Gen'))
    for anchor, ok, detail in problems:
        chk.obligations.append((f'translator:{anchor}', ok, detail))


def run(chk):
    quick = chk.tier == 'quick'
    stats = new_stats()
    regen_consts(chk)
    ok = chk.prove('Supv.Props.C18', extra_targets=['drv_c18'])
    if ok and not quick:
        chk.leanchecker(['Supv.Props.C18', 'Supv.Lemmas.Rules', 'Supv.Spec.C18', 'Supv.Model.Rules'])
    workdir = tempfile.mkdtemp(prefix='supv-verif-c18-', dir='/var/tmp')
    try:
        run_cases(chk, load_corpus(), workdir, stats)
        seeds = [chk.seed] if quick else core.derive_seeds(chk.seed, 8)
        ndocs = 450 if quick else 900
        nopts = 2500 if quick else 6000
        samples = []
        for sd in seeds:
            rnd = random.Random(sd)
            cases = [gen_doc_case(rnd, 'xsd') for _ in range(ndocs)] + [gen_doc_case(rnd, 'et') for _ in range(ndocs)]
            cases += [gen_opts_case(rnd) for _ in range(nopts)]
            if not samples:
                samples = [{'path': cases[0]['path'], 'items': cases[0]['items'][:4]}, cases[-1]]
            for k in range(0, len(cases), 400):
                run_cases(chk, cases[k:k + 400], workdir, stats)
        if not quick:
            ex = exhaustive_opts()
            run_cases(chk, ex, workdir, stats)
            stats['exhaustive_cases'] = len(ex)
        if not chk.obligations_ok() or chk.disagreements:
            # search stage: more inputs, judged on the implementation by the Lean specification
            for sd in core.derive_seeds(chk.seed + 7919, 3):
                rnd = random.Random(sd)
                cases = [gen_doc_case(rnd, 'xsd') for _ in range(300)] + [gen_doc_case(rnd, 'et') for _ in range(300)]
                cases += [gen_opts_case(rnd) for _ in range(2000)] + (exhaustive_opts() if quick else [])
                for k in range(0, len(cases), 400):
                    run_cases(chk, cases[k:k + 400], workdir, stats, do_shrink=True)
    finally:
        shutil.rmtree(workdir, ignore_errors=True)
    chk.coverage.update({
        'evaluations': stats['evaluations'], 'distinct_nontrivial': len(stats['nontrivial']),
        'rule': 'cases = generated rules documents (1-2 files; names, overlapping patterns, model chains incl. cycles, aliases '
                'referencing aliases, sign identifiers, in- and out-of-range values; ~4% with patterns that are not regular '
                'expressions) on both parser paths, each queried for 7 application names x 7 program names + homogeneous groups, '
                'and sequences of 1-3 option dictionaries; non-trivial = a document in which some name is resolved through a pattern '
                'chosen among >= 2 matching patterns or through a reference chain of >= 2 elements or a group carries a sign; an '
                'option sequence in which some option falls back / the synchro clean-up removes something / the failure strategy is '
                'forced; distinct = distinct document / dictionary list',
        'samples': samples, 'case_kinds': stats['case_kinds'], 'queries': stats['queries'],
        'branches': dict(sorted(stats['branches'].items())),
        'implementation_exceptions': stats['impl_errors'], 'documents_refused': stats['refused'],
        'judge_rejections_by_signature': stats['rejections'],
        'traces_validated_against_impl': stats['evaluations'], 'exhaustive': False,
        'exhaustive_small_scope_cases': stats.get('exhaustive_cases', 0)})
    chk.trusted += ['harness/c18.py (drives the real Parser / ProcessRules / ApplicationRules / HomogeneousGroup / SupvisorsOptions; '
                    'XML writer; canonical observation printer; stand-ins: logger, mapper shell around the REAL SupvisorsMapper.filter, '
                    'process shell with process_index/rules)',
                    'lean/Supv/Drv/C18.lean (op-line parser, hex transport, observation printer/parser)',
                    'tools/extract_c18.py (constants, enumerations and literal bounds read from the source)',
                    'Python `re` (match lengths and re.error supplied to the model as data); acceptance of an operational_status formula by the '
                    'real `ApplicationRules.status_formula` setter (ast.parse + shape test, property C15) supplied to the model as data',
                    'modelled, validated by the correspondence, not verified: CPython float() (correct rounding of decimal literals in '
                    '[0.1, 1e5), nan/inf spellings), int(), str.strip/lower/upper on ASCII, list.sort of short lists (count_run + binary '
                    'insertion, needed for nan items), distutils strtobool, supervisor list_of_strings/boolean/byte_size',
                    'libxml2 XSD validation (documents refused by the XSD are only checked to be refused by an exception)',
                    'XML parsing itself (lxml / ElementTree): the model starts from the element tree']
    chk.assumptions += ['strings are printable ASCII + ASCII white space (Python int()/float()/strip/lower/upper re-implemented for that '
                        'alphabet; non-ASCII numerals are outside the model)',
                        'application and program names contain no double quote (they are spliced into an XPath by the code)',
                        'pattern ties (equal match lengths) are left open by the specification',
                        'application-level "@" and "#" beyond the length of the list (roll-over) are not documented: not judged',
                        'options that touch the file system (software_icon, rules_files, css_files, disabilities_file) and the logger '
                        'options are not modelled']


def replay(chk, path):
    c = json.load(open(path))
    r = c.get('replay', c)
    case = r.get('case', r)
    stats = new_stats()
    workdir = tempfile.mkdtemp(prefix='supv-verif-c18-', dir='/var/tmp')
    try:
        run_cases(chk, [case], workdir, stats, do_shrink=False)
    finally:
        shutil.rmtree(workdir, ignore_errors=True)
    chk.coverage.update({'evaluations': 1, 'distinct_nontrivial': len(stats['nontrivial']), 'samples': [case], 'rule': 'replay',
                         'judge_rejections_by_signature': stats['rejections']})
