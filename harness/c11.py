""" C11 — process status synthesis: the real Context/ProcessStatus against the Lean model `Supv.Proc`, judged by
    the Lean specification `Supv.Spec.C11` (driver `drv_c11`). """
import random, itertools, json
from simenv import *
from core import shrink
from supvisors.ttypes import SupvisorsInstanceStates as IS

STATES = [0, 10, 20, 30, 40, 100, 200, 1000]
SNAME = {0: 'STOPPED', 10: 'STARTING', 20: 'RUNNING', 30: 'BACKOFF', 40: 'STOPPING', 100: 'EXITED', 200: 'FATAL', 1000: 'UNKNOWN'}
PROCS = [('app0', 'p0'), ('app0', 'p1'), ('app1', 'p0')]
PIDX = {f'{a}:{p}': k for k, (a, p) in enumerate(PROCS)}


def full_info(pid, state, expected, et, disabled):
    a, p = PROCS[pid]
    return {'group': a, 'name': p, 'state': state, 'statename': SNAME[state], 'start': 0, 'stop': 0, 'now': 1e6 + et / UNIT,
            'pid': 0, 'description': '', 'spawnerr': '' if expected else 'err', 'expected': expected, 'startsecs': 1,
            'stopwaitsecs': 1, 'extra_args': '', 'disabled': disabled, 'now_monotonic': et / UNIT, 'start_monotonic': 0.0,
            'stop_monotonic': 0.0, 'program_name': p, 'process_index': 0, 'has_stdout': False, 'has_stderr': False}


def event_payload(sim, i, pid, state, expected, et, disabled):
    a, p = PROCS[pid]
    return {'identifier': sim.ids[i], 'nick_identifier': f'n{i}', 'group': a, 'name': p, 'state': state, 'now': 1e6 + et / UNIT,
            'now_monotonic': et / UNIT, 'pid': 0, 'expected': expected, 'spawnerr': '' if expected else 'err',
            'extra_args': '', 'disabled': disabled}


def forced_payload(sim, pid, target, state, et):
    a, p = PROCS[pid]
    return {'identifier': sim.ids[target], 'nick_identifier': f'n{target}', 'group': a, 'name': p, 'state': state,
            'forced': True, 'now': 1e6, 'now_monotonic': et / UNIT, 'pid': 0, 'expected': False, 'spawnerr': 'forced',
            'extra_args': ''}


def observe(sim):
    out = []
    for app in sim.context.applications.values():
        for proc in app.processes.values():
            pid = PIDX[proc.namespec]
            run = sorted(sim.idx[x] for x in proc.running_identifiers)
            out.append((pid, f"{pid}={','.join(map(str, run)) if run else '-'}/{int(proc.state)}/{int(proc.displayed_state)}"
                             f"/{int(bool(proc.expected_exit))}/{int(proc.conflicting())}"))
    return ' '.join(s for _, s in sorted(out))


def gen_case(rnd, n=None, nops=None):
    """ a history: mostly-valid (loads before events, running-ish bias to reach conflicts) plus a malformed share
        (events from instances that are not admitted, for unknown processes, orders Supervisor would not produce) """
    n = n or rnd.randint(1, 5); nops = nops or rnd.randint(3, 40)
    ops = []; admitted = set(); et = {i: 100 for i in range(n)}
    last = {}          # (instance, process) -> last reported state (to keep most removals/losses in the claimed domain)
    hostile = rnd.random() < 0.15
    for _ in range(nops):
        dt = rnd.choice([0, 1, 1, 2, 5])
        i = rnd.randrange(n); r = rnd.random()
        if i not in admitted and (r < 0.7 or not admitted):
            npr = rnd.randint(1, len(PROCS))
            snaps = []
            for pid in rnd.sample(range(len(PROCS)), npr):
                et[i] += rnd.randint(0, 3)
                s = rnd.choice([0, 0, 0, 20, 20, 10, 30, 40, 100, 200, 1000])
                snaps.append((pid, s, rnd.random() < 0.7, et[i], rnd.random() < 0.1)); last[(i, pid)] = s
            ops.append((dt, 'load', i, snaps)); admitted.add(i); continue
        pid = rnd.randrange(len(PROCS))
        if r < 0.60:
            et[i] += rnd.randint(0, 4)
            s = rnd.choice(STATES if rnd.random() < 0.4 else [10, 20, 20, 30, 40, 0, 100])
            ops.append((dt, 'event', i, pid, s, rnd.random() < 0.7, et[i], rnd.random() < 0.1))
            if (i, pid) in last and i in admitted: last[(i, pid)] = s
        elif r < 0.70:
            sender = rnd.randrange(n); target = rnd.randrange(n)
            fet = et[target] + rnd.randint(-3, 3)
            ops.append((dt, 'force', sender, pid, target, rnd.choice([200, 0, 200, 1000]), max(0, fet)))
        elif r < 0.80:
            if rnd.random() < 0.75 and any(last.get((i, q)) == 40 for q in range(len(PROCS))):
                continue      # mostly avoid the known-finding class "lost while STOPPING"
            ops.append((dt, 'lose', i)); admitted.discard(i)
            for q in range(len(PROCS)):
                if last.get((i, q)) in (10, 20, 30, 40): last[(i, q)] = 200
        elif r < 0.86:
            if rnd.random() < 0.8 and last.get((i, pid)) in (10, 20, 30, 40):
                continue      # mostly avoid the known-finding class "entry removed while not stopped"
            ops.append((dt, 'remove', i, pid)); last.pop((i, pid), None)
        elif r < 0.90:
            ops.append((dt, 'disable', i, pid, rnd.random() < 0.5))
        else:
            et[i] += rnd.randint(0, 5)
            ops.append((dt, 'tick', i, et[i]))
        if hostile and rnd.random() < 0.3 and ops[-1][1] == 'lose':
            admitted.add(i)   # pretend still admitted: later events come from a non-admitted instance
    return n, ops


def op_line(now, op):
    k = op[1]
    if k == 'load':
        return f"load {now} {op[2]} " + ' '.join(f"{p}:{s}:{int(e)}:{t}:{int(d)}" for p, s, e, t, d in op[3])
    if k == 'event': return f"event {now} {op[2]} {op[3]} {op[4]} {int(op[5])} {op[6]} {int(op[7])}"
    if k == 'force': return f"force {now} {op[2]} {op[3]} {op[4]} {op[5]} {op[6]}"
    if k == 'lose': return f"lose {now} {op[2]}"
    if k == 'remove': return f"remove {now} {op[2]} {op[3]}"
    if k == 'disable': return f"disable {now} {op[2]} {op[3]} {int(op[4])}"
    if k == 'tick': return f"tick {now} {op[2]} {op[3]}"
    raise ValueError(k)


def apply_impl(sim, op):
    """ one operation on the real Context """
    ctx = sim.context; k = op[1]
    if k == 'load':
        st = ctx.instances[sim.ids[op[2]]]
        if st.state != IS.STOPPED: return   # generator only loads a non-admitted instance; be safe
        st.state = IS.CHECKING
        ctx.load_processes(st, [full_info(p, s, e, t, d) for p, s, e, t, d in op[3]])
        st.state = IS.CHECKED
        st.state = IS.RUNNING
    elif k == 'event':
        st = ctx.instances[sim.ids[op[2]]]
        ctx.on_process_state_event(st, event_payload(sim, op[2], op[3], op[4], op[5], op[6], op[7]))
    elif k == 'force':
        st = ctx.instances[sim.ids[op[2]]]
        ctx.on_process_state_event(st, forced_payload(sim, op[3], op[4], op[5], op[6]))
    elif k == 'lose':
        st = ctx.instances[sim.ids[op[2]]]
        if st.state in (IS.CHECKED, IS.RUNNING):
            st.state = IS.FAILED
            ctx.invalidate_failed()
    elif k == 'remove':
        st = ctx.instances[sim.ids[op[2]]]; a, p = PROCS[op[3]]
        ctx.on_process_removed_event(st, {'group': a, 'name': p})
    elif k == 'disable':
        st = ctx.instances[sim.ids[op[2]]]; a, p = PROCS[op[3]]
        ctx.on_process_disability_event(st, {'group': a, 'name': p, 'disabled': op[4]})
    elif k == 'tick':
        st = ctx.instances[sim.ids[op[2]]]
        st.update_tick(1, op[3] / UNIT, 1e6 + op[3] / UNIT, 1)


def run_impl(n, ops):
    """ returns (driver lines, impl observations, error info) """
    T[0] = 10 * UNIT
    sim = Sim(Net(), 1, n)
    lines = ['new | -']; obs = ['']
    err = None
    for op in ops:
        T[0] += op[0]
        now = T[0]
        o = None
        if err is None:
            try:
                with watchdog(20):
                    apply_impl(sim, op)
                o = observe(sim)
            except Hang as e:
                err = ('Hang', str(e)); o = 'err:Hang'
            except Exception as e:
                err = (type(e).__name__, traceback.format_exc()); o = f'err:{type(e).__name__}'
        else:
            o = 'err:dead'
        lines.append(f'{op_line(now, op)} | {o}'); obs.append(o)
        if err: break
    return lines, obs, err


def nontrivial(obs):
    """ a case is non-trivial when at some instant two instances are listed or a forced state is displayed """
    for o in obs:
        for w in o.split():
            if '=' in w:
                f = w.split('=')[1].split('/')
                if ',' in f[0] or f[1] != f[2]: return True
    return False


def signature(clause, pid, tags, last_kind):
    """ signature of a rejected observation: the root-cause input class when the history of that process went
        through one (tags computed by the Lean specification), else clause + kind of the last operation """
    mine = sorted({t.split(':', 1)[1] for t in tags.split(',') if ':' in t and (pid is None or t.split(':', 1)[0] == str(pid))})
    if mine: return 'C11:' + '+'.join(mine)
    return f'C11:{clause}:{last_kind}'


def judge_batch(chk, cases):
    """ runs implementation and model on every case; yields per case (n, ops, obs, findings, diffs) where
        findings = [(signature, what, replay)] (first rejection of the case only) """
    all_lines = []; spans = []
    for n, ops in cases:
        lines, obs, err = run_impl(n, ops)
        spans.append((len(all_lines), len(lines), n, ops, obs, err)); all_lines += lines
    model = chk.driver('drv_c11', all_lines)
    for start, ln, n, ops, obs, err in spans:
        findings = []; diffs = []
        for k in range(1, ln):
            m_obs, verdict, tags = [x.strip() for x in model[start + k].split('|')]
            tags = tags[2:]
            i_obs = obs[k]
            replay = {'instances': n, 'ops': [list(o) for o in ops[:k]], 'failing_op_index': k - 1,
                      'impl_observation': i_obs, 'model_observation': m_obs, 'cause_tags': tags}
            if i_obs.startswith('err:'):
                if m_obs != i_obs:
                    diffs.append(dict(replay, note='implementation raised, model did not'))
                # an exception while synthesising the status: the reported status is no function of the reports
                findings.append((signature('exception:' + i_obs[4:], None, tags, ops[k - 1][1]),
                                 f'{i_obs[4:]} raised while handling {op_line(0, ops[k - 1])}',
                                 dict(replay, traceback=(err or ('', ''))[1][-1500:])))
                break
            if verdict != 'J:ok':
                v = verdict[2:].split(',')[0]
                pid, clause = v.split(':', 1)
                findings.append((signature(clause, pid, tags, ops[k - 1][1]),
                                 f'clause "{clause}" violated for process {pid} after {op_line(0, ops[k - 1])}',
                                 dict(replay, clause=clause, process=pid)))
                break
            if m_obs != i_obs:
                diffs.append(replay)
                break
        yield n, ops, obs, findings, diffs


def run_cases(chk, cases, label, stats, do_shrink=True):
    for n, ops, obs, findings, diffs in judge_batch(chk, cases):
        stats['evaluations'] += 1; stats['ops'] += len(ops)
        for op in ops: stats['op_kinds'][op[1]] = stats['op_kinds'].get(op[1], 0) + 1
        if nontrivial(obs): stats['nontrivial'].add(json.dumps(ops))
        for o in obs:
            if o.startswith('err:'): stats['impl_errors'][o] = stats['impl_errors'].get(o, 0) + 1
        for d in diffs: chk.disagree('Proc', d)
        for f in findings:
            base = f[0]
            k = len(f[2]['ops'])
            small = ops[:k]
            if do_shrink and stats['shrinks'] < 12:
                stats['shrinks'] += 1
                def still(cand):
                    for _, _, _, fs, _ in judge_batch(chk, [(n, cand)]):
                        return any(x[0] == base for x in fs)
                    return False
                small = shrink(list(small), still)
                for _, _, _, fs, _ in judge_batch(chk, [(n, small)]):
                    f = next((x for x in fs if x[0] == base), f)
            chk.reject(f[0], f[1], f[2])
    return stats


def exhaustive_cases(max_len, n):
    """ all report histories up to max_len over n instances x 8 states on ONE process, each instance loaded first """
    alphabet = [('event', i, 0, s, True) for i in range(n) for s in STATES]
    for L in range(1, max_len + 1):
        for combo in itertools.product(alphabet, repeat=L):
            ops = [(1, 'load', i, [(0, 0, True, 100, False)]) for i in range(n)]
            t = 101
            for (_, i, pid, s, e) in combo:
                ops.append((1, 'event', i, pid, s, e, t, False)); t += 1
            yield n, ops


def run(chk):
    quick = chk.tier == 'quick'
    stats = {'evaluations': 0, 'ops': 0, 'op_kinds': {}, 'nontrivial': set(), 'impl_errors': {}, 'shrinks': 0}
    ok = chk.prove('Supv.Props.C11', extra_targets=['drv_c11'])
    # corpus first
    corpus = load_corpus('C11')
    run_cases(chk, corpus, 'corpus', stats)
    seeds = [chk.seed] if quick else core_seeds(chk.seed, 8)
    per_seed = 1500 if quick else 5000
    samples = []
    for sd in seeds:
        rnd = random.Random(sd)
        cases = [gen_case(rnd) for _ in range(per_seed)]
        if not samples: samples = [{'instances': cases[0][0], 'ops': [op_line(0, o) for o in cases[0][1][:12]]}]
        run_cases(chk, cases, f'gen{sd}', stats)
    exhaustive = False
    if not quick:
        ex = list(exhaustive_cases(3, 3)) + list(exhaustive_cases(4, 2))
        for k in range(0, len(ex), 4000):
            run_cases(chk, ex[k:k + 4000], 'exhaustive', stats)
        stats['exhaustive_cases'] = len(ex)
    if not chk.obligations_ok() or chk.disagreements:
        # search stage: more histories, judged on the implementation by the Lean specification
        for sd in core_seeds(chk.seed + 7919, 4):
            rnd = random.Random(sd)
            run_cases(chk, [gen_case(rnd) for _ in range(2000)], f'search{sd}', stats)
    chk.coverage.update({
        'evaluations': stats['evaluations'], 'distinct_nontrivial': len(stats['nontrivial']),
        'rule': 'generated Context histories (loads, events in any order incl. orders Supervisor would not produce, forced '
                'events, losses, removals, disability, ticks; 1-5 instances, 3 processes; ~15% hostile stream); '
                'non-trivial = some instant with two listed instances or a displayed forced state; distinct = distinct op list',
        'samples': samples, 'operations': stats['ops'], 'op_kinds': stats['op_kinds'],
        'implementation_exceptions': stats['impl_errors'], 'traces_validated_against_impl': stats['evaluations'],
        'exhaustive': False, 'exhaustive_small_scope_cases': stats.get('exhaustive_cases', 0)})
    chk.trusted += ['harness/c11.py + harness/simenv.py (drive the real Context/ProcessStatus; canonical observation printer)',
                    'lean/Supv/Drv/C11.lean (op-line parser, projection of Context ops to process-level ops)',
                    'modelled, not verified: Context admission guard reduced to CHECKED/RUNNING membership; '
                    'time.monotonic replaced by the harness clock']
    chk.assumptions += ['reception-time ties are left open by the specification (relational judge)',
                        'events are those the real Context lets through (unknown process / no entry: ignored)']


def load_corpus(prop):
    import os
    d = os.path.join(os.path.dirname(os.path.dirname(os.path.abspath(__file__))), 'corpus', prop)
    cases = []
    if os.path.isdir(d):
        for f in sorted(os.listdir(d)):
            if f.endswith('.json'):
                c = json.load(open(os.path.join(d, f)))
                cases.append((c['instances'], [tuple(tuple(x) if isinstance(x, list) and x and isinstance(x[0], list) else x for x in op)
                                               if False else _tup(op) for op in c['ops']]))
    return cases


def _tup(op):
    op = list(op)
    if op[1] == 'load': op[3] = [tuple(s) for s in op[3]]
    return tuple(op)


def core_seeds(seed, n):
    from core import derive_seeds
    return derive_seeds(seed, n)


def replay(chk, path):
    c = json.load(open(path))
    r = c.get('replay', c)
    stats = {'evaluations': 0, 'ops': 0, 'op_kinds': {}, 'nontrivial': set(), 'impl_errors': {}, 'shrinks': 0}
    run_cases(chk, [(r['instances'], [_tup(o) for o in r['ops']])], 'replay', stats)
    chk.coverage.update({'evaluations': 1, 'distinct_nontrivial': len(stats['nontrivial']), 'samples': [r['ops'][:10]], 'rule': 'replay'})
