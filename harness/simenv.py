""" Common simulation environment: the REAL supvisors classes of /repo, in-process, with only the outer world replaced:
    clock, hostname/uuid look-ups, the XML-RPC transport (a fake ServerProxy calling the target instance's real
    RPCInterface), the Supervisor process table (an optional fake), the logger (recording).

    Importing this module patches `time.monotonic`, `time.time` and a few `socket` functions for the whole process.
    The clock is an integer number of units (1/1024 s, exact in binary floating point) that only the harness advances.
"""
import os, sys, json, signal, warnings, traceback
warnings.filterwarnings('ignore')
from unittest.mock import Mock, patch

REPO = os.environ.get('SUPVISORS_REPO', '/repo')
if REPO != '/repo' or True:
    # always import the working tree named by SUPVISORS_REPO (default /repo), never an installed copy
    sys.path.insert(0, REPO)

UNIT = 1024
T = [10 * UNIT]
# plain functions (`new=`), not MagicMocks: a MagicMock records every call for the life of the process
patch('time.monotonic', new=lambda: T[0] / UNIT).start()
patch('time.time', new=lambda: 1.0e6 + T[0] / UNIT).start()

CUR = [1]            # index (1-based) of the instance being constructed / acting as "local host"


def _gethostbyaddr(x):
    ident = x.split('.')[-1]
    return f'supv0{ident}.bzh', [f'cliche0{ident}', f'supv0{ident}'], [x]


patch('socket.gethostname', new=lambda: f'supv0{CUR[0]}.bzh').start()
patch('socket.getfqdn', new=lambda *a: f'supv0{CUR[0]}.bzh').start()
patch('socket.gethostbyaddr', new=_gethostbyaddr).start()
patch('socket.if_nameindex', new=lambda: [(1, 'lo'), (2, 'eth0')]).start()
patch('uuid.getnode', new=lambda: 1250999896491 + CUR[0]).start()
import supvisors.internal_com.mapper as _mapper_mod
patch.object(_mapper_mod, 'get_interface_info',
             new=lambda x: {'lo': ('127.0.0.1', '255.0.0.0'),
                            'eth0': (f'10.0.0.{CUR[0]}', '255.255.255.0')}[x]).start()

import supvisors
assert os.path.realpath(os.path.dirname(supvisors.__file__)).startswith(os.path.realpath(REPO)), \
    f'supvisors imported from {supvisors.__file__}, expected {REPO}'

from supvisors.tests.base import DummySupervisor
from supvisors.options import SupvisorsOptions
from supvisors.supervisordata import SupervisorData
from supvisors.internal_com.mapper import SupvisorsMapper
from supvisors.internal_com.rpchandler import RpcHandler
from supvisors.internal_com.supervisorproxy import (SupervisorProxy, SupervisorProxyThread, SupervisorProxyServer, InternalEventHeaders,
                                                     SupervisorProxyException)
from supvisors.statemodes import SupvisorsStateModes
from supvisors.context import Context
from supvisors.commander import Starter, Stopper, StarterModel
from supvisors.strategy import RunningFailureHandler
from supvisors.statemachine import FiniteStateMachine
from supvisors.listener import SupervisorListener
from supvisors.rpcinterface import RPCInterface
from supvisors.ttypes import *
from supervisor.xmlrpc import RPCError


class Hang(BaseException):
    """ raised by the watchdog when an implementation operation does not return (a BaseException: the last-resort guards of
        the implementation - `except Exception` - must not swallow it) """


class watchdog:
    """ every implementation-side operation runs under a watchdog: a hang is a finding, never a check time-out """
    def __init__(self, seconds=20):
        self.seconds = seconds

    def _fire(self, signum, frame):
        raise Hang(f'operation did not return within {self.seconds}s')

    # The budget is counted in CPU time of this process (ITIMER_PROF): an operation that loops for ever burns it and is reported, while
    # a process that is merely descheduled on a loaded machine is not (a wall-clock alarm of 10 s fired once, spuriously, during a sweep
    # with a load average above 12: not reproducible, corrected here).  A wall-clock alarm of 30 x the budget stays as a fallback for
    # an operation that would block without computing.
    def __enter__(self):
        self.old = signal.signal(signal.SIGALRM, self._fire)
        self.oldp = signal.signal(signal.SIGPROF, self._fire)
        signal.setitimer(signal.ITIMER_PROF, self.seconds)
        signal.alarm(self.seconds * 30)

    def __exit__(self, *exc):
        signal.setitimer(signal.ITIMER_PROF, 0)
        signal.alarm(0)
        signal.signal(signal.SIGPROF, self.oldp)
        signal.signal(signal.SIGALRM, self.old)
        return False


class Net:
    """ the simulated network: which instances are up, which pairs are cut """
    def __init__(self):
        self.instances = {}; self.down = set(); self.cut = set(); self.sent_to_isolated = []; self.rpc_exceptions = []

    def reachable(self, a, b):
        return b not in self.down and a not in self.down and frozenset((a, b)) not in self.cut


class FakeNS:
    def __init__(self, fn): self._fn = fn
    def __getattr__(self, name): return lambda *a: self._fn(name, *a)


class FakeServerProxy:
    """ replaces xmlrpc ServerProxy: the call reaches the REAL RPCInterface of the target or fails atomically """
    def __init__(self, net, src, dst):
        self.net, self.src, self.dst = net, src, dst
        self.supervisor = FakeNS(self._supervisor); self.supvisors = FakeNS(self._supvisors)

    def _check(self, name=''):
        # C13 observable: an XML-RPC really leaves `src` for an instance that `src` holds ISOLATED
        src = self.net.instances.get(self.src)
        if src is not None and self.src != self.dst and src.context.instances[self.dst].state == SupvisorsInstanceStates.ISOLATED:
            self.net.sent_to_isolated.append((self.src, self.dst, name))
        if not self.net.reachable(self.src, self.dst): raise ConnectionRefusedError('sim')

    def _supervisor(self, name, *args):
        self._check(name + ':' + (str(args[0])[:24] if args else '')); tgt = self.net.instances[self.dst]
        if name == 'sendRemoteCommEvent': tgt.inbox.append((args[0], args[1])); return True
        if name in ('restart', 'shutdown'): tgt.orders.append(name); return True
        if name == 'stopProcess' and getattr(tgt, 'fake', None): return tgt.fake.stop(args[0])
        raise NotImplementedError(name)

    def _supvisors(self, name, *args):
        self._check(name); tgt = self.net.instances[self.dst]
        if name in ('restart', 'shutdown'):
            tgt.rpc_call(name); return True
        if name == 'start_args' and getattr(tgt, 'fake', None): return tgt.fake.start(args[0])
        return json.loads(json.dumps(getattr(tgt.rpc, name)(*args)))


class _Q(list):
    """ the proxy queue as a plain FIFO list (what `queue.Queue.put_nowait` does, without a consumer thread) """
    def put_nowait(self, message): self.append(message)


class SimProxy(SupervisorProxyThread):
    """ the REAL SupervisorProxyThread (push_message / process_event / handle_exception and, inherited from SupervisorProxy,
        publish / execute / check_instance / _is_authorized / xml_rpc error mapping); the thread is never started: the
        scheduler pops one message at a time (`step`) """
    def __init__(self, status, supvisors):
        super().__init__(status, supvisors); self.net = supvisors.net; self.queue = _Q()

    @property
    def proxy(self): return FakeServerProxy(self.net, self.supvisors.mapper.local_identifier, self.status.identifier)

    def start(self): pass

    def join(self, timeout=None):
        # what the end of `run` does once `stop` has been called: pending messages are dropped, the server forgets the proxy
        if self.stop_event.is_set():
            del self.queue[:]
            self.supvisors.rpc_handler.proxy_server.on_proxy_closing(self.status.identifier)

    def step(self):
        self.process_event(self.queue.pop(0))


class SimProxyServer(SupervisorProxyServer):
    """ the REAL SupervisorProxyServer (get_proxy / push_request / push_publication / push_notification), creating
        `SimProxy` objects instead of running threads """
    klass = SimProxy

    def __init__(self, supvisors, net=None): super().__init__(supvisors)


class RecLogger:
    """ records `critical` messages (the last-resort guards log their traceback there) and `error` messages """
    level = 50; handlers = []

    def __init__(self): self.crit = []; self.errors = []
    def critical(self, msg): self.crit.append(msg)
    def error(self, msg): self.errors.append(msg)
    def _drop(self, msg): pass
    warn = info = debug = trace = blather = _drop
    def log(self, level, msg): pass
    def close(self): pass


DEFAULT_OPTS = {'synchro_timeout': '20', 'inactivity_ticks': '2', 'core_identifiers': '', 'auto_fence': 'false',
                'starting_strategy': 'CONFIG', 'conciliation_strategy': 'USER', 'stats_enabled': 'false',
                'synchro_options': 'LIST', 'supvisors_failure_strategy': 'CONTINUE'}


class Sim:
    """ one complete Supvisors instance made of the real classes """
    def __init__(self, net, k, n, opts=None):
        CUR[0] = k; self.k = k; self.net = net; self.n = n
        o = dict(DEFAULT_OPTS); o.update(opts or {})
        o.setdefault('supvisors_list', ','.join(f'10.0.0.{i}' for i in range(1, n + 1)))
        supervisord = DummySupervisor(); supervisord.process_groups = {}
        self.supervisord = supervisord
        self.logger = RecLogger()
        self.options = SupvisorsOptions(supervisord, self.logger, **o)
        self.options.synchro_options = list(self.options.synchro_options)
        self.options.rules_files = []
        self.supervisor_data = SupervisorData(self, supervisord); supervisord.supvisors = self
        self.supervisor_updater = Mock()
        self.mapper = SupvisorsMapper(self)
        self.mapper.configure([f'10.0.0.{i}' for i in range(1, n + 1)], set(), list(self.options.core_identifiers))
        self.server_options = Mock(); self.stats_collector = None
        self.host_compiler = Mock(); self.process_compiler = Mock()
        self.discovery_handler = None; self.external_publisher = None
        self.state_modes = SupvisorsStateModes(self); self.context = Context(self)
        self.starter = Starter(self); self.stopper = Stopper(self); self.starter_model = StarterModel(self)
        self.failure_handler = RunningFailureHandler(self); self.parser = None
        # supervisor.events.callbacks is a module-level list: the listeners of the clusters built earlier (another Net) would stay subscribed
        # - and alive, with everything they reach - for the life of the process
        from supervisor import events as _sev
        self._simnet = net
        _sev.callbacks[:] = [(t, c) for t, c in _sev.callbacks
                             if getattr(getattr(getattr(c, '__self__', None), 'supvisors', None), '_simnet', net) is net]
        self.listener = SupervisorListener(self); self.fsm = FiniteStateMachine(self)
        self.rpc_handler = RpcHandler(self); self.rpc_handler.proxy_server = SimProxyServer(self, net)
        self.sessions = Mock(); self.rpc = RPCInterface(self)
        self.rpc.get_all_local_process_info = lambda: []
        self.inbox = []; self.orders = []; self.fake = None
        self.identifier = self.mapper.local_identifier
        self.ids = list(self.mapper.instances)
        self.idx = {ident: i for i, ident in enumerate(self.mapper.instances)}
        net.instances[self.identifier] = self
        self.listener.counter = 0

    def rpc_call(self, name, *args):
        """ a re-routed supvisors.restart/shutdown reaching this instance (overridden by recording harnesses) """
        try: getattr(self.rpc, name)(*args)
        except RPCError: pass

    def proxies_with_work(self):
        return [(i, p) for i, p in self.rpc_handler.proxy_server.proxies.items() if p.queue]

    def take_tracebacks(self):
        """ critical records carrying a traceback = internal errors caught by a last-resort guard """
        tb = [c for c in self.logger.crit if 'Traceback' in c]
        self.logger.crit = [c for c in self.logger.crit if 'Traceback' not in c]
        return tb


def tb_signature(text):
    """ 'ExceptionClass @ function' of a formatted traceback """
    lines = [l for l in text.strip().split('\n') if l.strip()]
    last = lines[-1] if lines else '?'
    where = [l.strip() for l in lines if 'File "' in l and '/supvisors/' in l and '/tests/' not in l]
    fn = where[-1].split(', in ')[-1] if where else '?'
    return f"{last.split(':')[0].strip()}@{fn}"
