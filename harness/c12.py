""" C12 - all instances agree on where processes run, and that view is true.
    Proof obligations: Supv.Props.C12.  Correspondence: global lock-step of N real instances - each with the process table of its
    Supervisor, the REAL SupervisorListener.on_process_state / SupervisorProxy.publish / check_instance / Context.load_processes /
    on_process_state_event - with the Lean cluster model extended with the replicated process database (`Net.truth`, `Net.data`).
    Judge (on the real objects): after the last disturbance, all cuts healed, 10 quiet ticks and a RECORDED drain of every queue, for
    every live instance i, every instance j that i sees RUNNING and every program p of j: the last report i holds from j about p is
    what the Supervisor of j says.  A stale triple is attributed to its cause by the ghost state of the model (the fate of the last
    report of j about p on its way to i), which is in lock-step with the implementation. """
from cluster import *
import os

INAMES = {0: 'STOPPED', 1: 'CHECKING', 2: 'CHECKED', 3: 'RUNNING', 4: 'FAILED', 5: 'ISOLATED'}


def nontrivial(lines, obs, n):
    return sum(1 for l in lines if l.startswith('act') and l.split()[2] == 'pev') >= 5 and \
        any(l.startswith('act') and l.split()[2] in ('crash', 'restart', 'cut', 'heal') for l in lines)


def rec_drain(sims, net, rec, limit=4000):
    """ deliver everything that is pending, every step recorded for the model (quiescence, no tick) """
    for _ in range(limit):
        acts = []
        for s in sims:
            if s.identifier in net.down: continue
            if s.inbox: acts.append(('deliver', s))
            for ident, p in s.proxies_with_work(): acts.append(('proxy', s, p))
        if not acts: return True
        a = acts[0]
        T[0] += 1
        with watchdog(10):
            if a[0] == 'deliver':
                try: origin = a[1].idx.get(json.loads(a[1].inbox[0][1])[0][0])
                except Exception: origin = None
                kind = 'p' if a[1].inbox[0][0] == SUPVISORS_PUBLICATION else 'n'
                a[1].deliver(); rec.rec(sims, f'deliver {a[1].k - 1}' + (f' {origin} {kind}' if origin is not None else ''))
            else:
                tgt = a[1].idx[a[2].status.identifier]
                a[2].step(); rec.rec(sims, f'exec {a[1].k - 1} {tgt}')
    return False


def judge(sims, net, opts, n, info, rec):
    """ returns the stale triples (receiver, sender, program, held, truth); the fates line is recorded for the model """
    stale = []
    info['judged'] = False
    live = [s for s in sims if s.identifier not in net.down]
    if net.cut or not live: return stale
    if not rec_drain(sims, net, rec): return stale
    info['judged'] = True
    RUN = SupvisorsInstanceStates.RUNNING
    for s in live:
        for t in live:
            # mutual: an instance that the other one has already isolated / lost will be detected silent at the next ticks
            if s.context.instances[t.identifier].state != RUN or t.context.instances[s.identifier].state != RUN: continue
            for p in t.known:
                app = s.context.applications.get('app'); proc = app.processes.get(f'p{p}') if app else None
                held = proc.info_map.get(t.identifier, {}).get('state') if proc else None
                if held != t.truth[p]['state']:
                    stale.append((s.k - 1, t.k - 1, p, held, t.truth[p]['state']))
    # the listing and the running flag against the truth, and the agreement between the instances that see everybody RUNNING
    other = []
    staleset = {(i, j, p) for (i, j, p, _, _) in stale}
    full = [s for s in live if all(s.context.instances[t.identifier].state == RUN and t.context.instances[s.identifier].state == RUN for t in live)]
    for s in full:
        app = s.context.applications.get('app')
        for p in range(s.nproc):
            proc = app.processes.get(f'p{p}') if app else None
            if proc is None: continue
            if any((s.k - 1, t.k - 1, p) in staleset for t in live): continue      # already reported with its cause
            listed = {s.idx[x] for x in proc.running_identifiers}
            for t in live:
                if p not in t.known: continue
                st = t.truth[p]['state']
                if st in (10, 20, 30) and (t.k - 1) not in listed:
                    other.append(('C12:listing-not-truth', f'instance {s.k - 1} does not list instance {t.k - 1} for p{p} whose Supervisor says {st}'))
                if st in (0, 100, 200, 1000) and (t.k - 1) in listed:
                    other.append(('C12:listing-not-truth', f'instance {s.k - 1} lists instance {t.k - 1} for p{p} whose Supervisor says {st}'))
    for a in full:
        for b in full:
            if a.k >= b.k: continue
            for p in range(a.nproc):
                if any((x.k - 1, t.k - 1, p) in staleset for x in (a, b) for t in live): continue
                va, vb = a.process_view(p), b.process_view(p)
                if va == vb or '1000' in (va.split(':')[0], vb.split(':')[0]): continue
                ra, rb = va.split(':')[1], vb.split(':')[1]
                sa, sb = int(va.split(':')[0]), int(vb.split(':')[0])
                stopping = any(t.truth.get(p, {}).get('state') == 40 for t in live)
                if ra != rb:
                    # the instances listed by one and not by the other
                    liveidx = {t.k - 1 for t in live}
                    diff = {int(ch) for ch in ra if ch.isdigit()} ^ {int(ch) for ch in rb if ch.isdigit()}
                    def held40(x, d):
                        app_ = x.context.applications.get('app'); pr_ = app_.processes.get(f'p{p}') if app_ else None
                        return bool(pr_) and pr_.info_map.get(x.ids[d], {}).get('state') == 40
                    if diff and all(d not in liveidx and (held40(a, d) or held40(b, d)) for d in diff):
                        # root cause C11:lose-while-only-stopping: the STOPPING entry of a LOST instance stays listed
                        other.append(('C12:listing-disagreement:lost-instance-listed-while-stopping',
                                      f'instances {a.k - 1} and {b.k - 1} list p{p} on [{ra}] and [{rb}]: a lost instance whose last report was STOPPING is still listed'))
                        continue
                    other.append(('C12:listing-disagreement-while-stopping' if stopping else 'C12:listing-disagreement',
                                  f'instances {a.k - 1} and {b.k - 1} (same instances seen RUNNING, true views) list p{p} on [{ra}] and [{rb}]'))
                elif (sa in (10, 20, 30)) != (sb in (10, 20, 30)):
                    other.append(('C12:running-flag-disagreement', f'instances {a.k - 1} and {b.k - 1} report p{p} as {sa} and {sb}'))
    rec.rec(sims, 'fates')
    return [('stale', stale), ('other', other)]


def fates_of(model_lines, lines):
    fl = next((m for m, l in zip(reversed(model_lines), reversed(lines)) if l.split('|')[0].split()[2:3] == ['fates']), '')
    fates = {}
    if '| F:' in fl:
        for w in fl.split('| F:')[1].strip().split(','):
            if w:
                sd, p, f = w.split(':', 2); s_, d_ = sd.split('>')
                fates[(int(d_), int(s_), int(p))] = f
    return fates


def signatures(stale, fates):
    out = {}
    for (i, j, p, held, truth) in stale:
        f = fates.get((i, j, p), 'delivered')
        if f.startswith('filtered-while-') or f.startswith('refused-while-'):
            k, code = f.rsplit('-', 1); f = f"{k}-{INAMES.get(int(code), code)}"
        out.setdefault(f'C12:stale:{f}', f'at quiescence instance {i} holds state {held} for program p{p} of instance {j} (seen RUNNING) whose '
                       f'Supervisor says {truth}; fate of the last report of {j} about p{p} towards {i}: {f}')
    return out


CHK = [None]
KNOWN_SIGS = set()


def script_signatures(n, per, programs, actions):
    """ run a script on fresh real instances, lock-step the model, judge: (signatures, recorder, model lines, diff) """
    rec = Recorder()
    sims, net = run_script(n, per, actions, rec, programs=programs)
    info = {}
    extra = judge(sims, net, None, n, info, rec)
    model = CHK[0].driver('drv_net', rec.lines)
    diff = next((k for k, (o, m) in enumerate(zip(rec.obs, model)) if o != m.split('|')[0].strip()), None)
    stale = dict(extra).get('stale', []) if extra else []
    sigs = signatures(stale, fates_of(model, rec.lines))
    for sig, what in (dict(extra).get('other', []) if extra else []): sigs.setdefault(sig, what)
    return sigs, rec, model, diff


def minimize(n, per, programs, actions, sig, max_tests=250):
    from core import shrink
    return shrink(actions, lambda a: sig in script_signatures(n, per, programs, a)[0], max_tests=max_tests)


def post_judge(extra, model_lines, lines, base):
    out = []
    stale = dict(extra).get('stale', []) if extra else []
    sigs = signatures(stale, fates_of(model_lines, lines))
    seen = set()
    for sig, what in (dict(extra).get('other', []) if extra else []):
        if sig not in seen: seen.add(sig); out.append((sig, what, {}))
    for sig, what in sigs.items():
        rep = {}
        if sig not in KNOWN_SIGS:
            # a new way of being stale: minimize the schedule (delta debugging on the recorded actions, real code + model)
            info = base['info']; n = base['n']
            actions = [a for a in script_of(lines) if a[1] != 'fates']
            if not any(a[1].startswith('inject') for a in actions):
                per = {int(k): v for k, v in info['per'].items()}
                small = minimize(n, per, info['programs'], actions, sig)
                rep = {'script': small, 'n': n, 'per': per, 'programs': info['programs'], 'minimized_from': len(actions)}
        out.append((sig, what, rep))
    return out


def run(chk):
    chk.regen(['enum:SupvisorsInstanceStates', 'supervisor.states'])
    chk.prove('Supv.Props.C12', extra_targets=['drv_net'])
    if chk.tier == 'thorough': chk.leanchecker(['Supv.Props.C12'])
    CHK[0] = chk
    for l in open(os.path.join(os.path.dirname(os.path.dirname(os.path.abspath(__file__))), 'known_findings.jsonl')):
        if l.strip() and not l.startswith('#'):
            k = json.loads(l)
            if k['property'] == 'C12' and k['status'] == 'known': KNOWN_SIGS.add(k['signature'])
    # corpus first: minimized scripts of past failures (known findings), replayed on the real code and on the model
    cdir = os.path.join(os.path.dirname(os.path.dirname(os.path.abspath(__file__))), 'corpus', 'C12')
    ncorpus = 0
    for f in sorted(os.listdir(cdir)) if os.path.isdir(cdir) else []:
        if not f.endswith('.json'): continue
        r = json.load(open(os.path.join(cdir, f)))
        if 'script' not in r and 'schedule_seed' in r:
            rec0 = Recorder()
            sims0, net0, opts0, n0, info0 = run_schedule(r['schedule_seed'], rec0, **(r.get('kwargs') or {}))
            extra0 = judge(sims0, net0, opts0, n0, info0, rec0)
            model0 = chk.driver('drv_net', rec0.lines)
            diff = next((k for k, (o, m) in enumerate(zip(rec0.obs, model0)) if o != m.split('|')[0].strip()), None)
            ncorpus += 1
            if diff is not None: chk.disagree('Net', {'corpus': f, 'step': diff, 'impl': rec0.obs[diff], 'model': model0[diff]})
            sigs0 = signatures(dict(extra0).get('stale', []), fates_of(model0, rec0.lines))
            for sig, what in dict(extra0).get('other', []): sigs0.setdefault(sig, what)
            for sig, what in sigs0.items(): chk.reject(sig, what, {'corpus': f'corpus/C12/{f}', 'how': f'./check C12 --replay corpus/C12/{f}'})
            continue
        if 'script' not in r: continue
        per = {int(k): v for k, v in r['per'].items()}
        programs = (r['programs'][0], {int(k): v for k, v in r['programs'][1].items()})
        sigs, rec0, model0, diff = script_signatures(r['n'], per, programs, [tuple(a) for a in r['script']])
        ncorpus += 1
        if diff is not None: chk.disagree('Net', {'corpus': f, 'step': diff, 'impl': rec0.obs[diff], 'model': model0[diff]})
        for sig, what in sigs.items(): chk.reject(sig, what, {'corpus': f'corpus/C12/{f}', 'how': f'./check C12 --replay corpus/C12/{f}'})
    judged = [0]
    def j(sims, net, opts, n, info, rec):
        r = judge(sims, net, opts, n, info, rec); judged[0] += bool(info.get('judged')); return r
    cluster_check(chk, ['C12-'], nontrivial,
                  'generated cluster schedules (2-4 instances, 1-3 programs each known by a subset of the Supervisors) with process state '
                  'changes at any time, crashes, restarts (also faster than detection), cuts, heals, held proxies; then all cuts healed, 10 quiet '
                  'ticks and a recorded drain; non-trivial = at least 5 process events and one crash / restart / cut / heal; distinct = schedule seed',
                  quick_cases=70, thorough_cases=1200,
                  sched_kwargs={'quiet_ticks': 10, 'nmax': 4, 'heal_at_end': True, 'procs': True, 'rpc_names': ('end_sync',), 'removals': False},
                  extra_judge=j, post_judge=post_judge)
    chk.coverage['schedules_judged_at_quiescence'] = judged[0]; chk.coverage['corpus_scripts_replayed'] = ncorpus
    chk.assumptions += ['programs are not removed from a Supervisor configuration in these schedules (the ghost attribution does not follow PROCESS_REMOVED publications; '
                        'removals are exercised by the process streams of ./check C13 and ./check C16)',
                        'applications are unmanaged (no rules file): the FSM is not influenced by the processes; no start / stop request',
                        'the truth of an instance is the table its (simulated) Supervisor holds; a Supervisor restart resets it without events']


def replay(chk, path):
    CHK[0] = chk
    c = json.load(open(path)); r = c.get('replay', c)
    if 'script' in r:
        per = {int(k): v for k, v in r['per'].items()}
        programs = (r['programs'][0], {int(k): v for k, v in r['programs'][1].items()}) if r.get('programs') else None
        sigs, rec, model, diff = script_signatures(r['n'], per, programs, [tuple(a) for a in r['script']])
        if diff is not None: chk.disagree('Net', {'step': diff, 'impl': rec.obs[diff], 'model': model[diff]})
        for sig, what in sigs.items(): chk.reject(sig, what, dict(r))
        chk.coverage.update({'evaluations': 1, 'distinct_nontrivial': 0, 'rule': 'replay of one minimized script', 'samples': [r['script'][:10]]})
        return
    rec = Recorder()
    sims, net, opts, n, info = run_schedule(r['schedule_seed'], rec, **(r.get('kwargs') or {}))
    extra = judge(sims, net, opts, n, info, rec)
    model = chk.driver('drv_net', rec.lines)
    diff = next((k for k, (o, m) in enumerate(zip(rec.obs, model)) if o != m.split('|')[0].strip()), None)
    if diff is not None: chk.disagree('Net', {'step': diff, 'impl': rec.obs[diff], 'model': model[diff]})
    stale = dict(extra).get('stale', []) if extra else []
    sigs = signatures(stale, fates_of(model, rec.lines))
    for sig, what in (dict(extra).get('other', []) if extra else []): sigs.setdefault(sig, what)
    for sig, what in sigs.items(): chk.reject(sig, what, {'schedule_seed': r['schedule_seed']})
    chk.coverage.update({'evaluations': 1, 'distinct_nontrivial': 0, 'rule': 'replay of one schedule', 'samples': [r['schedule_seed']]})
