""" C05 — conflicts are detected and conciliated exactly as the strategy says.
    The REAL Context / ProcessStatus / strategy classes / Stopper / Starter / FiniteStateMachine of one Master instance
    (harness/simenv.py) against the Lean model `Supv.Conc` (+ `Supv.Inst` for the FSM decisions), judged by the Lean
    specification `Supv.Spec.C05` (driver `drv_c05`).

    Scenario A (H1): generated worlds (several applications, managed or not, several processes, 2-4 copies with generated
      start times incl. ties, conflicts present in the handshake snapshots or created by later events), the real
      `conciliate_conflicts(sim, strategy, sim.context.conflicts())`:
        variant `sink`  - the methods the strategies call on stopper / failure_handler are recording sinks;
        variant `real`  - the real Stopper / Starter run, the requests really emitted through `rpc_handler` are recorded, the
                          stop commands are acknowledged by stopped-like events through `fsm.on_process_state_event` in a
                          generated order until the jobs are over, then `context.conflicting()` must be false.
    Scenario B (H2): the same world with the instance set up as Master in OPERATION; a generated script of FSM ticks
      (`fsm.next()`), acknowledgements, intermediate STOPPING reports, new duplicates appearing meanwhile and start
      acknowledgements; every evaluation of `OperationState` / `ConciliationState` is compared with `Supv.Inst`, every
      conciliation round with `Supv.Conc`; at the end the state must be back to OPERATION without conflict (USER: still
      CONCILIATION, nothing stopped).  A Slave variant checks that a non-Master never conciliates. """
import os, sys, json, random, itertools, copy
from simenv import *
from core import shrink, derive_seeds
from supvisors.internal_com.mapper import LocalNetwork
from supvisors.application import ApplicationRules, ApplicationStatus
from supvisors.commander import ProcessStopCommand
from supvisors.strategy import conciliate_conflicts
from supvisors.ttypes import (SupvisorsInstanceStates as IS, ConciliationStrategies as CS, RunningFailureStrategies as RFS,
                              SupvisorsStates as SS)
import supvisors.statemachine as sm

SNAME = {0: 'STOPPED', 10: 'STARTING', 20: 'RUNNING', 30: 'BACKOFF', 40: 'STOPPING', 100: 'EXITED', 200: 'FATAL', 1000: 'UNKNOWN'}
STRATS = ['SENICIDE', 'INFANTICIDE', 'USER', 'STOP', 'RESTART', 'RUNNING_FAILURE']
NOW0 = 2000 * UNIT          # remote clocks at world creation (units of 1/1024 s)


def full_info(app, name, state, now, start):
    return {'group': app, 'name': name, 'state': state, 'statename': SNAME[state], 'start': 1e6 + start / UNIT, 'stop': 0,
            'now': 1e6 + now / UNIT, 'pid': 0, 'description': '', 'spawnerr': '', 'expected': True, 'startsecs': 1,
            'stopwaitsecs': 10, 'extra_args': '', 'disabled': False, 'now_monotonic': now / UNIT,
            'start_monotonic': start / UNIT, 'stop_monotonic': 0.0, 'program_name': name, 'process_index': 0,
            'has_stdout': False, 'has_stderr': False}


def event(ident, app, name, state, now, expected=True):
    return {'identifier': ident, 'nick_identifier': ident, 'group': app, 'name': name, 'state': state, 'now': 1e6 + now / UNIT,
            'now_monotonic': now / UNIT, 'pid': 0, 'expected': expected, 'spawnerr': '' if expected else 'boom',
            'extra_args': '', 'disabled': False}


# ------------------------------------------------------------------------------------------------ world description
def gen_spec(rnd, stream='plain', scenario='A'):
    """ a world: applications (managed or not), processes, per-instance initial reports, later events, strategy.
        stream 'plain': no STOPPING report anywhere; 'stopping': some running copies then report STOPPING (they stay listed);
        'snapstop': some instances report STOPPING in their handshake snapshot (never listed) """
    stopping_stream = stream == 'stopping'
    n = rnd.randint(2, 5)
    durations = rnd.sample([0, 1, 3, 5, 8, 13, 30, 60, 100, 400], 4)        # few distinct ages -> ties of uptime
    apps = []
    for a in range(rnd.randint(1, 4)):
        procs = []
        for k in range(rnd.randint(1, 4)):
            r = rnd.random()
            ncopies = 0 if r < 0.15 else 1 if r < 0.35 else rnd.choice([2, 2, 2, 3, 3, 4])
            ncopies = min(ncopies, n)
            running_on = rnd.sample(range(n), ncopies)
            known = [i for i in range(n) if i in running_on or rnd.random() < 0.8] or [rnd.randrange(n)]
            copies = {}
            for i in known:
                now = NOW0 + rnd.choice([0, 0, 1, 2, 5]) * UNIT + 37 * i           # each instance has its own clock
                if i in running_on:
                    st = rnd.choice([20, 20, 20, 20, 10, 30])
                    copies[str(i)] = [st, now - rnd.choice(durations) * UNIT, now]
                elif stream == 'snapstop' and rnd.random() < 0.3:
                    copies[str(i)] = [40, now - rnd.choice(durations) * UNIT, now]
                else:
                    copies[str(i)] = [rnd.choice([0, 0, 0, 100, 200]), now - 500 * UNIT, now]
            procs.append({'name': f'p{k}', 'stop_sequence': rnd.choice([0, 0, 1, 2]),
                          'rfs': rnd.choice(['CONTINUE', 'CONTINUE', 'RESTART_PROCESS', 'STOP_APPLICATION', 'RESTART_APPLICATION'])
                                 if scenario == 'A' else rnd.choice(['CONTINUE', 'RESTART_PROCESS']),
                          'load': rnd.choice([0, 1, 5]), 'copies': copies})
        apps.append({'name': f'app{a}', 'managed': rnd.random() < 0.75, 'stop_sequence': rnd.choice([0, 1, 1, 2]),
                     'start_sequence': rnd.choice([0, 1, 2]), 'procs': procs})
    # later events: a duplicate appears by a direct Supervisor start on another instance, clocks tick (each instance has
    # its own monotonic clock, which never goes back)
    events = []
    clock = {i: NOW0 + 6 * UNIT + 37 * i for i in range(n)}
    if stopping_stream:
        # somebody stops a running copy on its own Supervisor: STOPPING reported, the instance stays listed
        for a in apps:
            for p in a['procs']:
                for i, c in p['copies'].items():
                    if c[0] in (10, 20, 30) and rnd.random() < 0.3:
                        clock[int(i)] += rnd.choice([1, 2, 5]) * UNIT
                        events.append(['event', int(i), a['name'], p['name'], 40, clock[int(i)]])
    for _ in range(rnd.randint(0, 4)):
        a = rnd.choice(apps); p = rnd.choice(a['procs'])
        known = [int(i) for i in p['copies']]
        i = rnd.choice(known)
        clock[i] += rnd.choice([1, 2, 5, 9]) * UNIT; now = clock[i]
        kind = rnd.random()
        if kind < 0.5:
            events.append(['event', i, a['name'], p['name'], 10, now])
            if rnd.random() < 0.7:
                clock[i] += rnd.choice([1, 2, 5]) * UNIT
                events.append(['event', i, a['name'], p['name'], 20, clock[i]])
        elif kind < 0.6 and stopping_stream:
            events.append(['event', i, a['name'], p['name'], 40, now])
        elif kind < 0.7:
            events.append(['event', i, a['name'], p['name'], rnd.choice([0, 100]), now])
        else:
            j = rnd.randrange(n); clock[j] += rnd.choice([1, 5, 20]) * UNIT
            events.append(['tick', j, clock[j]])
    return {'n': n, 'strategy': rnd.choice(STRATS), 'apps': apps, 'events': events, 'seed': rnd.randrange(1 << 30),
            'stream': stream}


class World:
    """ one Master-side instance built from a world description; every collaborator is the real class """
    def __init__(self, spec, master=None):
        self.spec = spec; n = self.n = spec['n']
        T[0] = 100 * UNIT
        opts = {'conciliation_strategy': spec['strategy'], 'synchro_options': 'LIST'}
        s = self.s = Sim(Net(), 1, n, opts)
        s.mapper.nodes = {}
        for i, ident in enumerate(s.ids):
            sid = s.mapper.instances[ident]
            sid.local_view = LocalNetwork(s.logger); sid.local_view.machine_id = f'node{i}'
            s.mapper.nodes.setdefault(f'node{i}', []).append(ident)
        self.strategy = CS[spec['strategy']]
        # recording sinks at the outer boundary
        self.rpc_stops = []; self.rpc_starts = []
        s.rpc_handler.send_stop_process = lambda ident, ns: self.rpc_stops.append((self.pidx[ns], s.idx[ident]))
        s.rpc_handler.send_start_process = lambda ident, ns, extra: self.rpc_starts.append((self.pidx[ns], s.idx[ident]))
        s.rpc_handler.send_process_state_event = lambda payload: None
        # applications with their rules, then the handshake snapshots through the real Context
        for a in spec['apps']:
            rules = ApplicationRules(s); rules.managed = a['managed']; rules.stop_sequence = a['stop_sequence']
            rules.start_sequence = a['start_sequence']; rules.starting_strategy = StartingStrategies.CONFIG
            s.context.applications[a['name']] = ApplicationStatus(a['name'], rules, s)
        for i, ident in enumerate(s.ids):
            infos = [full_info(a['name'], p['name'], p['copies'][str(i)][0], p['copies'][str(i)][2], p['copies'][str(i)][1])
                     for a in spec['apps'] for p in a['procs'] if str(i) in p['copies']]
            st = s.context.instances[ident]
            st.state = IS.CHECKING
            s.context.load_processes(st, infos)
            st.state = IS.CHECKED; st.state = IS.RUNNING
        self.pidx = {}; self.procs = []
        for app in s.context.applications.values():
            for proc in app.processes.values():
                self.pidx[proc.namespec] = len(self.procs); self.procs.append(proc)
        for a in spec['apps']:
            for p in a['procs']:
                proc = s.context.applications[a['name']].processes.get(p['name'])
                if proc:
                    proc.rules.stop_sequence = p['stop_sequence']; proc.rules.running_failure_strategy = RFS[p['rfs']]
                    proc.rules.expected_load = p['load']
        for app in s.context.applications.values():
            app.update_sequences(); app.update()
        for ev in spec['events']:
            self.apply_event(ev)
        if master is not None:
            self.set_master(master)

    def apply_event(self, ev):
        s = self.s
        if ev[0] == 'event':
            _, i, a, p, state, now = ev[:6]
            expected = ev[6] if len(ev) > 6 else True
            s.fsm.on_process_state_event(s.context.instances[s.ids[i]], event(s.ids[i], a, p, state, now, expected))
        elif ev[0] == 'tick':
            _, i, now = ev
            s.context.instances[s.ids[i]].update_tick(2, now / UNIT, 1e6 + now / UNIT, 2)

    def set_master(self, local_is_master):
        """ OPERATION reached, every instance RUNNING and agreeing on the Master (as after a normal start-up) """
        s = self.s
        master = s.identifier if local_is_master else s.ids[1]
        s.state_modes.master_identifier = master
        for ident in s.ids:
            if ident != s.identifier:
                payload = s.state_modes.local_state_modes.serial()
                payload['identifier'] = ident; payload['fsm_statecode'] = SS.OPERATION.value
                payload['master_identifier'] = master
                s.state_modes.instance_state_modes[ident].update(payload)
        s.state_modes.state = SS.OPERATION
        s.fsm.instance = sm.OperationState(s)
        s.state_modes.evaluate_stability()

    # ------------------------------------------------------------------ canonical view
    def view(self):
        """ `pid:managed:inst/uptime/stopping,...` for every process, copies in the iteration order of the real set """
        out = []
        for pid, proc in enumerate(self.procs):
            managed = self.s.context.applications[proc.application_name].rules.managed
            copies = []
            for ident in list(proc.running_identifiers):
                info = proc.info_map[ident]
                up = info['uptime'] * UNIT
                assert up == int(up) and up >= 0, f'uptime not exact: {info["uptime"]}'
                copies.append(f"{self.s.idx[ident]}/{int(up)}/{int(info['state'] == 40)}")
            out.append(f"{pid}:{int(managed)}:{','.join(copies) if copies else '-'}")
        return ' '.join(out)

    def glue_problems(self):
        """ what the driver derives from the view must be what the real objects answer """
        bad = []
        ctx = self.s.context
        for pid, proc in enumerate(self.procs):
            live = any(proc.info_map[i]['state'] in (10, 20, 30) for i in proc.running_identifiers)
            if proc.running_identifiers and bool(proc.running()) != live:
                bad.append(f'running() of process {pid} is {proc.running()} but listed states are '
                           f'{sorted(proc.info_map[i]["state"] for i in proc.running_identifiers)}')
        exp = any(ctx.applications[p.application_name].rules.managed and len(p.running_identifiers) > 1 for p in self.procs)
        if bool(ctx.conflicting()) != exp: bad.append(f'context.conflicting()={ctx.conflicting()} expected {exp}')
        return bad

    def listing(self, pids):
        return ' '.join(f"{p}={','.join(map(str, sorted(self.s.idx[x] for x in self.procs[p].running_identifiers))) or '-'}"
                        for p in pids) or '-'


class Round:
    """ one call of conciliate_conflicts: what was asked of the collaborators, what was really sent """
    def __init__(self, world, mode):
        self.w = world; self.mode = mode
        self.view = world.view()
        self.conflict_pids = [world.pidx[p.namespec] for p in world.s.context.conflicts()]
        # processes for which an instance that is NOT listed holds a STOPPING report (handshake snapshot taken while stopping)
        self.stopping_elsewhere = {pid for pid, p in enumerate(world.procs)
                                   if any(i['state'] == 40 and ident not in p.running_identifiers for ident, i in p.info_map.items())}
        self.calls = []; self.planned = []; self.starts = []; self.deferred = None
        self.rpc0 = len(world.rpc_stops); self.rpc_end = None
        self.after = '-'

    def rpc(self):
        return sorted(set(self.w.rpc_stops[self.rpc0:self.rpc_end]))

    def line(self):
        strat = self.w.strategy.value
        calls = ' '.join(self.calls) or '-'
        if self.mode == 'sink':
            req = '-'
        else:
            rpc = ','.join(f'{p}.{i}' for p, i in self.rpc()) or '-'
            req = (f"rpc={rpc};def={','.join(map(str, self.deferred or [])) or '-'}"
                   f";starts={','.join(map(str, self.starts)) or '-'}")
        return f"conc {strat} {self.mode} ; {self.view} | {calls} | {req} | {self.after}"


def install_recorders(world, sink):
    """ wrap the methods the strategy classes call; `sink`: record only; else record and run the real method
        (except failure_handler.trigger_jobs in scenario A, whose effects belong to C06) """
    s = world.s; w = world
    w.round = None

    def rec(text):
        if w.round is not None and w.in_conciliate: w.round.calls.append(text)
    w.in_conciliate = False
    o_stop, o_restart, o_next = s.stopper.stop_process, s.stopper.default_restart_process, s.stopper.next
    o_add, o_trig = s.failure_handler.add_default_job, s.failure_handler.trigger_jobs

    def stop_process(process, identifiers=None, trigger=True):
        if w.in_conciliate and w.caller_is_strategy():
            pid = w.pidx[process.namespec]
            if identifiers is None: rec(f'stopAll:{pid}')
            else: rec(f"stopOn:{pid}:{','.join(map(str, sorted(s.idx[x] for x in identifiers))) or '-'}")
            if trigger: rec('triggered')
            if sink: return
        return o_stop(process, identifiers, trigger)

    def default_restart_process(process, trigger=True):
        if w.in_conciliate and w.caller_is_strategy():
            rec(f'restart:{w.pidx[process.namespec]}')
            if trigger: rec('triggered')
            if sink: return
        return o_restart(process, trigger)

    def nxt():
        if w.in_conciliate and w.caller_is_strategy():
            rec('next')
            if sink: return
        return o_next()

    def add_default_job(process):
        if w.in_conciliate and w.caller_is_strategy():
            rec(f'failJob:{w.pidx[process.namespec]}')
            if sink: return
        return o_add(process)

    def trigger_jobs():
        if w.in_conciliate and w.caller_is_strategy():
            rec('failTrigger')
            if sink or not w.run_failure_trigger: return
        return o_trig()
    s.stopper.stop_process = stop_process; s.stopper.default_restart_process = default_restart_process
    s.stopper.next = nxt; s.failure_handler.add_default_job = add_default_job; s.failure_handler.trigger_jobs = trigger_jobs
    w.run_failure_trigger = False
    w.caller_is_strategy = lambda: (sys._getframe(2).f_code.co_filename.endswith('strategy.py')
                                    and sys._getframe(2).f_code.co_name == 'conciliate')
    # the stop commands the real Stopper plans
    def command(process, identifier):
        if w.round is not None: w.round.planned.append((w.pidx[process.namespec], s.idx[identifier]))
        return ProcessStopCommand(process, identifier)
    s.stopper.command_class = command
    o_start = s.starter.start_process

    def start_process(strategy, process, extra_args='', trigger=True):
        if w.round is not None and process.stopped(): w.round.starts.append(w.pidx[process.namespec])
        return o_start(strategy, process, extra_args, trigger)
    s.starter.start_process = start_process


def conciliate(world, mode, conflicts=None):
    """ one real conciliate_conflicts call under the recorders; returns the Round """
    s = world.s
    r = Round(world, mode)
    if world.round is not None and world.round.rpc_end is None: world.round.rpc_end = len(world.rpc_stops)
    world.round = r; world.in_conciliate = True
    try:
        world.orig_conciliate(s, world.strategy, s.context.conflicts() if conflicts is None else conflicts)
    except Hang:
        raise
    except Exception as e:
        r.calls.append(f'err:{type(e).__name__}'); r.error = traceback.format_exc()
    finally:
        world.in_conciliate = False
    if mode != 'sink':
        r.deferred = [world.pidx[p.namespec] for lst in s.stopper.process_start_requests.values() for _, p, _ in lst]
    return r


def ack(world, rnd, pid, inst, now, via_stopping=None, final=None):
    """ the Supervisor of `inst` reports the stop of process `pid` """
    s = world.s; proc = world.procs[pid]; ident = s.ids[inst]
    if ident not in proc.info_map: return
    status = s.context.instances[ident]
    if via_stopping is None: via_stopping = rnd.random() < 0.5
    if via_stopping and proc.info_map[ident]['state'] != 40:
        s.fsm.on_process_state_event(status, event(ident, proc.application_name, proc.process_name, 40, now))
    state, expected = final or rnd.choice([(0, True), (0, True), (0, True), (100, True)])
    s.fsm.on_process_state_event(status, event(ident, proc.application_name, proc.process_name, state, now + 1, expected))


# ------------------------------------------------------------------------------------------------ scenario A
def run_a(spec, variant):
    """ returns (round, info) ; info carries what the Python side checks """
    w = World(spec)
    w.orig_conciliate = conciliate_conflicts
    install_recorders(w, sink=(variant == 'sink'))
    info = {'glue': w.glue_problems(), 'post': []}
    with watchdog(20):
        r = conciliate(w, 'sink' if variant == 'sink' else 'exact')
    if variant == 'sink':
        return r, info, w
    rnd = random.Random(spec['seed'])
    s = w.s; now = NOW0 + 100 * UNIT
    with watchdog(30):
        acked = set()
        for _ in range(200):
            pend = [x for x in dict.fromkeys(w.rpc_stops) if x not in acked]
            if not pend: break
            x = rnd.choice(pend); now += 3
            ack(w, rnd, x[0], x[1], now); acked.add(x)
        # the commands planned for instances that were already STOPPING (no request sent): they report STOPPED too
        for x in dict.fromkeys(r.planned):
            if x not in acked:
                now += 3; ack(w, rnd, x[0], x[1], now, via_stopping=False); acked.add(x)
    r.rpc_end = len(w.rpc_stops)
    r.after = w.listing(r.conflict_pids)
    # instances that were listed STOPPING without being asked anything end up STOPPED by themselves
    with watchdog(20):
        for pid, proc in enumerate(w.procs):
            for ident in sorted(proc.info_map):
                if proc.info_map[ident]['state'] == 40:
                    now += 3
                    s.fsm.on_process_state_event(s.context.instances[ident], event(ident, proc.application_name, proc.process_name, 0, now))
    if s.stopper.in_progress(): info['post'].append('stopper-still-busy')
    if w.strategy != CS.USER and s.context.conflicting(): info['post'].append('conflict-remains')
    if w.strategy == CS.RESTART:
        # exactly one start request per restarted process, then exactly one copy
        with watchdog(20):
            done = 0
            while done < len(w.rpc_starts) and done < 100:      # the starts are sequenced: a RUNNING report releases the next
                p, i = w.rpc_starts[done]; done += 1
                proc = w.procs[p]; ident = s.ids[i]; now += 5
                s.fsm.on_process_state_event(s.context.instances[ident], event(ident, proc.application_name, proc.process_name, 10, now))
                s.fsm.on_process_state_event(s.context.instances[ident], event(ident, proc.application_name, proc.process_name, 20, now + UNIT))
        per = {}
        for p, i in w.rpc_starts: per[p] = per.get(p, 0) + 1
        for p in (r.deferred or []):
            if per.get(p, 0) != 1: info['post'].append(f'start-requests-for-restarted-process:{p}:{per.get(p, 0)}')
        if s.starter.in_progress(): info['post'].append('starter-still-busy')
        if s.context.conflicting(): info['post'].append('conflict-after-restart')
        info['restarted'] = sorted(per)
    info['planned'] = sorted(set(r.planned))
    return r, info, w


# ------------------------------------------------------------------------------------------------ scenario B
class FsmProbe:
    """ class-level wrappers of OperationState / ConciliationState `_master_next` / `_slave_next`, logging each
        evaluation of the current World (installed once; `FsmProbe.world` selects the world) """
    world = None
    installed = False

    @classmethod
    def install(cls):
        if cls.installed: return
        cls.installed = True
        for klass, tag in ((sm.OperationState, 'op'), (sm.ConciliationState, 'conc')):
            for meth, master in (('_master_next', 1), ('_slave_next', 0)):
                orig = getattr(klass, meth)
                def make(orig, tag, master):
                    def wrapped(self):
                        w = cls.world
                        if w is None or self.supvisors is not w.s: return orig(self)
                        view = w.view(); w.answers = {}; calls0 = w.conc_calls
                        ms = w.s.state_modes.master_state
                        res = orig(self)
                        w.evals.append((tag, master, ms.value if ms else None, dict(w.answers), view,
                                        res.value if res else None, w.conc_calls - calls0))
                        w.answers = None
                        return res
                    return wrapped
                setattr(klass, meth, make(orig, tag, master))
        sm._c05_orig_conciliate = sm.conciliate_conflicts

        def conc(supv, strategy, conflicts):
            w = cls.world
            if w is None or supv is not w.s: return sm._c05_orig_conciliate(supv, strategy, conflicts)
            w.conc_calls += 1
            r = conciliate(w, 'lax' if w.strategy == CS.RUNNING_FAILURE else 'exact', conflicts)
            w.rounds.append(r)
        sm.conciliate_conflicts = conc


def wrap_oracle(w):
    s = w.s
    def wrap(obj, name, tag):
        orig = getattr(obj, name)
        def f(*a, **k):
            res = orig(*a, **k)
            if w.answers is not None and sys._getframe(1).f_code.co_filename.endswith('statemachine.py') \
                    and sys._getframe(1).f_code.co_name in ('_master_next',):
                w.answers.setdefault(tag, int(bool(res)))
            return res
        setattr(obj, name, f)
    wrap(s.starter, 'in_progress', 'S'); wrap(s.stopper, 'in_progress', 'P'); wrap(s.context, 'conflicting', 'C')


def eval_line(e):
    tag, master, ms, ans, view, res, calls = e
    a = lambda k: str(ans[k]) if k in ans else '-'
    return (f"eval {tag} {master} {ms if ms is not None else '-'} {a('S')} {a('P')} {a('C')} ; {view} | "
            f"{res if res is not None else '-'} {calls}")


def run_b(spec, master=True):
    """ a generated script on the real FSM; returns (world, eval entries, rounds, info) """
    FsmProbe.install()
    w = World(spec, master=master)
    w.orig_conciliate = sm._c05_orig_conciliate
    w.evals = []; w.rounds = []; w.conc_calls = 0; w.answers = None
    install_recorders(w, sink=False)
    w.run_failure_trigger = True
    wrap_oracle(w)
    FsmProbe.world = w
    rnd = random.Random(spec['seed'] ^ 0x5bd1)
    s = w.s; info = {'post': [], 'steps': [], 'glue': w.glue_problems()}
    now = [NOW0 + 200 * UNIT]
    acked = set(); started = set()

    def tick():
        n0 = len(w.evals)
        s.fsm.next()
        if len(w.evals) > n0:
            last = w.evals[-1][5]
            if last is not None and s.fsm.state.value != last: info['post'].append(f'transition-refused:{s.fsm.state.value}->{last}')
        info['steps'].append('tick')

    def pending_stops():
        """ indices of the stop requests not acknowledged yet (the targeted instance still lists the process) """
        return [k for k, x in enumerate(w.rpc_stops) if k not in acked
                and s.ids[x[1]] in w.procs[x[0]].running_identifiers]

    def pending_starts():
        return [k for k in range(len(w.rpc_starts)) if k not in started]

    def ack_start(k):
        p, i = w.rpc_starts[k]; started.add(k); proc = w.procs[p]; ident = s.ids[i]
        s.fsm.on_process_state_event(s.context.instances[ident], event(ident, proc.application_name, proc.process_name, 10, now[0]))
        s.fsm.on_process_state_event(s.context.instances[ident], event(ident, proc.application_name, proc.process_name, 20, now[0] + UNIT))
    try:
        with watchdog(60):
            nsteps = rnd.randint(6, 30)
            for step in range(nsteps):
                now[0] += rnd.choice([1, 3, 7, 200]); T[0] += rnd.choice([0, 100, 5 * UNIT])
                r = rnd.random()
                ps = pending_stops(); pst = pending_starts()
                if r < 0.35 or (not ps and not pst and r < 0.7):
                    tick()
                elif r < 0.75 and ps:
                    k = rnd.choice(ps); x = w.rpc_stops[k]
                    ack(w, rnd, x[0], x[1], now[0]); acked.add(k); info['steps'].append('ack')
                elif r < 0.85 and pst:
                    ack_start(rnd.choice(pst)); info['steps'].append('startack')
                elif not master and r < 0.93:
                    # the Master publishes CONCILIATION / OPERATION: a Slave follows, and never conciliates itself
                    msm = s.state_modes.instance_state_modes[s.ids[1]]
                    msm.state = SS.CONCILIATION if msm.state == SS.OPERATION else SS.OPERATION
                    info['steps'].append('masterstate')
                elif master:
                    # a new duplicate appears (direct Supervisor start) on a process that is not being conciliated
                    busy = set(w.rounds[-1].conflict_pids) if w.rounds else set()
                    cands = [p for p, proc in enumerate(w.procs) if p not in busy and proc.running()
                             and not any(w.rpc_starts[k][0] == p for k in pending_starts())
                             and len(proc.info_map) > len(proc.running_identifiers)]
                    if cands:
                        p = rnd.choice(cands); proc = w.procs[p]
                        ident = rnd.choice(sorted(set(proc.info_map) - set(proc.running_identifiers)))
                        s.fsm.on_process_state_event(s.context.instances[ident], event(ident, proc.application_name, proc.process_name, 10, now[0]))
                        if rnd.random() < 0.6:
                            s.fsm.on_process_state_event(s.context.instances[ident], event(ident, proc.application_name, proc.process_name, 20, now[0] + UNIT))
                        info['steps'].append('duplicate')
                else:
                    cands = [p for p, proc in enumerate(w.procs) if proc.running() and len(proc.info_map) > len(proc.running_identifiers)]
                    if cands:
                        p = rnd.choice(cands); proc = w.procs[p]
                        ident = rnd.choice(sorted(set(proc.info_map) - set(proc.running_identifiers)))
                        s.fsm.on_process_state_event(s.context.instances[ident], event(ident, proc.application_name, proc.process_name, 10, now[0]))
                        info['steps'].append('duplicate')
            # drain: acknowledge everything, tick until quiet
            for _ in range(60):
                ps = pending_stops(); pst = pending_starts()
                now[0] += 5
                if ps:
                    x = w.rpc_stops[ps[0]]; ack(w, rnd, x[0], x[1], now[0], via_stopping=False, final=(0, True)); acked.add(ps[0])
                elif pst:
                    ack_start(pst[0])
                else:
                    before = (s.fsm.state, len(w.rpc_stops), len(w.rpc_starts))
                    tick()
                    if before == (s.fsm.state, len(w.rpc_stops), len(w.rpc_starts)) and not s.stopper.in_progress() \
                            and not s.starter.in_progress():
                        break
            # instances that were only STOPPING (no request sent) end up STOPPED by themselves
            for pid, proc in enumerate(w.procs):
                for ident in sorted(proc.running_identifiers):
                    if proc.info_map[ident]['state'] == 40:
                        now[0] += 2
                        s.fsm.on_process_state_event(s.context.instances[ident], event(ident, proc.application_name, proc.process_name, 0, now[0]))
            for _ in range(6): tick()
    finally:
        FsmProbe.world = None
    if w.rounds and w.rounds[-1].rpc_end is None: w.rounds[-1].rpc_end = len(w.rpc_stops)
    # end of the story
    conflicting = bool(s.context.conflicting())
    if master:
        if w.strategy == CS.USER:
            if w.rpc_stops: info['post'].append('user-strategy-stopped-something')
            if conflicting and s.fsm.state != SS.CONCILIATION: info['post'].append('user-left-conciliation-with-conflict')
            if not conflicting and s.fsm.state != SS.OPERATION: info['post'].append('no-return-to-operation')
        else:
            if conflicting: info['post'].append('conflict-remains')
            elif s.fsm.state != SS.OPERATION: info['post'].append(f'no-return-to-operation:{s.fsm.state.name}')
    else:
        if w.conc_calls or w.rpc_stops: info['post'].append('non-master-conciliates')
    info['final_state'] = s.fsm.state.name
    return w, info


# ------------------------------------------------------------------------------------------------ judging
def parse_out(line):
    parts = [x.strip() for x in line.split('|')]
    return parts


def sig_for(r, clause, tag, same_as_model):
    """ signature of a rejected clause: the root-cause input class when the implementation behaved exactly as the model
        (whose only deviations from the specification are proved to come from that class), else strategy + clause """
    strategy = r.w.strategy.name
    head = clause.split(':')[0]
    if head == 'starts' and strategy == 'RESTART' and ':' in clause and int(clause.split(':')[1]) in r.stopping_elsewhere:
        return 'C05:restart-dropped-stopping-elsewhere'
    if tag == 'T:stopping-counted' and same_as_model and head in ('stops', 'only-conflicting', 'starts', 'starts-extra',
                                                                    'failure-delegation'):
        return 'C05:stopping-copy-counted'
    return f"C05:{strategy}:{head}"


def check_round(chk, stats, r, out, spec, scenario):
    """ compare one conciliation round with the model, read the judges; returns list of (signature, what, detail) """
    m_calls, m_req, j1, j2, tag = parse_out(out)
    impl_calls = ' '.join(r.calls) or '-'
    findings = []; same = True
    strategy = r.w.strategy.name
    if impl_calls != m_calls:
        same = False
        chk.disagree('Conc', {'what': 'calls of the strategy differ', 'impl': impl_calls, 'model': m_calls, 'line': r.line(),
                              'spec': spec, 'scenario': scenario})
    mreq = dict(kv.split('=', 1) for kv in m_req.split(';')) if '=' in m_req else {}
    if r.mode != 'sink':
        rpc = ','.join(f'{p}.{i}' for p, i in r.rpc()) or '-'
        if r.mode == 'exact' and rpc != mreq.get('rpc'):
            same = False
            chk.disagree('Conc', {'what': 'stop requests sent differ', 'impl': rpc, 'model': mreq.get('rpc'), 'line': r.line(),
                                  'spec': spec, 'scenario': scenario})
        if r.mode == 'lax' and not set(mreq.get('rpc', '-').replace('-', '').split(',')) - {''} <= set(rpc.split(',')):
            same = False
            chk.disagree('Conc', {'what': 'stop requests of the model not all sent', 'impl': rpc, 'model': mreq.get('rpc'),
                                  'line': r.line(), 'spec': spec, 'scenario': scenario})
        d = ','.join(map(str, r.deferred or [])) or '-'
        if d != mreq.get('def'):
            same = False
            chk.disagree('Conc', {'what': 'deferred starts differ', 'impl': d, 'model': mreq.get('def'), 'line': r.line(),
                                  'spec': spec, 'scenario': scenario})
        if r.after != '-' and r.after != mreq.get('surv'):
            same = False
            chk.disagree('Conc+Proc', {'what': 'listing after the acknowledgements differs', 'impl': r.after,
                                       'model': mreq.get('surv'), 'line': r.line(), 'spec': spec, 'scenario': scenario})
    for name, j in (('calls', j1), ('requests', j2)):
        v = j.split(':', 1)[1]
        if v != 'ok':
            for clause in v.split(','):
                findings.append((sig_for(r, clause, tag, same),
                                 f'{strategy}: clause "{clause}" rejected on the {name} of the implementation '
                                 f'(view {r.view}; calls {impl_calls}' + (f'; requests {r.rpc()}' if r.mode != 'sink' else '') + ')',
                                 {'clause': clause, 'level': name, 'view': r.view, 'calls': impl_calls, 'driver_line': r.line(),
                                  'model': out}))
    stats['rounds'] += 1
    stats['strategies'][strategy] = stats['strategies'].get(strategy, 0) + 1
    if r.conflict_pids:
        stats['nontrivial'].add(f'{strategy} {r.view}')
        stats['conflicts_per_round'][min(len(r.conflict_pids), 5)] = stats['conflicts_per_round'].get(min(len(r.conflict_pids), 5), 0) + 1
    if tag != 'T:-': stats['stopping_stream_rounds'] += 1
    for c in r.calls:
        k = c.split(':')[0]; stats['call_kinds'][k] = stats['call_kinds'].get(k, 0) + 1
    return findings


def has_ties(view):
    for v in view.split():
        cs = v.split(':')[2]
        if cs != '-':
            ups = [c.split('/')[1] for c in cs.split(',')]
            if len(ups) > 1 and len(set(ups)) < len(ups): return True
    return False


def case_a(chk, stats, spec):
    """ scenario A on one world, both variants; returns findings [(sig, what, replay)] """
    findings = []
    lines = []; rounds = []
    try:
        r1, i1, w1 = run_a(spec, 'sink'); rounds.append((r1, i1, 'A-sink')); lines.append(r1.line())
        r2, i2, w2 = run_a(spec, 'real'); rounds.append((r2, i2, 'A-real')); lines.append(r2.line())
    except Hang as e:
        return [('C05:hang', f'an implementation operation did not return: {e}', {'scenario': 'A', 'spec': spec})]
    except Exception as e:
        tb = traceback.format_exc()
        return [(f'C05:exception:{type(e).__name__}', f'{type(e).__name__} raised while conciliating / acknowledging',
                 {'scenario': 'A', 'spec': spec, 'traceback': tb[-1500:]})]
    outs = chk.driver('drv_c05', lines)
    for (r, info, label), out in zip(rounds, outs):
        for g in info['glue']: chk.disagree('glue', {'what': g, 'spec': spec})
        fs = check_round(chk, stats, r, out, spec, label)
        tag = parse_out(out)[4]
        for sig, what, det in fs: findings.append((sig, what, dict(det, scenario=label, spec=spec)))
        if has_ties(r.view) and r.conflict_pids: stats['rounds_with_ties'] += 1
        for post in info['post']:
            if post in ('stopper-still-busy', 'starter-still-busy'):
                stats['still_busy'] = stats.get('still_busy', 0) + 1; continue
            head = post.split(':')[0]
            sig = f'C05:{r.w.strategy.name}:{head}'
            if head == 'start-requests-for-restarted-process' and post.endswith(':0') and int(post.split(':')[1]) in r.stopping_elsewhere:
                sig = 'C05:restart-dropped-stopping-elsewhere'
            findings.append((sig, f'{r.w.strategy.name}: {post} once every stop command was acknowledged (view {r.view})',
                             {'scenario': label, 'spec': spec, 'post': post, 'after': r.after}))
        if label == 'A-real':
            planned = ','.join(f'{p}.{i}' for p, i in info['planned']) or '-'
            stats['stop_commands'] += len(info['planned']); stats['stop_requests'] += len(r.rpc())
            stats['start_requests'] += len(r.w.rpc_starts)
    stats['evaluations'] += 1
    return findings


def case_b(chk, stats, spec, master=True):
    findings = []
    try:
        w, info = run_b(spec, master)
    except Hang as e:
        return [('C05:hang', f'an implementation operation did not return: {e}', {'scenario': 'B', 'spec': spec, 'master': master})]
    except Exception as e:
        tb = traceback.format_exc()
        return [(f'C05:exception:{type(e).__name__}', f'{type(e).__name__} raised by the FSM-driven conciliation',
                 {'scenario': 'B', 'spec': spec, 'master': master, 'traceback': tb[-1500:]})]
    lines = [r.line() for r in w.rounds] + [eval_line(e) for e in w.evals]
    outs = chk.driver('drv_c05', lines) if lines else []
    tagged = False
    for r, out in zip(w.rounds, outs):
        fs = check_round(chk, stats, r, out, spec, 'B')
        if parse_out(out)[4] != 'T:-': tagged = True
        for sig, what, det in fs: findings.append((sig, what, dict(det, scenario='B', spec=spec, master=master)))
    for e, out in zip(w.evals, outs[len(w.rounds):]):
        m, j = parse_out(out)
        impl = f"{e[5] if e[5] is not None else '-'} {e[6]}"
        stats['fsm_evaluations'] += 1
        k = f"{e[0]}:{'M' if e[1] else 'S'}:{impl.split()[0]}"; stats['fsm_results'][k] = stats['fsm_results'].get(k, 0) + 1
        if m != impl:
            chk.disagree('Inst', {'what': 'FSM evaluation differs', 'impl': impl, 'model': m, 'line': eval_line(e), 'spec': spec})
        v = j.split(':', 1)[1]
        if v != 'ok':
            for clause in v.split(','):
                findings.append((f'C05:detect:{clause}', f'detection clause "{clause}" rejected on an evaluation of the real '
                                 f'{"OperationState" if e[0] == "op" else "ConciliationState"} ({eval_line(e)})',
                                 {'scenario': 'B', 'spec': spec, 'master': master, 'eval': eval_line(e)}))
    for g in info['glue']: chk.disagree('glue', {'what': g, 'spec': spec})
    for post in info['post']:
        findings.append((f'C05:{w.strategy.name}:{post.split(":")[0]}',
                         f'{w.strategy.name}: {post} at the end of the script (final state {info["final_state"]})',
                         {'scenario': 'B', 'spec': spec, 'master': master, 'post': post, 'steps': info['steps'][-30:]}))
    stats['evaluations'] += 1
    stats['scripts'] += 1
    stats['final_states'][info['final_state']] = stats['final_states'].get(info['final_state'], 0) + 1
    for st in info['steps']: stats['step_kinds'][st] = stats['step_kinds'].get(st, 0) + 1
    return findings


# ------------------------------------------------------------------------------------------------ shrinking, reporting
class Quiet:
    """ a Check stand-in for re-runs made while shrinking: same model driver, nothing recorded """
    def __init__(self, chk): self.chk = chk; self.notes = []
    def driver(self, *a, **k): return self.chk.driver(*a, **k)
    def disagree(self, *a, **k): pass


def shrink_spec(chk, spec, sig, runner):
    """ drop processes / applications / events while the same signature is still reported """
    def flat(sp): return [(a['name'], p['name']) for a in sp['apps'] for p in a['procs']]

    def rebuild(sp, keep, events=None):
        new = copy.deepcopy(sp); keepset = set(keep)
        for a in new['apps']: a['procs'] = [p for p in a['procs'] if (a['name'], p['name']) in keepset]
        new['apps'] = [a for a in new['apps'] if a['procs']]
        names = {(a['name'], p['name']) for a in new['apps'] for p in a['procs']}
        evs = new['events'] if events is None else events
        new['events'] = [e for e in evs if e[0] == 'tick' or (e[2], e[3]) in names]
        return new
    q = Quiet(chk)

    def fails(sp):
        if not sp['apps']: return False
        try:
            return any(f[0] == sig for f in runner(q, new_stats(), sp))
        except Exception:
            return False
    keep = shrink(flat(spec), lambda k: fails(rebuild(spec, k)), max_tests=60)
    small = rebuild(spec, keep)
    if small['events']:
        evs = shrink(small['events'], lambda e: fails(rebuild(small, keep, e)), max_tests=30)
        if fails(rebuild(small, keep, evs)): small = rebuild(small, keep, evs)
    return small if fails(small) else spec


def report(chk, stats, findings, runner):
    """ feed the rejections to the Check; the first few new signatures are shrunk first """
    for sig, what, det in findings:
        if sig not in chk.known and sig not in chk.rejections and stats['shrinks'] < 6 and 'spec' in det:
            stats['shrinks'] += 1
            small = shrink_spec(chk, det['spec'], sig, runner)
            for s2, w2, d2 in runner(Quiet(chk), new_stats(), small):
                if s2 == sig: what, det = w2, d2; break
        chk.reject(sig, what, det)


def stream_of(k):
    """ mostly plain worlds; 1 in 6 with listed STOPPING instances; 1 in 24 with STOPPING handshake snapshots """
    return 'snapstop' if k % 24 == 23 else 'stopping' if k % 6 == 5 else 'plain'


def new_stats():
    return {'rounds': 0, 'strategies': {}, 'nontrivial': set(), 'conflicts_per_round': {}, 'stopping_stream_rounds': 0,
            'call_kinds': {}, 'rounds_with_ties': 0, 'evaluations': 0, 'stop_commands': 0, 'stop_requests': 0,
            'start_requests': 0, 'fsm_evaluations': 0, 'fsm_results': {}, 'scripts': 0, 'final_states': {}, 'step_kinds': {},
            'shrinks': 0}


def exhaustive_specs():
    """ one managed process over 3 instances, every instance in one of six situations, all six strategies """
    sit = [(0, 500), (20, 5), (20, 30), (10, 0), (30, 0), (40, 5)]     # (state, age in seconds)
    for combo in itertools.product(range(len(sit)), repeat=3):
        if sum(1 for c in combo if sit[c][0] in (10, 20, 30, 40)) < 2: continue
        for strat in STRATS:
            copies = {str(i): [sit[c][0], NOW0 - sit[c][1] * UNIT, NOW0] for i, c in enumerate(combo)}
            yield {'n': 3, 'strategy': strat, 'events': [], 'seed': sum(c * 7 ** i for i, c in enumerate(combo)),
                   'apps': [{'name': 'app0', 'managed': True, 'stop_sequence': 1, 'start_sequence': 1,
                             'procs': [{'name': 'p0', 'stop_sequence': 0, 'rfs': 'CONTINUE', 'load': 1, 'copies': copies}]}]}


def load_corpus():
    d = os.path.join(os.path.dirname(os.path.dirname(os.path.abspath(__file__))), 'corpus', 'C05')
    out = []
    if os.path.isdir(d):
        for f in sorted(os.listdir(d)):
            if f.endswith('.json'):
                c = json.load(open(os.path.join(d, f))); out.append(c.get('replay', c))
    return out


def run_replay_case(chk, stats, c):
    if 'spec' not in c:
        # a replay written for a broken obligation / correspondence: re-run its first disagreeing case
        first = next((d for d in c.get('first_disagreements', []) if d and 'spec' in d), None)
        if first is None: return [], case_a
        c = {'spec': first['spec'], 'scenario': first.get('scenario', 'A')}
    spec = c['spec']; sc = c.get('scenario', 'A')
    if sc.startswith('A'): return case_a(chk, stats, spec), case_a
    runner = lambda ch, st, sp: case_b(ch, st, sp, c.get('master', True))
    return runner(chk, stats, spec), runner


def run(chk):
    quick = chk.tier == 'quick'
    stats = new_stats()
    chk.regen(['enum:ConciliationStrategies', 'enum:SupvisorsStates', 'FiniteStateMachine._Transitions', 'supervisor.states'])
    chk.prove('Supv.Props.C05', extra_targets=['drv_c05'])
    for c in load_corpus():
        fs, runner = run_replay_case(chk, stats, c)
        for sig, what, det in fs: chk.reject(sig, what, det)
    seeds = [chk.seed] if quick else derive_seeds(chk.seed, 10)
    na, nb, nslave = (420, 260, 40) if quick else (1500, 800, 120)
    samples = []
    slave_runner = lambda ch, st, sp: case_b(ch, st, sp, False)
    for sd in seeds:
        rnd = random.Random(sd)
        for k in range(na):
            spec = gen_spec(rnd, stream=stream_of(k), scenario='A')
            if not samples: samples.append({'scenario': 'A', 'spec': spec})
            report(chk, stats, case_a(chk, stats, spec), case_a)
        for k in range(nb):
            spec = gen_spec(rnd, stream=stream_of(k), scenario='B')
            if len(samples) < 2: samples.append({'scenario': 'B', 'spec': spec})
            report(chk, stats, case_b(chk, stats, spec, True), lambda ch, st, sp: case_b(ch, st, sp, True))
        for k in range(nslave):
            spec = gen_spec(rnd, scenario='B')
            report(chk, stats, case_b(chk, stats, spec, False), slave_runner)
    nex = 0
    if not quick:
        try: chk.leanchecker(['Supv.Props.C05', 'Supv.Lemmas.Conc', 'Supv.Spec.C05', 'Supv.Model.Conc'])
        except Exception as e: chk.notes.append(f'leanchecker not run: {e}')
        for spec in exhaustive_specs():
            nex += 1
            report(chk, stats, case_a(chk, stats, spec), case_a)
    if not chk.obligations_ok() or chk.disagreements:
        # search stage: more worlds, judged on the implementation by the Lean specification
        for sd in derive_seeds(chk.seed + 7919, 3):
            rnd = random.Random(sd)
            for k in range(300):
                report(chk, stats, case_a(chk, stats, gen_spec(rnd, stream=stream_of(k))), case_a)
            for k in range(80):
                report(chk, stats, case_b(chk, stats, gen_spec(rnd, scenario='B'), True), lambda ch, st, sp: case_b(ch, st, sp, True))
    chk.coverage.update({
        'evaluations': stats['rounds'], 'worlds': stats['evaluations'], 'distinct_nontrivial': len(stats['nontrivial']),
        'rule': 'evaluation = one conciliation round (one real conciliate_conflicts call, compared and judged); a conciliation round (one real conciliate_conflicts call) is non-trivial when Context.conflicts() is not empty; '
                'distinct = distinct (strategy, canonical view of every process: managed flag, listed instances in set iteration '
                'order, uptimes, STOPPING flags)',
        'samples': samples, 'conciliation_rounds': stats['rounds'], 'rounds_per_strategy': stats['strategies'],
        'simultaneous_conflicts_per_round': stats['conflicts_per_round'], 'rounds_with_uptime_ties': stats['rounds_with_ties'],
        'rounds_with_a_listed_STOPPING_instance': stats['stopping_stream_rounds'], 'strategy_call_kinds': stats['call_kinds'],
        'stop_commands_planned_by_real_stopper': stats['stop_commands'], 'stop_requests_sent': stats['stop_requests'],
        'start_requests_sent': stats['start_requests'], 'fsm_scripts': stats['scripts'],
        'fsm_state_evaluations_compared': stats['fsm_evaluations'], 'fsm_evaluation_results': stats['fsm_results'],
        'fsm_script_steps': stats['step_kinds'], 'fsm_final_states': stats['final_states'],
        'traces_validated_against_impl': stats['evaluations'], 'still_busy_after_acknowledgements': stats.get('still_busy', 0), 'exhaustive': False, 'exhaustive_small_scope_cases': nex})
    chk.trusted += ['harness/c05.py + harness/simenv.py (build the real Context / ProcessStatus / Stopper / Starter / FSM of one instance, '
                    'recording wrappers, canonical view printer, acknowledgement feeder)',
                    'lean/Supv/Drv/C05.lean (line parser, printing, calls of Supv.Spec.C05.judge)',
                    'modelled, not verified: the Stopper sequencing (which group is requested when) is only observed through the set of '
                    'requests sent until the jobs are over; Master / OPERATION set up by hand on one instance (no handshake); rules '
                    'set on the rule objects directly (no rules file); failure_handler.trigger_jobs not executed in scenario A (C06)']
    chk.assumptions += ['age of a copy = the uptime the Master holds for it (info_map[..]["uptime"], refreshed by events and TICKs of that '
                        'instance); ties of uptime are free (relational judge)',
                        'a copy of the statement is an instance reporting STARTING / BACKOFF / RUNNING; a listed STOPPING instance is '
                        'neither a copy to keep nor a copy that must be asked to stop',
                        'scenario B injects new duplicates only on processes that are not being conciliated by the current round']


def replay(chk, path):
    c = json.load(open(path)); c = c.get('replay', c)
    stats = new_stats()
    chk.prove('Supv.Props.C05', extra_targets=['drv_c05'])
    fs, runner = run_replay_case(chk, stats, c)
    for sig, what, det in fs: chk.reject(sig, what, det)
    chk.coverage.update({'evaluations': 1, 'distinct_nontrivial': len(stats['nontrivial']), 'rule': 'replay', 'samples': [c]})
