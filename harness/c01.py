""" C01 — connected instances converge on one running Master.  Proof obligations: Supv.Props.C01 (selection rule, a sole
    recognised Master is kept, agreement at every quiescent fixpoint for any number of instances).  Correspondence: global
    lock-step of the real cluster with the Lean cluster model.  Judges: (Lean) job orders are only given by the Master;
    (Python, on the real objects at the end of each schedule, after draining every queue) the statement of
    C01_quiescent_agreement: if the live instances are connected, quiescent and at a fixpoint past SYNCHRONIZATION, they hold
    the same Master, it is live, seen RUNNING by all, and regards itself as the Master. """
from cluster import *


def nontrivial(lines, obs, n):
    """ an election with at least two candidates, or a Master change """
    masters = set()
    for o in obs:
        ws = o.split()[:n]
        if len(ws) < n or not all('/' in w for w in ws): continue
        for w in ws:
            m = w.split('/')[1]
            if m != '-': masters.add(m)
        if len(masters) >= 2: return True
    return n >= 3 and len(masters) >= 1


def drain(sims, net, limit=5000):
    """ deliver everything that is pending, without any tick (quiescence) """
    for _ in range(limit):
        acts = []
        for s in sims:
            if s.identifier in net.down: continue
            if s.inbox: acts.append(('deliver', s))
            for ident, p in s.proxies_with_work(): acts.append(('proxy', s, p))
        if not acts: return True
        a = acts[0]
        with watchdog(30):
            if a[0] == 'deliver': a[1].deliver()
            else: a[2].step()
    return False


def snapshot(s):
    lm = s.state_modes.local_state_modes
    return (lm.state, lm.master_identifier, tuple(lm.instance_states[i] for i in s.ids))


def agreement_judge(sims, net, opts, n, info, rec):
    """ the hypotheses and the conclusion of C01_quiescent_agreement, read on the real objects """
    out = []
    live = [s for s in sims if s.identifier not in net.down]
    info['judged'] = False
    if net.cut or not live: return out
    if not drain(sims, net): return out
    RUN = SupvisorsInstanceStates.RUNNING
    # connected: every live instance sees exactly the live ones RUNNING
    for s in live:
        seen = {i for i in s.ids if s.state_modes.local_state_modes.instance_states[i] == RUN}
        if seen != {x.identifier for x in live}: return out
    # fixpoint: one more evaluation changes nothing and sends nothing
    before = [snapshot(s) for s in live]
    for s in live:
        with watchdog(30): s.fsm.next()
    if [snapshot(s) for s in live] != before or not drain(sims, net, 1) and any(s.inbox or s.proxies_with_work() for s in live):
        return out
    if any(s.inbox or s.proxies_with_work() for s in live): return out
    # quiescent: stored copies are the peers' current records
    for s in live:
        for o in live:
            if o is s: continue
            stored = s.state_modes.instance_state_modes[o.identifier]
            cur = o.state_modes.local_state_modes
            if (stored.state, stored.master_identifier) != (cur.state, cur.master_identifier): return out
    states = {s.state_modes.state for s in live}
    if states & {SupvisorsStates.OFF, SupvisorsStates.SYNCHRONIZATION, SupvisorsStates.FINAL}: return out
    info['judged'] = True
    masters = {s.state_modes.master_identifier for s in live}
    ids = {s.identifier for s in live}
    if len(masters) != 1 or '' in masters or None in masters:
        out.append(('C01:quiescent:masters-differ-or-none', f'live instances hold Masters {sorted(str(m) for m in masters)} in states {sorted(x.name for x in states)}'))
        return out
    m = next(iter(masters))
    if m not in ids:
        out.append(('C01:quiescent:master-not-live', f'Master {m} is not a live instance'))
    else:
        for s in live:
            if s.state_modes.local_state_modes.instance_states[m] != RUN:
                out.append(('C01:quiescent:master-not-seen-running', f'instance {s.k - 1} does not see Master {m} RUNNING'))
        if not net.instances[m].state_modes.is_master():
            out.append(('C01:quiescent:master-does-not-know', f'Master {m} does not regard itself as the Master'))
    return out


def run(chk):
    chk.regen(['enum:SupvisorsStates', 'enum:SupvisorsInstanceStates', 'StateModes.STABLE_STATES', 'enum:SynchronizationOptions'])
    chk.prove('Supv.Props.C01', extra_targets=['drv_net'])
    if chk.tier == 'thorough': chk.leanchecker(['Supv.Props.C01'])
    judged = [0]
    def judge(sims, net, opts, n, info, rec):
        r = agreement_judge(sims, net, opts, n, info, rec)
        judged[0] += bool(info.get('judged'))
        return r
    cluster_check(chk, ['C01-'], nontrivial,
                  'generated cluster schedules (2-5 instances, every synchro_options subset used, core_identifiers, auto_fence, crashes, '
                  'restarts also faster than detection, cuts, heals, end_sync requests) followed by 14 quiet ticks and a drain of every '
                  'queue; non-trivial = at least two distinct Masters held over the schedule, or a Master elected among >= 3 instances; '
                  'distinct = distinct schedule seed',
                  quick_cases=50, thorough_cases=700, sched_kwargs={'quiet_ticks': 14, 'nmax': 5, 'heal_at_end': True, 'rpc_names': ('end_sync', 'end_sync', 'end_sync', 'restart', 'shutdown'), 'split_start': 0.25}, extra_judge=judge)
    chk.coverage['schedules_ending_in_a_judged_quiescent_fixpoint'] = judged[0]
    chk.assumptions += ['convergence TIME under arbitrary fair asynchronous schedules is not proved (explored by the schedules only)',
                        'agreement is judged at quiescent fixpoints past SYNCHRONIZATION (a cluster whose synchronisation condition cannot be met '
                        'has no Master by design; see C08)', 'discovery mode is not modelled']
    # closed loop with processes, commanders and conflicts (harness/c16free.py): at the end of the quiet phase the live, mutually RUNNING
    # instances must name one Master, one of them
    import c16free
    c16free.liveness_stage(chk, 'C01:free:', [{}, {'ending': True}], 100, 4000)


def replay(chk, path):
    import json
    c = json.load(open(path)); r = c.get('replay', c)
    if r.get('stage') == 'free':
        import c16free
        c16free.liveness_replay(chk, r, 'C01:free:')
    else:
        replay_schedule(chk, path, ['C01-'])
