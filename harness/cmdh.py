""" H1 commander level: the REAL Starter / Stopper / strategies / Context / ProcessStatus of one instance (harness/simenv.py)
    driven by generated application configurations (distribution rules and application-level identifiers rules included), user
    requests (start / stop / restart of one application, start of one process, automatic start of all applications, stop of all
    applications), ticks,
    periodic checks, process events and cluster events; every emitted start / stop request and forced state - and the class of any
    exception an operation raises - is recorded and compared with the Lean commander model (`drv_cmd`).
    Used by C03 C04 C09 C10 C14 (and C19 through harness/c19.py). """
import sys, random, json
from simenv import *
from supvisors.internal_com.mapper import LocalNetwork
from supvisors.application import ApplicationRules, ApplicationStatus
from supvisors.process import ProcessRules

SNAME = {0: 'STOPPED', 10: 'STARTING', 20: 'RUNNING', 30: 'BACKOFF', 40: 'STOPPING', 100: 'EXITED', 200: 'FATAL', 1000: 'UNKNOWN'}

def full_info(app, name, state, t, startsecs, disabled, stopwait=5):
    return {'group': app, 'name': name, 'state': state, 'statename': SNAME[state], 'start': 0, 'stop': 0, 'now': int(t), 'pid': 0,
            'description': '', 'spawnerr': '', 'expected': True, 'startsecs': startsecs, 'stopwaitsecs': stopwait, 'extra_args': '',
            'disabled': disabled, 'now_monotonic': float(t), 'start_monotonic': 0.0, 'stop_monotonic': 0.0,
            'program_name': name, 'process_index': 0, 'has_stdout': False, 'has_stderr': False}

def event(app, name, ident, state, expected, t):
    return {'identifier': ident, 'nick_identifier': ident, 'group': app, 'name': name, 'state': state, 'now': int(t),
            'now_monotonic': float(t), 'pid': 0, 'expected': expected, 'spawnerr': '', 'extra_args': '', 'disabled': False}

GEN = int(os.environ.get('VERIF_GEN', '4'))
            # generation of the case generator: 0 = per-application requests only, every application ALL_INSTANCES (what the corpus
            # files without a "gen" key were recorded with); 1 = + whole-cluster requests (startapps / stopapps);
            # 2 = + distribution rules (SINGLE_INSTANCE / SINGLE_NODE) and application-level identifiers rules;
            # 3 = + start of a single process (Starter.start_process: add_commands / on_command_added)


class CaseEnd(Exception):
    """ the implementation raised inside an operation: the operation is recorded with the exception class, the case ends """


def case_key(x):
    """ a case is named by its seed, or by (seed, generator generation) """
    return (x, GEN) if isinstance(x, int) else (int(x[0]), int(x[1]))


def corpus_cases(prop):
    d = os.path.join(os.path.dirname(os.path.dirname(os.path.abspath(__file__))), 'corpus', prop); out = []
    if os.path.isdir(d):
        for f in sorted(os.listdir(d)):
            if f.endswith('.json'):
                c = json.load(open(os.path.join(d, f)))
                if 'case_seed' in c: out.append((c['case_seed'], c.get('gen', 0)))      # the others belong to other stages
    return out


class Case:
    def __init__(self, seed, gen=None):
        gen = self.gen = GEN if gen is None else gen
        rnd = self.rnd = random.Random(seed)
        # the choices of the later generations are drawn from a second stream: a seed means the same base case in every generation
        rnd2 = self.rnd2 = random.Random((seed * 2654435761 + 97) & 0xffffffff)
        self.exc = None; self.auto = []
        # a cluster in which nothing was ever started (the situation of the automatic start of all applications)
        fresh = gen >= 1 and rnd2.random() < 0.35
        n = self.n = rnd.randint(1, 4)
        T[0] = 100 * UNIT
        opts = {'synchro_timeout': '15', 'inactivity_ticks': '2', 'core_identifiers': '', 'auto_fence': 'false', 'starting_strategy': 'CONFIG',
                'conciliation_strategy': 'USER', 'stats_enabled': 'false', 'synchro_options': 'LIST',
                'supvisors_list': ','.join(f'10.0.0.{i}' for i in range(1, n + 1))}
        net = Net()
        s = self.s = Sim(net, 1, n, opts)
        s.mapper.nodes = {}
        self.ids = list(s.mapper.instances)
        # nodes
        nnodes = rnd.randint(1, n)
        self.node = [rnd.randrange(nnodes) for _ in range(n)]
        for i, ident in enumerate(self.ids):
            sid = s.mapper.instances[ident]
            sid.local_view = LocalNetwork(s.logger); sid.local_view.machine_id = f'node{self.node[i]}'
            s.mapper.nodes.setdefault(f'node{self.node[i]}', []).append(ident)
        self.running = [True] + [rnd.random() < 0.85 for _ in range(n - 1)]
        self.checked = [False] * n          # instance seen CHECKED (handshake done, not activated yet)
        for i, ident in enumerate(self.ids):
            s.context.instances[ident]._state = SupvisorsInstanceStates.RUNNING if self.running[i] else SupvisorsInstanceStates.STOPPED
        # recording sinks
        self.emitted = []
        # which ApplicationStartJobs object (creation rank) and which requested strategy a start request belongs to
        from supvisors.commander import ApplicationStartJobs
        case = self; self.job_count = 0; self.cur = []
        class TaggedJobs(ApplicationStartJobs):
            def __init__(jself, *a, **k):
                super().__init__(*a, **k); jself._verif_id = case.job_count; case.job_count += 1
            def process_job(jself, command):
                case.cur.append((jself._verif_id, command.strategy.value, 's' if command.ignore_wait_exit else ''))
                queued = False
                try:
                    queued = super().process_job(command)
                    return queued
                finally:
                    case.cur.pop()
                    # known finding C10:start-request-untracked: a re-entrant Commander.next dropped this job while its
                    # group is still being processed, and it goes on sending requests; what follows is the behaviour of a
                    # corrupted Starter and is not compared any further (the case ends after this operation)
                    if queued and case.s.starter.current_jobs.get(jself.application_name) is not jself: case.orphaned = True
            def check(jself):
                case.check_job = jself._verif_id
                try: return super().check()
                finally: case.check_job = 999
        self.check_job = 999; self.orphaned = False
        s.starter.job_class = TaggedJobs
        from supvisors.commander import ApplicationStopJobs
        class TaggedStopJobs(ApplicationStopJobs):
            def process_job(jself, command):
                queued = False
                try:
                    queued = super().process_job(command)
                    return queued
                finally:
                    if queued and case.s.stopper.current_jobs.get(jself.application_name) is not jself: case.orphaned = True
        s.stopper.job_class = TaggedStopJobs
        def rec_start(ident, namespec, extra):
            k, st, sg = self.cur[-1] if self.cur else (-1, -1, '')
            self.emitted.append(f"start:{self.pidx[namespec]}>{self.ids.index(ident)}@{k}/{st}{sg}")
        s.rpc_handler.send_start_process = rec_start
        orig_force = s.listener.force_process_state
        def force(process, identifier, event_time, forced_state, reason):
            k = self.cur[-1][0] if self.cur else self.check_job
            self.emitted.append(f"force:{self.pidx[process.namespec]}:{int(forced_state)}:{1 if reason == 'No resource available' else 0}@{k}")
            orig_force(process, identifier, event_time, forced_state, reason)
        s.listener.force_process_state = force
        s.rpc_handler.send_process_state_event = lambda payload: None
        s.rpc_handler.send_stop_process = lambda ident, namespec: self.emitted.append(f"stop:{self.pidx[namespec]}>{self.ids.index(ident)}")
        # which application starts are stored by the automatic start of all applications (no strategy given)
        orig_store = s.starter.store_application
        def store(application, strategy=None):
            before = self.job_count
            r = orig_store(application, strategy)
            if strategy is None and self.job_count > before: self.auto.append((before, self.aidx[application.application_name]))
            return r
        s.starter.store_application = store
        # applications & processes
        self.lines = [f"world {n} 0 {','.join(map(str, self.node))} {','.join(str(int(x)) for x in self.running)}"]; self.obs = ['ok']
        napps = rnd.randint(1, 3)
        self.aidx = {}; self.pidx = {}; self.pinfo = []
        procs_to_load = {}
        for a in range(napps):
            aname = f'app{a}'; self.aidx[aname] = a
            rules = ApplicationRules(s); rules.managed = True
            rules.start_sequence = rnd.randint(0, 2); rules.starting_strategy = rnd.choice(list(StartingStrategies))
            rules.stop_sequence = rnd.randint(0, 2)
            dist = 0; aid = None
            if gen >= 2:
                r2 = rnd2.random(); dist = 0 if r2 < 0.4 else (1 if r2 < 0.7 else 2)
                aid = None if rnd2.random() < 0.55 else rnd2.sample(range(n), rnd2.randint(1, n))
            rules.distribution = DistributionRules(dist)
            rules.identifiers = ['*'] if aid is None else [self.ids[i] for i in aid]
            self.adist = getattr(self, 'adist', []); self.adist.append(dist)
            self.lines.append(f"app {rules.start_sequence} {rules.starting_strategy.value} {rules.stop_sequence} {dist} "
                              + ('*' if aid is None else ','.join(map(str, aid)))); self.obs.append('ok')
            self.arules = getattr(self, 'arules', {}); self.arules[aname] = rules
            for k in range(rnd.randint(1, 4)):
                pname = f'p{k}'; ns = f'{aname}:{pname}'
                cfg = {'app': a, 'aname': aname, 'name': pname, 'seq': rnd.choice([0, 1, 1, 2, 3]), 'required': rnd.random() < 0.5,
                       'wait_exit': rnd.random() < 0.2, 'load': rnd.choice([0, 10, 30, 50, 60]),
                       'sfail': rnd.choice(list(StartingFailureStrategies)),
                       'idents': None if rnd.random() < 0.6 else rnd.sample(range(n), rnd.randint(1, n)),
                       'startsecs': rnd.choice([1, 5, 12]), 'stopseq': rnd.randint(0, 3), 'stopwait': rnd.choice([1, 5, 12]),
                       'known': [i for i in range(n) if rnd.random() < 0.8] or [0],
                       'disabled': [i for i in range(n) if rnd.random() < 0.1],
                       'init': {}}
                if not cfg['required'] or cfg['seq'] > 0: pass
                self.pinfo.append(cfg)
        # pre-create applications with our rules, then load process info through the real Context
        for aname, rules in self.arules.items():
            s.context.applications[aname] = ApplicationStatus(aname, rules, s)
        for i, ident in enumerate(self.ids):
            infos = []
            for cfg in self.pinfo:
                if i in cfg['known']:
                    st = rnd.choice([0, 0, 0, 0, 100, 200, 20]) if self.running[i] else 0
                    if st == 20 and 20 in cfg['init'].values(): st = 0
                    if fresh: st = 0
                    cfg['init'][i] = st
                    infos.append(full_info(cfg['aname'], cfg['name'], st, T[0] / UNIT, cfg['startsecs'], i in cfg['disabled'], cfg['stopwait']))
            status = s.context.instances[ident]
            saved = status._state; status._state = SupvisorsInstanceStates.CHECKING
            s.context.load_processes(status, infos)
            status._state = saved
        # index processes in the real insertion order of each application's process dict
        order = []
        for aname in self.arules:
            for pname in s.context.applications[aname].processes:
                order.append(next(c for c in self.pinfo if c['aname'] == aname and c['name'] == pname))
        self.pinfo = order
        for p, cfg in enumerate(self.pinfo):
            self.pidx[f"{cfg['aname']}:{cfg['name']}"] = p
            idents = '*' if cfg['idents'] is None else ','.join(map(str, cfg['idents']))
            self.lines.append(f"proc {cfg['app']} {cfg['seq']} {int(cfg['required'])} {int(cfg['wait_exit'])} {cfg['load']} {cfg['sfail'].name} {idents} {cfg['startsecs']} {cfg['stopseq']} {cfg['stopwait']}")
            self.obs.append('ok')
        # apply process rules (after creation)
        for cfg in self.pinfo:
            proc = s.context.applications[cfg['aname']].processes[cfg['name']]
            r = proc.rules
            r.start_sequence = cfg['seq']; r.required = cfg['required']; r.wait_exit = cfg['wait_exit']; r.expected_load = cfg['load']
            r.starting_failure_strategy = cfg['sfail']; r.stop_sequence = cfg['stopseq']
            r.identifiers = ['*'] if cfg['idents'] is None else [self.ids[i] for i in cfg['idents']]
        for app in s.context.applications.values():
            app.update_sequences(); app.update()
        # the truth held by the Supervisor of each instance about the disabled flag of each program
        self.dis = {(i, p): (i in cfg['disabled']) for p, cfg in enumerate(self.pinfo) for i in cfg['known']}
        # tell the model the initial infos, in the real insertion order of info_map (per process: instance order)
        for i in range(n):
            for p, cfg in enumerate(self.pinfo):
                if i in cfg['init']:
                    proc = s.context.applications[cfg['aname']].processes[cfg['name']]
                    info = proc.info_map[self.ids[i]]
                    self.lines.append(f"op {T[0]} info {i} {p} {cfg['init'][i]} 1 {int(info['event_time'] * UNIT)} {int(info['local_mtime'] * UNIT)} {int(i in cfg['disabled'])}")
                    self.obs.append(self.observe())

    def observe(self):
        e = self.emitted; self.emitted = []
        if self.exc: return f"out=[{','.join(e)}] exc={self.exc[0]}"
        return (f"out=[{','.join(e)}] starting={'true' if self.s.starter.in_progress() else 'false'}"
                f" stopping={'true' if self.s.stopper.in_progress() else 'false'}" + (' orphan=1' if self.orphaned else ''))

    def record(self, op, extra=''):
        self.lines.append(f"op {T[0]} {op}"); self.obs.append(self.observe() + ('' if self.exc else extra))
        if self.exc: raise CaseEnd()

    def impl(self, fn):
        """ one implementation operation; an exception it raises is part of the observation (class) and ends the case """
        try: fn()
        except Hang: raise
        except Exception as e:
            self.exc = (type(e).__name__, traceback.format_exc())

    def run(self):
        try: self._run()
        except CaseEnd: pass
        return self

    def _run(self):
        rnd, s = self.rnd, self.s
        pending = []    # (time, i, p, state, expected)
        apps = list(self.aidx)
        rnd.shuffle(apps)
        steps = rnd.randint(10, 60)
        to_start = apps[:]
        scripts = {}
        # whole-cluster requests (generation >= 1): the automatic start of all applications (early, possibly again later) and the
        # stop of all applications (restart / shutdown)
        auto_first = self.gen >= 1 and self.rnd2.random() < 0.45
        for step in range(steps):
            if self.orphaned: break
            T[0] += rnd.randint(1, 3 * UNIT)
            if self.gen >= 1:
                r2 = self.rnd2.random()
                if (auto_first and step == 0) or r2 < 0.02:
                    self.auto = []
                    self.impl(s.starter.start_applications)
                    self.record("startapps", f" auto=[{','.join(f'{k}:{a}' for k, a in self.auto)}]")
                    continue
                if r2 < 0.05 and step > 3:
                    self.impl(s.stopper.stop_applications); self.record("stopapps")
                    continue
                if self.gen >= 3 and r2 < 0.11:
                    # the start of a single process, preferably of an application whose start is planned or in progress
                    busy = [p for p, cfg in enumerate(self.pinfo) if cfg['aname'] in s.starter.get_application_job_names()]
                    p = self.rnd2.choice(busy) if busy and self.rnd2.random() < 0.7 else self.rnd2.randrange(len(self.pinfo))
                    cfg = self.pinfo[p]; strat = self.rnd2.choice(list(StartingStrategies))
                    procx = s.context.get_process(f"{cfg['aname']}:{cfg['name']}")
                    self.impl(lambda: s.starter.start_process(strat, procx))
                    self.record(f"startproc {p} {strat.value}")
                    continue
            r = rnd.random()
            if to_start and r < 0.35:
                aname = to_start.pop()
                strat = rnd.choice(list(StartingStrategies))
                self.impl(lambda: s.starter.start_application(strat, s.context.applications[aname]))
                self.record(f"startapp {self.aidx[aname]} {strat.value}")
            elif r < 0.55:
                i = rnd.randrange(self.n)
                s.context.instances[self.ids[i]].times.remote_sequence_counter += 1
                self.record(f"tick {i}")
            elif r < 0.62:
                aname = rnd.choice(list(self.aidx))
                if rnd.random() < 0.5:
                    self.impl(lambda: s.stopper.stop_application(s.context.applications[aname])); self.record(f"stopapp {self.aidx[aname]}")
                else:
                    strat = rnd.choice(list(StartingStrategies))
                    self.impl(lambda: s.stopper.restart_application(strat, s.context.applications[aname]))
                    self.record(f"restartapp {self.aidx[aname]} {strat.value}")
            elif r < 0.72:
                self.impl(lambda: (s.starter.check(), s.stopper.check())); self.record("check")
            elif r < 0.77 and self.n > 1:
                self.cluster_op()
            else:
                # a process event: prefer processes with a start request in flight
                inflight = [(c.process.namespec, c.identifier) for j in list(s.starter.current_jobs.values()) + list(s.stopper.current_jobs.values()) for c in j.current_jobs]
                if inflight and rnd.random() < 0.85:
                    ns, ident = rnd.choice(inflight); p = self.pidx[ns]; i = self.ids.index(ident)
                    if ident not in s.context.get_process(ns).info_map: continue       # the program has been removed from that Supervisor
                    cur = s.context.get_process(ns).info_map[ident]['state']
                    nxt = {0: [10, 10, 10, 200], 100: [10, 10, 200], 200: [10, 10], 10: [20, 20, 20, 30, 100, 40], 30: [10, 200, 10], 20: [100, 40, 40, 40, 20], 40: [0, 0, 40]}.get(cur, [0])
                    st = rnd.choice(nxt)
                else:
                    p = rnd.randrange(len(self.pinfo)); cfg = self.pinfo[p]
                    i = rnd.choice(cfg['known']); ns = f"{cfg['aname']}:{cfg['name']}"
                    st = rnd.choice([0, 10, 20, 30, 40, 100, 200])
                # events of instances that are not seen CHECKED / RUNNING are sent now and then: they must be ignored
                if not (self.running[i] or self.checked[i]) and rnd.random() < 0.7: continue
                cfg = self.pinfo[p]
                # no conflicts in this spike: a running-like event only where nobody else runs the process
                procx = s.context.get_process(ns)
                if st in (10, 20, 30) and any(x != self.ids[i] for x in procx.running_identifiers): continue
                if i not in cfg['known']: continue
                expected = rnd.random() < 0.7
                self.process_event(i, p, st, expected)
        return self

    def process_event(self, i, p, st, expected):
        s = self.s; cfg = self.pinfo[p]; ident = self.ids[i]; ns = f"{cfg['aname']}:{cfg['name']}"
        ev = event(cfg['aname'], cfg['name'], ident, st, expected, T[0] / UNIT)
        ev['disabled'] = self.dis[(i, p)]
        self.impl(lambda: s.fsm.on_process_state_event(s.context.instances[ident], ev))
        info = s.context.get_process(ns).info_map[ident]
        accepted = self.running[i] or self.checked[i]
        et, lt = (int(info['event_time'] * UNIT), int(info['local_mtime'] * UNIT)) if accepted else (T[0], T[0])
        self.record(f"event {i} {p} {st} {int(expected)} {et} {lt} {int(self.dis[(i, p)])}")

    def cluster_op(self):
        """ the cluster moves under the commander: an instance is lost (with whatever it was asked), comes back through a
            handshake (CHECKED), is activated (RUNNING); a program is disabled / enabled on the Supervisor of an instance """
        rnd, s = self.rnd, self.s
        r = rnd.random()
        others = list(range(1, self.n))
        if r < 0.35:
            cands = [i for i in others if self.running[i] or self.checked[i]]
            if not cands: return
            # prefer an instance with a request in flight
            busy = [self.ids.index(c.identifier) for j in list(s.starter.current_jobs.values()) + list(s.stopper.current_jobs.values())
                    for c in j.current_jobs if c.identifier != self.ids[0]]
            i = rnd.choice(busy) if busy and rnd.random() < 0.7 else rnd.choice(cands)
            if i not in cands: return
            status = s.context.instances[self.ids[i]]
            status._state = SupvisorsInstanceStates.FAILED
            # generation 4: two instances found FAILED by the same evaluation (e.g. the instances of a crashed node)
            i2 = None
            if self.gen >= 4 and len(cands) >= 2 and self.rnd2.random() < 0.3:
                i2 = self.rnd2.choice([x for x in cands if x != i])
                s.context.instances[self.ids[i2]]._state = SupvisorsInstanceStates.FAILED
            lost, failed = s.context.invalidate_failed()
            # _MasterSlaveState._common_next
            self.impl(lambda: (s.starter.on_instances_invalidation(lost, failed), s.stopper.on_instances_invalidation(lost, failed)))
            self.running[i] = False; self.checked[i] = False
            if i2 is not None: self.running[i2] = False; self.checked[i2] = False
            self.record(f"lose {i}" + (f" {i2}" if i2 is not None else ''), f" failed=[{','.join(map(str, sorted(self.pidx[x.namespec] for x in failed)))}]")
        elif r < 0.6:
            cands = [i for i in others if not self.running[i] and not self.checked[i]]
            if not cands: return
            i = rnd.choice(cands); ident = self.ids[i]; status = s.context.instances[ident]
            if status.state == SupvisorsInstanceStates.ISOLATED: return
            infos = []; sts = {}
            for p, cfg in enumerate(self.pinfo):
                if i in cfg['known']:
                    procx = s.context.get_process(f"{cfg['aname']}:{cfg['name']}")
                    st = rnd.choice([0, 0, 0, 100, 200, 20, 10])
                    if st in (10, 20) and (procx.running_identifiers or not procx.stopped()): st = 0
                    # a start may have been asked in the meantime elsewhere: no conflict in this spike
                    if st in (10, 20) and any(c.process is procx for j in s.starter.current_jobs.values() for c in j.current_jobs): st = 0
                    sts[p] = st
                    infos.append(full_info(cfg['aname'], cfg['name'], st, T[0] / UNIT, cfg['startsecs'], self.dis[(i, p)], cfg['stopwait']))
            status._state = SupvisorsInstanceStates.CHECKING
            s.context.load_processes(status, infos)
            for p, st in sts.items():
                cfg = self.pinfo[p]
                info = s.context.get_process(f"{cfg['aname']}:{cfg['name']}").info_map[ident]
                self.record(f"info {i} {p} {st} 1 {int(info['event_time'] * UNIT)} {int(info['local_mtime'] * UNIT)} {int(self.dis[(i, p)])}")
            status._state = SupvisorsInstanceStates.CHECKED
            self.checked[i] = True
            self.record(f"inst {i} 1")
        elif r < 0.8:
            cands = [i for i in others if self.checked[i]]
            if not cands: return
            i = rnd.choice(cands)
            s.context.instances[self.ids[i]]._state = SupvisorsInstanceStates.RUNNING
            self.checked[i] = False; self.running[i] = True
            self.record(f"inst {i} 2")
        elif self.gen >= 4 and self.rnd2.random() < 0.45:
            # generation 4: a program is removed from the Supervisor of an instance where it is stopped (update_numprocs,
            # removeProcessGroup) - possibly while a request for it is pending there; it stays known somewhere else
            keys = [(i, p) for (i, p) in sorted(self.dis)
                    if len(s.context.get_process(f"{self.pinfo[p]['aname']}:{self.pinfo[p]['name']}").info_map) >= 2
                    and s.context.get_process(f"{self.pinfo[p]['aname']}:{self.pinfo[p]['name']}").info_map[self.ids[i]]['state'] in (0, 100, 200)]
            if not keys: return
            pend = [(self.ids.index(c.identifier), self.pidx[c.process.namespec]) for j in list(s.starter.current_jobs.values()) + list(s.stopper.current_jobs.values())
                    for c in j.current_jobs]
            pend = [k for k in pend if k in keys]
            i, p = self.rnd2.choice(pend) if pend and self.rnd2.random() < 0.7 else self.rnd2.choice(keys)
            cfg = self.pinfo[p]; ident = self.ids[i]
            s.context.on_process_removed_event(s.context.instances[ident], {'group': cfg['aname'], 'name': cfg['name']})
            accepted = self.running[i] or self.checked[i]
            if accepted:
                del self.dis[(i, p)]
                if i in cfg['known']: cfg['known'].remove(i)
            self.record(f"remove {i} {p}")
        else:
            keys = sorted(self.dis)
            if not keys: return
            i, p = rnd.choice(keys); cfg = self.pinfo[p]; ident = self.ids[i]
            self.dis[(i, p)] = not self.dis[(i, p)]
            s.context.on_process_disability_event(s.context.instances[ident], {'group': cfg['aname'], 'name': cfg['name'], 'disabled': self.dis[(i, p)]})
            info = s.context.get_process(f"{cfg['aname']}:{cfg['name']}").info_map[ident]
            self.record(f"disable {i} {p} {int(self.dis[(i, p)])}", f" dis={int(info['disabled'])}")



def run_cases(chk, seeds):
    """ returns list of dicts per case: seed, lines, obs, model, first diff, implementation exception """
    lines = []; obs = []; bounds = []; res = []
    for key in seeds:
        seed, gen = case_key(key)
        c = Case(seed, gen); exc = None
        try:
            with watchdog(60): c.run()
        except Hang as e:
            exc = ('Hang', str(e))
        except Exception as e:
            exc = (type(e).__name__, traceback.format_exc())
            c.emitted = []
        exc = exc or c.exc
        bounds.append((seed, len(lines), len(lines) + len(c.lines), exc, c))
        lines += [f'{l} | {o}' for l, o in zip(c.lines, c.obs)]; obs += c.obs
    model = chk.driver('drv_cmd', lines)
    for seed, a, b, exc, c in bounds:
        diff = None; verdicts = []
        for k in range(a, b):
            parts = [x.strip() for x in model[k].split('|')]
            if diff is None and obs[k].replace(' orphan=1', '') != parts[0]:
                diff = {'line': k - a, 'op': lines[k].split('|')[0].strip(), 'impl': obs[k], 'model': parts[0]}
            if len(parts) > 1 and parts[1] != 'J:ok':
                for v in parts[1][2:].split(';'): verdicts.append((k - a, v, lines[k].split('|')[0].strip()))
        res.append({'seed': seed, 'gen': c.gen, 'lines': [l.split('|')[0].strip() for l in lines[a:b]], 'obs': obs[a:b], 'diff': diff,
                    'verdicts': verdicts, 'exc': exc, 'case': c})
    return res


# ---------------------------------------------------------------------------------------------------------------
RULES = {
    'C03': ('at least two start requests of one application in different sequence groups and one failure, time-out or '
            'no-resource', lambda outs: _groups(outs, 'start') and any('force:' in o for o in outs)),
    'C04': ('at least two start requests and one refusal for lack of resource, or three start requests on a cluster of >= 2 '
            'instances', lambda outs: (sum(o.count('start:') for o in outs) >= 2 and any(':200:1@' in o for o in outs))
            or sum(o.count('start:') for o in outs) >= 3),
    'C09': ('at least two stop requests emitted by different operations (two stop groups)', lambda outs: sum(1 for o in outs if 'stop:' in o) >= 2),
    'C10': ('at least one request given up on time-out (forced state emitted by a periodic check)',
            lambda outs: any(':0@' in o and 'force:' in o for o in outs)),
    'C14': ('at least two start requests placed with a load-sensitive strategy', lambda outs: sum(
        1 for o in outs for x in o.split(',') if 'start:' in x and x.rsplit('/', 1)[-1].rstrip(']').split()[0] not in ('0', '3')) >= 2),
}


def _groups(outs, kind):
    return sum(1 for o in outs if f'{kind}:' in o) >= 2


def commander_check(chk, module, prefixes, quick_cases=1500, thorough_cases=30000, search_cases=6000):
    """ common body of the commander-level checks (C03 C04 C09 C10 C14) """
    from core import derive_seeds
    prop = chk.prop
    chk.regen(['constants', 'supervisor.states', 'enum:StartingStrategies', 'enum:StartingFailureStrategies', 'ast:is_loading_valid',
               'enum:ProcessRequestResult'])
    chk.prove(module, extra_targets=['drv_cmd'])
    if chk.tier == 'thorough': chk.leanchecker([module])
    n = quick_cases if chk.tier == 'quick' else thorough_cases
    rule_text, rule = RULES[prop]
    stats = {'evaluations': 0, 'lines': 0, 'nontrivial': set(), 'ops': {}, 'emitted': {'start': 0, 'stop': 0, 'force': 0},
             'impl_exceptions': {}, 'orphan_cases': 0, 'dist': {'ALL_INSTANCES': 0, 'SINGLE_INSTANCE': 0, 'SINGLE_NODE': 0},
             'dist_starts': {'ALL_INSTANCES': 0, 'SINGLE_INSTANCE': 0, 'SINGLE_NODE': 0}}
    samples = []

    def batch(seeds):
        for r in run_cases(chk, seeds):
            stats['evaluations'] += 1; stats['lines'] += len(r['lines'])
            outs = [o.split(' starting=')[0] for o in r['obs']]
            for o in outs:
                for k in stats['emitted']: stats['emitted'][k] += o.count(k + ':')
            for l in r['lines']:
                if l.startswith('op '): k = l.split()[2]; stats['ops'][k] = stats['ops'].get(k, 0) + 1
            if rule(outs): stats['nontrivial'].add(r['seed'])
            if r['case'].orphaned: stats['orphan_cases'] += 1
            dn = ['ALL_INSTANCES', 'SINGLE_INSTANCE', 'SINGLE_NODE']
            for d in r['case'].adist: stats['dist'][dn[d]] += 1
            for o in outs:
                for x in o.split('out=[')[-1].split(']')[0].split(','):
                    if x.startswith('start:'):
                        p = int(x.split(':')[1].split('>')[0]); stats['dist_starts'][dn[r['case'].adist[r['case'].pinfo[p]['app']]]] += 1
            if not samples and rule(outs):
                samples.append({'case_seed': r['seed'], 'configuration': [l for l in r['lines'] if not l.startswith('op')],
                                'operations': [f'{l}  ->  {o}' for l, o in zip(r['lines'], r['obs']) if l.startswith('op') and ' info ' not in l][:14]})
            base = {'case_seed': r['seed'], 'gen': r['gen'], 'how': f'./check {prop} --replay <this file> regenerates the case from case_seed (and gen)'}
            if r['exc']:
                cls = r['exc'][0]
                stats['impl_exceptions'][cls] = stats['impl_exceptions'].get(cls, 0) + 1
                sig = f"{prop}:{'hang' if cls == 'Hang' else 'exception:' + tb_signature(r['exc'][1])}"
                chk.reject(sig, f'the implementation raised {cls} while handling an operation', dict(base, traceback=r['exc'][1][-1500:], lines=r['lines'][-15:]))
            if r['diff']:
                chk.disagree('Cmd', dict(base, **r['diff'], prefix=r['lines'][max(0, r['diff']['line'] - 12):r['diff']['line'] + 1]))
            seen = set()
            for k, v, op in r['verdicts']:
                tag = v.split(':')[0]
                if not any(tag.startswith(p) for p in prefixes) or tag in seen: continue
                seen.add(tag)
                sig = f"{prop}:{tag.split('-', 1)[1]}"
                chk.reject(sig, f'{v} at operation {k} ({op})',
                           dict(base, verdict=v, operation_index=k, configuration=[l for l in r['lines'] if not l.startswith('op')],
                                operations=[f'{l}  ->  {o}' for l, o in zip(r['lines'][:k + 1], r['obs'][:k + 1]) if l.startswith('op') and ' info ' not in l][-25:]))

    corpus = corpus_cases(prop)
    if corpus: batch(corpus)
    seeds = derive_seeds(chk.seed, n)
    for k in range(0, len(seeds), 1000): batch(seeds[k:k + 1000])
    if not chk.obligations_ok() or chk.disagreements:
        more = derive_seeds(chk.seed + 15485863, search_cases)
        for k in range(0, len(more), 1000): batch(more[k:k + 1000])
    chk.coverage.update({
        'evaluations': stats['evaluations'], 'distinct_nontrivial': len(stats['nontrivial']),
        'rule': 'generated application configurations (1-3 applications x 1-4 processes, sequences, required, wait_exit, loads, strategies, '
                'distribution rules ALL_INSTANCES / SINGLE_INSTANCE / SINGLE_NODE, identifiers rules of programs and applications, 1-4 '
                'instances on 1-4 nodes, programs unknown / disabled on some instances) driven by start / stop / restart requests of one '
                'application, the start of a single process, the automatic start of all applications and the stop of all applications, ticks, periodic checks, process '
                'events (incl. events Supervisor would not produce), instance loss / re-join / activation and disability events; '
                f'generator generation {GEN} (corpus cases carry their own); non-trivial = ' + rule_text + '; distinct = distinct case seed',
        'applications_by_distribution': stats['dist'], 'start_requests_by_distribution': stats['dist_starts'],
        'samples': samples, 'recorded_lines': stats['lines'], 'operation_kinds': stats['ops'], 'requests_emitted': stats['emitted'],
        'implementation_exceptions': stats['impl_exceptions'], 'cases_ended_by_a_dropped_job': stats['orphan_cases'],
        'traces_validated_against_impl': stats['evaluations'], 'exhaustive': False})
    chk.trusted += ['harness/cmdh.py + harness/simenv.py (real Starter / Stopper / strategies / Context / ProcessStatus of one instance; recording '
                    'sinks on send_start_process / send_stop_process / force_process_state; generated events)',
                    'lean/Supv/Drv/Cmd.lean (op-line parser, observation printer, monitor calling Supv.Spec.Cmd)',
                    'modelled, not verified: Python object identity of job objects reduced to creation ranks; instances of a node given as a '
                    'function instance -> node; the monitor attributes requests to application starts through the rank recorded by the harness']
    chk.assumptions += ['the ordering / eligibility clauses over whole executions are judged on the implementation by the Lean monitor (search) and '
                        'carried by the lock-step correspondence; the theorems are about the decision functions the commander runs',
                        'a case ends when an implementation operation raises (the exception class is part of the lock-step observation; known '
                        'finding exception:TypeError@update_identifier)',
                        'not driven: Stopper.stop_process / restart_process, the deferred triggers (trigger=False) of the running failure '
                        'handler, hash / at identifiers, the status formula of applications',
                        'a case ends when the implementation drops a job object that goes on sending requests (known finding C10:start-request-untracked)']


def commander_replay(chk, path, prefixes):
    c = json.load(open(path)); r0 = c.get('replay', c)
    for r in run_cases(chk, [(r0['case_seed'], r0.get('gen', 0))]):
        if r['exc']:
            cls = r['exc'][0]
            chk.reject(f"{chk.prop}:{'hang' if cls == 'Hang' else 'exception:' + tb_signature(r['exc'][1])}",
                       f'the implementation raised {cls} while handling an operation', {'case_seed': r['seed'], 'gen': r['gen']})
        if r['diff']: chk.disagree('Cmd', r['diff'])
        for k, v, op in r['verdicts']:
            tag = v.split(':')[0]
            if any(tag.startswith(p) for p in prefixes):
                chk.reject(f"{chk.prop}:{tag.split('-', 1)[1]}", f'{v} at operation {k} ({op})', {'case_seed': r['seed'], 'gen': r['gen']})
    chk.coverage.update({'evaluations': 1, 'distinct_nontrivial': 0, 'rule': 'replay of one case', 'samples': [r0['case_seed']]})
