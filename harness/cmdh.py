""" H1 commander level: the REAL Starter / Stopper / strategies / Context / ProcessStatus of one instance (harness/simenv.py)
    driven by generated application configurations, user requests, ticks, periodic checks and process events; every emitted
    start / stop request and forced state is recorded and compared with the Lean commander model (`drv_cmd`).
    Used by C03 C04 C09 C10 C14. """
import sys, random, json
from simenv import *
from supvisors.internal_com.mapper import LocalNetwork
from supvisors.application import ApplicationRules, ApplicationStatus
from supvisors.process import ProcessRules

SNAME = {0: 'STOPPED', 10: 'STARTING', 20: 'RUNNING', 30: 'BACKOFF', 40: 'STOPPING', 100: 'EXITED', 200: 'FATAL', 1000: 'UNKNOWN'}

def full_info(app, name, state, t, startsecs, disabled, stopwait=5):
    return {'group': app, 'name': name, 'state': state, 'statename': SNAME[state], 'start': 0, 'stop': 0, 'now': int(t), 'pid': 0,
            'description': '', 'spawnerr': '', 'expected': True, 'startsecs': startsecs, 'stopwaitsecs': stopwait, 'extra_args': '',
            'disabled': disabled, 'now_monotonic': float(t), 'start_monotonic': 0.0, 'stop_monotonic': 0.0,
            'program_name': name, 'process_index': 0, 'has_stdout': False, 'has_stderr': False}

def event(app, name, ident, state, expected, t):
    return {'identifier': ident, 'nick_identifier': ident, 'group': app, 'name': name, 'state': state, 'now': int(t),
            'now_monotonic': float(t), 'pid': 0, 'expected': expected, 'spawnerr': '', 'extra_args': '', 'disabled': False}

class Case:
    def __init__(self, seed):
        rnd = self.rnd = random.Random(seed)
        n = self.n = rnd.randint(1, 4)
        T[0] = 100 * UNIT
        opts = {'synchro_timeout': '15', 'inactivity_ticks': '2', 'core_identifiers': '', 'auto_fence': 'false', 'starting_strategy': 'CONFIG',
                'conciliation_strategy': 'USER', 'stats_enabled': 'false', 'synchro_options': 'LIST',
                'supvisors_list': ','.join(f'10.0.0.{i}' for i in range(1, n + 1))}
        net = Net()
        s = self.s = Sim(net, 1, n, opts)
        s.mapper.nodes = {}
        self.ids = list(s.mapper.instances)
        # nodes
        nnodes = rnd.randint(1, n)
        self.node = [rnd.randrange(nnodes) for _ in range(n)]
        for i, ident in enumerate(self.ids):
            sid = s.mapper.instances[ident]
            sid.local_view = LocalNetwork(s.logger); sid.local_view.machine_id = f'node{self.node[i]}'
            s.mapper.nodes.setdefault(f'node{self.node[i]}', []).append(ident)
        self.running = [True] + [rnd.random() < 0.85 for _ in range(n - 1)]
        self.checked = [False] * n          # instance seen CHECKED (handshake done, not activated yet)
        for i, ident in enumerate(self.ids):
            s.context.instances[ident]._state = SupvisorsInstanceStates.RUNNING if self.running[i] else SupvisorsInstanceStates.STOPPED
        # recording sinks
        self.emitted = []
        # which ApplicationStartJobs object (creation rank) and which requested strategy a start request belongs to
        from supvisors.commander import ApplicationStartJobs
        case = self; self.job_count = 0; self.cur = []
        class TaggedJobs(ApplicationStartJobs):
            def __init__(jself, *a, **k):
                super().__init__(*a, **k); jself._verif_id = case.job_count; case.job_count += 1
            def process_job(jself, command):
                case.cur.append((jself._verif_id, command.strategy.value))
                queued = False
                try:
                    queued = super().process_job(command)
                    return queued
                finally:
                    case.cur.pop()
                    # known finding C10:start-request-untracked: a re-entrant Commander.next dropped this job while its
                    # group is still being processed, and it goes on sending requests; what follows is the behaviour of a
                    # corrupted Starter and is not compared any further (the case ends after this operation)
                    if queued and case.s.starter.current_jobs.get(jself.application_name) is not jself: case.orphaned = True
            def check(jself):
                case.check_job = jself._verif_id
                try: return super().check()
                finally: case.check_job = 999
        self.check_job = 999; self.orphaned = False
        s.starter.job_class = TaggedJobs
        from supvisors.commander import ApplicationStopJobs
        class TaggedStopJobs(ApplicationStopJobs):
            def process_job(jself, command):
                queued = False
                try:
                    queued = super().process_job(command)
                    return queued
                finally:
                    if queued and case.s.stopper.current_jobs.get(jself.application_name) is not jself: case.orphaned = True
        s.stopper.job_class = TaggedStopJobs
        def rec_start(ident, namespec, extra):
            k, st = self.cur[-1] if self.cur else (-1, -1)
            self.emitted.append(f"start:{self.pidx[namespec]}>{self.ids.index(ident)}@{k}/{st}")
        s.rpc_handler.send_start_process = rec_start
        orig_force = s.listener.force_process_state
        def force(process, identifier, event_time, forced_state, reason):
            k = self.cur[-1][0] if self.cur else self.check_job
            self.emitted.append(f"force:{self.pidx[process.namespec]}:{int(forced_state)}:{1 if reason == 'No resource available' else 0}@{k}")
            orig_force(process, identifier, event_time, forced_state, reason)
        s.listener.force_process_state = force
        s.rpc_handler.send_process_state_event = lambda payload: None
        s.rpc_handler.send_stop_process = lambda ident, namespec: self.emitted.append(f"stop:{self.pidx[namespec]}>{self.ids.index(ident)}")
        # applications & processes
        self.lines = [f"world {n} 0 {','.join(map(str, self.node))} {','.join(str(int(x)) for x in self.running)}"]; self.obs = ['ok']
        napps = rnd.randint(1, 3)
        self.aidx = {}; self.pidx = {}; self.pinfo = []
        procs_to_load = {}
        for a in range(napps):
            aname = f'app{a}'; self.aidx[aname] = a
            rules = ApplicationRules(s); rules.managed = True
            rules.start_sequence = rnd.randint(0, 2); rules.starting_strategy = rnd.choice(list(StartingStrategies))
            rules.stop_sequence = rnd.randint(0, 2)
            self.lines.append(f"app {rules.start_sequence} {rules.starting_strategy.value} {rules.stop_sequence}"); self.obs.append('ok')
            self.arules = getattr(self, 'arules', {}); self.arules[aname] = rules
            for k in range(rnd.randint(1, 4)):
                pname = f'p{k}'; ns = f'{aname}:{pname}'
                cfg = {'app': a, 'aname': aname, 'name': pname, 'seq': rnd.choice([0, 1, 1, 2, 3]), 'required': rnd.random() < 0.5,
                       'wait_exit': rnd.random() < 0.2, 'load': rnd.choice([0, 10, 30, 50, 60]),
                       'sfail': rnd.choice(list(StartingFailureStrategies)),
                       'idents': None if rnd.random() < 0.6 else rnd.sample(range(n), rnd.randint(1, n)),
                       'startsecs': rnd.choice([1, 5, 12]), 'stopseq': rnd.randint(0, 3), 'stopwait': rnd.choice([1, 5, 12]),
                       'known': [i for i in range(n) if rnd.random() < 0.8] or [0],
                       'disabled': [i for i in range(n) if rnd.random() < 0.1],
                       'init': {}}
                if not cfg['required'] or cfg['seq'] > 0: pass
                self.pinfo.append(cfg)
        # pre-create applications with our rules, then load process info through the real Context
        for aname, rules in self.arules.items():
            s.context.applications[aname] = ApplicationStatus(aname, rules, s)
        for i, ident in enumerate(self.ids):
            infos = []
            for cfg in self.pinfo:
                if i in cfg['known']:
                    st = rnd.choice([0, 0, 0, 0, 100, 200, 20]) if self.running[i] else 0
                    if st == 20 and 20 in cfg['init'].values(): st = 0
                    cfg['init'][i] = st
                    infos.append(full_info(cfg['aname'], cfg['name'], st, T[0] / UNIT, cfg['startsecs'], i in cfg['disabled'], cfg['stopwait']))
            status = s.context.instances[ident]
            saved = status._state; status._state = SupvisorsInstanceStates.CHECKING
            s.context.load_processes(status, infos)
            status._state = saved
        # index processes in the real insertion order of each application's process dict
        order = []
        for aname in self.arules:
            for pname in s.context.applications[aname].processes:
                order.append(next(c for c in self.pinfo if c['aname'] == aname and c['name'] == pname))
        self.pinfo = order
        for p, cfg in enumerate(self.pinfo):
            self.pidx[f"{cfg['aname']}:{cfg['name']}"] = p
            idents = '*' if cfg['idents'] is None else ','.join(map(str, cfg['idents']))
            self.lines.append(f"proc {cfg['app']} {cfg['seq']} {int(cfg['required'])} {int(cfg['wait_exit'])} {cfg['load']} {cfg['sfail'].name} {idents} {cfg['startsecs']} {cfg['stopseq']} {cfg['stopwait']}")
            self.obs.append('ok')
        # apply process rules (after creation)
        for cfg in self.pinfo:
            proc = s.context.applications[cfg['aname']].processes[cfg['name']]
            r = proc.rules
            r.start_sequence = cfg['seq']; r.required = cfg['required']; r.wait_exit = cfg['wait_exit']; r.expected_load = cfg['load']
            r.starting_failure_strategy = cfg['sfail']; r.stop_sequence = cfg['stopseq']
            r.identifiers = ['*'] if cfg['idents'] is None else [self.ids[i] for i in cfg['idents']]
        for app in s.context.applications.values():
            app.update_sequences(); app.update()
        # the truth held by the Supervisor of each instance about the disabled flag of each program
        self.dis = {(i, p): (i in cfg['disabled']) for p, cfg in enumerate(self.pinfo) for i in cfg['known']}
        # tell the model the initial infos, in the real insertion order of info_map (per process: instance order)
        for i in range(n):
            for p, cfg in enumerate(self.pinfo):
                if i in cfg['init']:
                    proc = s.context.applications[cfg['aname']].processes[cfg['name']]
                    info = proc.info_map[self.ids[i]]
                    self.lines.append(f"op {T[0]} info {i} {p} {cfg['init'][i]} 1 {int(info['event_time'] * UNIT)} {int(info['local_mtime'] * UNIT)} {int(i in cfg['disabled'])}")
                    self.obs.append(self.observe())

    def observe(self):
        e = self.emitted; self.emitted = []
        return (f"out=[{','.join(e)}] starting={'true' if self.s.starter.in_progress() else 'false'}"
                f" stopping={'true' if self.s.stopper.in_progress() else 'false'}" + (' orphan=1' if self.orphaned else ''))

    def record(self, op):
        self.lines.append(f"op {T[0]} {op}"); self.obs.append(self.observe())

    def run(self):
        rnd, s = self.rnd, self.s
        pending = []    # (time, i, p, state, expected)
        apps = list(self.aidx)
        rnd.shuffle(apps)
        steps = rnd.randint(10, 60)
        to_start = apps[:]
        scripts = {}
        for step in range(steps):
            if self.orphaned: break
            T[0] += rnd.randint(1, 3 * UNIT)
            r = rnd.random()
            if to_start and r < 0.35:
                aname = to_start.pop()
                strat = rnd.choice(list(StartingStrategies))
                s.starter.start_application(strat, s.context.applications[aname])
                self.record(f"startapp {self.aidx[aname]} {strat.value}")
            elif r < 0.55:
                i = rnd.randrange(self.n)
                s.context.instances[self.ids[i]].times.remote_sequence_counter += 1
                self.record(f"tick {i}")
            elif r < 0.62:
                aname = rnd.choice(list(self.aidx))
                if rnd.random() < 0.5:
                    s.stopper.stop_application(s.context.applications[aname]); self.record(f"stopapp {self.aidx[aname]}")
                else:
                    strat = rnd.choice(list(StartingStrategies))
                    s.stopper.restart_application(strat, s.context.applications[aname]); self.record(f"restartapp {self.aidx[aname]} {strat.value}")
            elif r < 0.72:
                s.starter.check(); s.stopper.check(); self.record("check")
            elif r < 0.77 and self.n > 1:
                self.cluster_op()
            else:
                # a process event: prefer processes with a start request in flight
                inflight = [(c.process.namespec, c.identifier) for j in list(s.starter.current_jobs.values()) + list(s.stopper.current_jobs.values()) for c in j.current_jobs]
                if inflight and rnd.random() < 0.85:
                    ns, ident = rnd.choice(inflight); p = self.pidx[ns]; i = self.ids.index(ident)
                    cur = s.context.get_process(ns).info_map[ident]['state']
                    nxt = {0: [10, 10, 10, 200], 100: [10, 10, 200], 200: [10, 10], 10: [20, 20, 20, 30, 100, 40], 30: [10, 200, 10], 20: [100, 40, 40, 40, 20], 40: [0, 0, 40]}.get(cur, [0])
                    st = rnd.choice(nxt)
                else:
                    p = rnd.randrange(len(self.pinfo)); cfg = self.pinfo[p]
                    i = rnd.choice(cfg['known']); ns = f"{cfg['aname']}:{cfg['name']}"
                    st = rnd.choice([0, 10, 20, 30, 40, 100, 200])
                # events of instances that are not seen CHECKED / RUNNING are sent now and then: they must be ignored
                if not (self.running[i] or self.checked[i]) and rnd.random() < 0.7: continue
                cfg = self.pinfo[p]
                # no conflicts in this spike: a running-like event only where nobody else runs the process
                procx = s.context.get_process(ns)
                if st in (10, 20, 30) and any(x != self.ids[i] for x in procx.running_identifiers): continue
                if i not in cfg['known']: continue
                expected = rnd.random() < 0.7
                self.process_event(i, p, st, expected)
        return self

    def process_event(self, i, p, st, expected):
        s = self.s; cfg = self.pinfo[p]; ident = self.ids[i]; ns = f"{cfg['aname']}:{cfg['name']}"
        ev = event(cfg['aname'], cfg['name'], ident, st, expected, T[0] / UNIT)
        ev['disabled'] = self.dis[(i, p)]
        before = dict(s.context.get_process(ns).info_map[ident])
        s.fsm.on_process_state_event(s.context.instances[ident], ev)
        info = s.context.get_process(ns).info_map[ident]
        accepted = self.running[i] or self.checked[i]
        et, lt = (int(info['event_time'] * UNIT), int(info['local_mtime'] * UNIT)) if accepted else (T[0], T[0])
        self.record(f"event {i} {p} {st} {int(expected)} {et} {lt} {int(self.dis[(i, p)])}")

    def cluster_op(self):
        """ the cluster moves under the commander: an instance is lost (with whatever it was asked), comes back through a
            handshake (CHECKED), is activated (RUNNING); a program is disabled / enabled on the Supervisor of an instance """
        rnd, s = self.rnd, self.s
        r = rnd.random()
        others = list(range(1, self.n))
        if r < 0.35:
            cands = [i for i in others if self.running[i] or self.checked[i]]
            if not cands: return
            # prefer an instance with a request in flight
            busy = [self.ids.index(c.identifier) for j in list(s.starter.current_jobs.values()) + list(s.stopper.current_jobs.values())
                    for c in j.current_jobs if c.identifier != self.ids[0]]
            i = rnd.choice(busy) if busy and rnd.random() < 0.7 else rnd.choice(cands)
            if i not in cands: return
            status = s.context.instances[self.ids[i]]
            status._state = SupvisorsInstanceStates.FAILED
            lost, failed = s.context.invalidate_failed()
            # _MasterSlaveState._common_next
            s.starter.on_instances_invalidation(lost, failed)
            s.stopper.on_instances_invalidation(lost, failed)
            self.running[i] = False; self.checked[i] = False
            self.lines.append(f"op {T[0]} lose {i}")
            self.obs.append(self.observe() + f" failed=[{','.join(map(str, sorted(self.pidx[x.namespec] for x in failed)))}]")
        elif r < 0.6:
            cands = [i for i in others if not self.running[i] and not self.checked[i]]
            if not cands: return
            i = rnd.choice(cands); ident = self.ids[i]; status = s.context.instances[ident]
            if status.state == SupvisorsInstanceStates.ISOLATED: return
            infos = []; sts = {}
            for p, cfg in enumerate(self.pinfo):
                if i in cfg['known']:
                    procx = s.context.get_process(f"{cfg['aname']}:{cfg['name']}")
                    st = rnd.choice([0, 0, 0, 100, 200, 20, 10])
                    if st in (10, 20) and (procx.running_identifiers or not procx.stopped()): st = 0
                    # a start may have been asked in the meantime elsewhere: no conflict in this spike
                    if st in (10, 20) and any(c.process is procx for j in s.starter.current_jobs.values() for c in j.current_jobs): st = 0
                    sts[p] = st
                    infos.append(full_info(cfg['aname'], cfg['name'], st, T[0] / UNIT, cfg['startsecs'], self.dis[(i, p)], cfg['stopwait']))
            status._state = SupvisorsInstanceStates.CHECKING
            s.context.load_processes(status, infos)
            for p, st in sts.items():
                cfg = self.pinfo[p]
                info = s.context.get_process(f"{cfg['aname']}:{cfg['name']}").info_map[ident]
                self.record(f"info {i} {p} {st} 1 {int(info['event_time'] * UNIT)} {int(info['local_mtime'] * UNIT)} {int(self.dis[(i, p)])}")
            status._state = SupvisorsInstanceStates.CHECKED
            self.checked[i] = True
            self.record(f"inst {i} 1")
        elif r < 0.8:
            cands = [i for i in others if self.checked[i]]
            if not cands: return
            i = rnd.choice(cands)
            s.context.instances[self.ids[i]]._state = SupvisorsInstanceStates.RUNNING
            self.checked[i] = False; self.running[i] = True
            self.record(f"inst {i} 2")
        else:
            keys = sorted(self.dis)
            if not keys: return
            i, p = rnd.choice(keys); cfg = self.pinfo[p]; ident = self.ids[i]
            self.dis[(i, p)] = not self.dis[(i, p)]
            s.context.on_process_disability_event(s.context.instances[ident], {'group': cfg['aname'], 'name': cfg['name'], 'disabled': self.dis[(i, p)]})
            info = s.context.get_process(f"{cfg['aname']}:{cfg['name']}").info_map[ident]
            self.lines.append(f"op {T[0]} disable {i} {p} {int(self.dis[(i, p)])}")
            self.obs.append(self.observe() + f" dis={int(info['disabled'])}")



def run_cases(chk, seeds):
    """ returns list of dicts per case: seed, lines, obs, model, first diff, implementation exception """
    lines = []; obs = []; bounds = []; res = []
    for seed in seeds:
        c = Case(seed); exc = None
        try:
            with watchdog(60): c.run()
        except Hang as e:
            exc = ('Hang', str(e))
        except Exception as e:
            exc = (type(e).__name__, traceback.format_exc())
            c.emitted = []
        bounds.append((seed, len(lines), len(lines) + len(c.lines), exc, c))
        lines += [f'{l} | {o}' for l, o in zip(c.lines, c.obs)]; obs += c.obs
    model = chk.driver('drv_cmd', lines)
    for seed, a, b, exc, c in bounds:
        diff = None; verdicts = []
        for k in range(a, b):
            parts = [x.strip() for x in model[k].split('|')]
            if diff is None and obs[k].replace(' orphan=1', '') != parts[0]:
                diff = {'line': k - a, 'op': lines[k].split('|')[0].strip(), 'impl': obs[k], 'model': parts[0]}
            if len(parts) > 1 and parts[1] != 'J:ok':
                for v in parts[1][2:].split(';'): verdicts.append((k - a, v, lines[k].split('|')[0].strip()))
        res.append({'seed': seed, 'lines': [l.split('|')[0].strip() for l in lines[a:b]], 'obs': obs[a:b], 'diff': diff,
                    'verdicts': verdicts, 'exc': exc, 'case': c})
    return res


# ---------------------------------------------------------------------------------------------------------------
RULES = {
    'C03': ('at least two start requests of one application in different sequence groups and one failure, time-out or '
            'no-resource', lambda outs: _groups(outs, 'start') and any('force:' in o for o in outs)),
    'C04': ('at least two start requests and one refusal for lack of resource, or three start requests on a cluster of >= 2 '
            'instances', lambda outs: (sum(o.count('start:') for o in outs) >= 2 and any(':200:1@' in o for o in outs))
            or sum(o.count('start:') for o in outs) >= 3),
    'C09': ('at least two stop requests emitted by different operations (two stop groups)', lambda outs: sum(1 for o in outs if 'stop:' in o) >= 2),
    'C10': ('at least one request given up on time-out (forced state emitted by a periodic check)',
            lambda outs: any(':0@' in o and 'force:' in o for o in outs)),
    'C14': ('at least two start requests placed with a load-sensitive strategy', lambda outs: sum(
        1 for o in outs for x in o.split(',') if 'start:' in x and x.rsplit('/', 1)[-1].rstrip(']').split()[0] not in ('0', '3')) >= 2),
}


def _groups(outs, kind):
    return sum(1 for o in outs if f'{kind}:' in o) >= 2


def commander_check(chk, module, prefixes, quick_cases=1500, thorough_cases=30000, search_cases=6000):
    """ common body of the commander-level checks (C03 C04 C09 C10 C14) """
    from core import derive_seeds
    prop = chk.prop
    chk.regen(['constants', 'supervisor.states', 'enum:StartingStrategies', 'enum:StartingFailureStrategies', 'ast:is_loading_valid',
               'enum:ProcessRequestResult'])
    chk.prove(module, extra_targets=['drv_cmd'])
    if chk.tier == 'thorough': chk.leanchecker([module])
    n = quick_cases if chk.tier == 'quick' else thorough_cases
    rule_text, rule = RULES[prop]
    stats = {'evaluations': 0, 'lines': 0, 'nontrivial': set(), 'ops': {}, 'emitted': {'start': 0, 'stop': 0, 'force': 0},
             'impl_exceptions': {}, 'orphan_cases': 0}
    samples = []

    def batch(seeds):
        for r in run_cases(chk, seeds):
            stats['evaluations'] += 1; stats['lines'] += len(r['lines'])
            outs = [o.split(' starting=')[0] for o in r['obs']]
            for o in outs:
                for k in stats['emitted']: stats['emitted'][k] += o.count(k + ':')
            for l in r['lines']:
                if l.startswith('op '): k = l.split()[2]; stats['ops'][k] = stats['ops'].get(k, 0) + 1
            if rule(outs): stats['nontrivial'].add(r['seed'])
            if r['case'].orphaned: stats['orphan_cases'] += 1
            if not samples and rule(outs):
                samples.append({'case_seed': r['seed'], 'configuration': [l for l in r['lines'] if not l.startswith('op')],
                                'operations': [f'{l}  ->  {o}' for l, o in zip(r['lines'], r['obs']) if l.startswith('op') and ' info ' not in l][:14]})
            base = {'case_seed': r['seed'], 'how': f'./check {prop} --replay <this file> regenerates the case from case_seed'}
            if r['exc']:
                cls = r['exc'][0]
                stats['impl_exceptions'][cls] = stats['impl_exceptions'].get(cls, 0) + 1
                sig = f"{prop}:{'hang' if cls == 'Hang' else 'exception:' + tb_signature(r['exc'][1])}"
                chk.reject(sig, f'the implementation raised {cls} while handling an operation', dict(base, traceback=r['exc'][1][-1500:], lines=r['lines'][-15:]))
            if r['diff']:
                chk.disagree('Cmd', dict(base, **r['diff'], prefix=r['lines'][max(0, r['diff']['line'] - 12):r['diff']['line'] + 1]))
            seen = set()
            for k, v, op in r['verdicts']:
                tag = v.split(':')[0]
                if not any(tag.startswith(p) for p in prefixes) or tag in seen: continue
                seen.add(tag)
                sig = f"{prop}:{tag.split('-', 1)[1]}"
                chk.reject(sig, f'{v} at operation {k} ({op})',
                           dict(base, verdict=v, operation_index=k, configuration=[l for l in r['lines'] if not l.startswith('op')],
                                operations=[f'{l}  ->  {o}' for l, o in zip(r['lines'][:k + 1], r['obs'][:k + 1]) if l.startswith('op') and ' info ' not in l][-25:]))

    corpus = []
    d = os.path.join(os.path.dirname(os.path.dirname(os.path.abspath(__file__))), 'corpus', prop)
    if os.path.isdir(d):
        for f in sorted(os.listdir(d)):
            if f.endswith('.json'): corpus.append(json.load(open(os.path.join(d, f)))['case_seed'])
    if corpus: batch(corpus)
    seeds = derive_seeds(chk.seed, n)
    for k in range(0, len(seeds), 1000): batch(seeds[k:k + 1000])
    if not chk.obligations_ok() or chk.disagreements:
        more = derive_seeds(chk.seed + 15485863, search_cases)
        for k in range(0, len(more), 1000): batch(more[k:k + 1000])
    chk.coverage.update({
        'evaluations': stats['evaluations'], 'distinct_nontrivial': len(stats['nontrivial']),
        'rule': 'generated application configurations (1-3 applications x 1-4 processes, sequences, required, wait_exit, loads, strategies, '
                'identifiers rules, 1-4 instances on 1-4 nodes, programs unknown / disabled on some instances) driven by start / stop / '
                'restart requests, ticks, periodic checks and process events (incl. events Supervisor would not produce); non-trivial = '
                + rule_text + '; distinct = distinct case seed',
        'samples': samples, 'recorded_lines': stats['lines'], 'operation_kinds': stats['ops'], 'requests_emitted': stats['emitted'],
        'implementation_exceptions': stats['impl_exceptions'], 'cases_ended_by_a_dropped_job': stats['orphan_cases'],
        'traces_validated_against_impl': stats['evaluations'], 'exhaustive': False})
    chk.trusted += ['harness/cmdh.py + harness/simenv.py (real Starter / Stopper / strategies / Context / ProcessStatus of one instance; recording '
                    'sinks on send_start_process / send_stop_process / force_process_state; generated events)',
                    'lean/Supv/Drv/Cmd.lean (op-line parser, observation printer, monitor calling Supv.Spec.Cmd)',
                    'modelled, not verified: Python object identity of job objects reduced to creation ranks; instances of a node given as a '
                    'function instance -> node; the monitor attributes requests to application starts through the rank recorded by the harness']
    chk.assumptions += ['the ordering / eligibility clauses over whole executions are judged on the implementation by the Lean monitor (search) and '
                        'carried by the lock-step correspondence; the theorems are about the decision functions the commander runs',
                        'a case ends when the implementation drops a job object that goes on sending requests (known finding C10:start-request-untracked)']


def commander_replay(chk, path, prefixes):
    c = json.load(open(path)); r0 = c.get('replay', c)
    for r in run_cases(chk, [r0['case_seed']]):
        if r['diff']: chk.disagree('Cmd', r['diff'])
        for k, v, op in r['verdicts']:
            tag = v.split(':')[0]
            if any(tag.startswith(p) for p in prefixes):
                chk.reject(f"{chk.prop}:{tag.split('-', 1)[1]}", f'{v} at operation {k} ({op})', {'case_seed': r['seed']})
    chk.coverage.update({'evaluations': 1, 'distinct_nontrivial': 0, 'rule': 'replay of one case', 'samples': [r0['case_seed']]})
