""" C10 — commander-level check: proof obligations Supv.Props.C10, lock-step of the real Starter / Stopper with the Lean commander
    model, Lean monitor (Supv.Spec.Cmd) on the requests the implementation emitted.  See harness/cmdh.py. """
from cmdh import commander_check, commander_replay


def run(chk):
    commander_check(chk, 'Supv.Props.C10', ['C10-'])
    import c16free
    c16free.liveness_stage(chk, 'C10:free:', [{}, {'ending': True}], 100, 6000)


def replay(chk, path):
    import json
    c = json.load(open(path)); r = c.get('replay', c)
    if r.get('stage') == 'free':
        import c16free
        c16free.liveness_replay(chk, r, 'C10:free:')
    else:
        commander_replay(chk, path, ['C10-'])
