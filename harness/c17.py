""" C17 — XML-RPC commands are gated by Supvisors state and fail cleanly.

    Obligations: translator `tools/extract_rpc.py` (regenerates lean/Supv/Gen/RpcGuards.lean from the CURRENT rpcinterface.py)
    + the theorems of `Supv.Props.C17` about the generated table against the hand-written documented table.
    Correspondence / judge: the COMPLETE matrix  method x scenario (9 Supvisors states, reached by a real history of a
    3-instance cluster made of the real classes) x Master / non-Master x parameter variants, on the real RPCInterface;
    full observable snapshot + emitted messages before / after every call; every observation is judged by the Lean
    specification `Supv.Spec.C17.judge` and compared with the prediction of the Lean model `Supv.Rpc.run` on the generated
    table (driver `drv_c17`). """
import io, os, sys, json, random
from simenv import *
from simenv import Sim, Net, T, UNIT, watchdog, Hang, tb_signature
import core
from supervisor import events as sup_events
from supervisor.xmlrpc import Faults
from supervisor.states import ProcessStates
from supvisors.sparser import Parser
from supvisors.ttypes import (SupvisorsStates, SupvisorsInstanceStates, SynchronizationOptions, StartingStrategies,
                              ConciliationStrategies, SupvisorsFaults, RequestHeaders)

VERIF = core.VERIF
FAULT_NAME = {v: k for k, v in vars(Faults).items() if isinstance(v, int)}
FAULT_NAME.update({f.value: f.name for f in SupvisorsFaults})
SNAME = {0: 'STOPPED', 10: 'STARTING', 20: 'RUNNING', 30: 'BACKOFF', 40: 'STOPPING', 100: 'EXITED', 200: 'FATAL', 1000: 'UNKNOWN'}

# --------------------------------------------------------------------------------------------------------------------
# the world: 3 instances, a real rules file (real Parser), a fake local Supervisor per instance
# --------------------------------------------------------------------------------------------------------------------
RULES = b"""<?xml version="1.0" encoding="UTF-8" standalone="no"?>
<root>
    <application name="app">
        <programs>
            <program name="p1"><identifiers>*</identifiers><expected_loading>5</expected_loading></program>
            <program name="p2"><identifiers>*</identifiers><expected_loading>5</expected_loading></program>
        </programs>
    </application>
    <application name="dup">
        <programs>
            <program name="d"><identifiers>*</identifiers></program>
        </programs>
    </application>
    <application name="auto">
        <start_sequence>1</start_sequence>
        <programs>
            <program name="a1"><identifiers>*</identifiers><start_sequence>1</start_sequence><expected_loading>5</expected_loading></program>
        </programs>
    </application>
</root>
"""


def world_table(k, conflict, auto):
    """ (group, name, state) of the local Supervisor of instance k (1-based).  `app` managed, `unm` not in the rules file """
    t = [('app', 'p1', 0), ('app', 'p2', 20 if k == 3 else 0), ('unm', 'u1', 20 if k == 2 else 0)]
    if conflict: t.append(('dup', 'd', 20 if k in (1, 2) else 0))
    if auto: t.append(('auto', 'a1', 0))
    return t


class FakeProcess:
    """ what SupervisorData and the listener read of a Supervisor Subprocess """
    def __init__(self, group, name, state, index):
        self.group = Mock(); self.group.config.name = group
        self.config = Mock(); self.config.name = name; self.config.command = f'/bin/{name}'; self.config.startsecs = 1
        self.config.stopwaitsecs = 1; self.config.stdout_logfile = None; self.config.stderr_logfile = None
        self.config.autorestart = False
        self.supvisors_config = Mock(); self.supvisors_config.command_ref = f'/bin/{name}'
        self.supvisors_config.process_index = 0
        self.supvisors_config.program_config.name = name; self.supvisors_config.program_config.disabled = False
        self.state = state; self.pid = 0; self.spawnerr = ''; self.extra_args = ''
        self.laststart_monotonic = 0.0; self.laststop_monotonic = 0.0; self.obsolete = False; self.backoff = 0


class FakeSupervisor:
    """ the local Supervisor: process table + the two XML-RPC entry points Supvisors uses; state changes are notified
        through the REAL SupervisorListener.on_process_state with real Supervisor event classes """
    EVENT = {10: sup_events.ProcessStateStartingEvent, 20: sup_events.ProcessStateRunningEvent,
             40: sup_events.ProcessStateStoppingEvent, 0: sup_events.ProcessStateStoppedEvent}

    def __init__(self, inst, table):
        self.inst = inst; self.procs = {}; self.calls = []
        groups = {}
        for g, n, s in table:
            p = self.procs[f'{g}:{n}'] = FakeProcess(g, n, s, len(self.procs))
            grp = groups.setdefault(g, Mock()); grp.config.name = g
            if not isinstance(getattr(grp, 'processes', None), dict): grp.processes = {}
            grp.processes[n] = p
        inst.supervisord.process_groups = groups

    def info(self, namespec):
        p = self.procs[namespec]; now = T[0] / UNIT
        return {'group': p.group.config.name, 'name': p.config.name, 'state': p.state, 'statename': SNAME[p.state],
                'start': 0, 'stop': 0, 'now': 1e6 + now, 'pid': p.pid, 'description': '', 'spawnerr': p.spawnerr,
                'exitstatus': 0, 'logfile': '', 'stdout_logfile': '', 'stderr_logfile': ''}

    # supervisor.* XML-RPC (called in-process by Supvisors)
    def getAllProcessInfo(self): return [self.info(ns) for ns in self.procs]

    def getProcessInfo(self, namespec):
        if namespec not in self.procs: raise RPCError(Faults.BAD_NAME, namespec)
        return self.info(namespec)

    def startProcess(self, namespec, wait=True):
        self.calls.append(('start', namespec))
        if namespec not in self.procs: raise RPCError(Faults.BAD_NAME, namespec)
        if self.procs[namespec].state in (10, 20): raise RPCError(Faults.ALREADY_STARTED, namespec)
        self.set_state(namespec, 10); self.set_state(namespec, 20)
        return True

    def stop(self, namespec):
        self.calls.append(('stop', namespec))
        if namespec not in self.procs: raise RPCError(Faults.BAD_NAME, namespec)
        if self.procs[namespec].state not in (10, 20): raise RPCError(Faults.NOT_RUNNING, namespec)
        self.set_state(namespec, 40); self.set_state(namespec, 0)
        return True

    def start(self, namespec):          # supvisors.start_args arriving through the simulated network
        return self.inst.rpc.start_args(namespec, '', False)

    def set_state(self, namespec, state):
        p = self.procs[namespec]; old = p.state; p.state = state
        self.inst.listener.on_process_state(self.EVENT[state](p, old, True))


class Inst(Sim):
    """ one real Supvisors instance + its fake Supervisor + recording of everything it emits """
    def __init__(self, net, k, n, opts, table):
        super().__init__(net, k, n, opts)
        self.options.rules_files = [io.BytesIO(RULES)]
        self.parser = Parser(self)
        self.fake = FakeSupervisor(self, table)
        self.supervisor_data._supervisor_rpc_interface = self.fake
        del self.rpc.get_all_local_process_info                     # the real method, on the fake Supervisor
        programs = {}
        for g, nme, _ in table: programs.setdefault(nme, []).append(f'{g}:{nme}')
        self.server_options.program_configs = {p: Mock() for p in programs}
        self.server_options.get_subprocesses = lambda prog: list(programs.get(prog, []))
        self.supervisor_updater.update_numprocs.return_value = ([], [])
        # recording: everything pushed towards the proxies (requests, publications, notifications)
        self.emitted = []
        ps = self.rpc_handler.proxy_server
        o_req, o_pub, o_not = ps.push_request, ps.push_publication, ps.push_notification

        def push_request(identifier, message):
            self.emitted.append(f'request>{self.idx.get(identifier, identifier)}:{canon(message)}'); o_req(identifier, message)

        def push_publication(message):
            self.emitted.append(f'publication:{canon(message)}'); o_pub(message)

        def push_notification(message):
            self.emitted.append(f'notification:{canon(message)}'); o_not(message)
        ps.push_request, ps.push_publication, ps.push_notification = push_request, push_publication, push_notification

    def tick(self):
        ev = Mock(); ev.when = 1.0e6 + T[0] / UNIT
        self.listener.on_tick(ev)

    def deliver(self):
        typ, data = self.inbox.pop(0)
        ev = Mock(); ev.type = typ; ev.data = data
        self.listener.on_remote_event(ev)

    @property
    def state(self): return self.fsm.state


def canon(x):
    """ canonical text of an emitted message: no wall-clock values """
    def clean(v):
        if isinstance(v, dict):
            return {k: clean(w) for k, w in sorted(v.items()) if k not in ('now', 'now_monotonic', 'when', 'when_monotonic')}
        if isinstance(v, (list, tuple)): return [clean(w) for w in v]
        if isinstance(v, float): return 'f'
        if hasattr(v, 'name') and hasattr(v, 'value'): return v.name
        return v
    return json.dumps(clean(x), sort_keys=True, default=str)


class Cluster:
    def __init__(self, opts=None, conflict=False, auto=False, absent=()):
        T[0] = 10 * UNIT
        self.net = Net(); self.n = 3
        self.sims = [Inst(self.net, k, 3, dict(opts or {}), world_table(k, conflict, auto)) for k in (1, 2, 3)]
        self.absent = set(absent)
        for s in self.sims:
            if s.k in self.absent: self.net.down.add(s.identifier)
        self.hold_requests = False          # start / stop requests stay in flight
        self.log = []                       # the history (for the evidence / replays)

    def live(self): return [s for s in self.sims if s.identifier not in self.net.down]

    def running(self):
        for s in self.live():
            s.listener.on_running(None)
        self.log.append('running')

    def held(self, message):
        if not self.hold_requests: return False
        kind, (_, body) = message
        return kind == InternalEventHeaders.REQUEST and body[0] in (RequestHeaders.START_PROCESS.value, RequestHeaders.STOP_PROCESS.value)

    def hop(self, only=None):
        """ one message hop (first deliverable message in a fixed order); False when nothing can move """
        for s in self.live():
            if only is not None and s is not only: continue
            if s.inbox:
                T[0] += 1; s.deliver(); return True
            for ident, p in list(s.rpc_handler.proxy_server.proxies.items()):
                for pos, message in enumerate(p.queue):
                    if self.held(message): continue
                    if pos: p.queue.insert(0, p.queue.pop(pos))
                    T[0] += 1; p.step(); return True
        return False

    def drain(self, until=None, only=None):
        while True:
            if until is not None and until(): return True
            if not self.hop(only): return until() if until is not None else True

    def round(self, until=None):
        for s in self.live():
            T[0] += 5 * UNIT // 3
            s.tick()
            if self.drain(until) and until is not None: return True
        self.log.append('round')
        return False

    def run_until(self, until, max_rounds=12):
        for _ in range(max_rounds):
            if self.round(until): return True
        return until()


# --------------------------------------------------------------------------------------------------------------------
# scenarios: a real history bringing the subject instance (1 = becomes / is Master, 2 = non-Master) to a target state
# --------------------------------------------------------------------------------------------------------------------
S = SupvisorsStates


def sc_off(role):
    c = Cluster(); c.running()                       # Supervisor RUNNING, no TICK yet
    return c, 'Supervisor RUNNING on the 3 instances, no TICK received yet'


def sc_sync_user(role):
    c = Cluster({'synchro_options': 'USER'}); c.running()
    for _ in range(4): c.round()
    return c, 'synchro_options=USER: 4 TICK rounds, every instance RUNNING and loaded, nobody ends the synchronization'


def sc_sync_list(role):
    c = Cluster({'synchro_options': 'LIST'}, absent=(3,)); c.running()
    for _ in range(3): c.round()
    return c, 'synchro_options=LIST with instance 3 never started: 3 TICK rounds, instances 1 and 2 wait in SYNCHRONIZATION'


def sc_election(role):
    c = Cluster(); c.running()
    subject = c.sims[role - 1]
    c.run_until(lambda: subject.state == S.ELECTION)
    return c, 'default options (LIST): TICK rounds, message by message, stopped as soon as the subject enters ELECTION'


def sc_distribution(role):
    c = Cluster(auto=True); c.running(); c.hold_requests = True
    subject = c.sims[role - 1]
    c.run_until(lambda: subject.state == S.DISTRIBUTION)
    return c, ('application `auto` (start_sequence 1) stopped everywhere: the Master enters DISTRIBUTION and its start '
               'request stays in flight; stopped as soon as the subject is in DISTRIBUTION')


def sc_operation(role):
    c = Cluster(); c.running()
    c.run_until(lambda: all(s.state == S.OPERATION for s in c.sims))
    c.round()
    return c, 'default options: TICK rounds until the 3 instances are in OPERATION, one more round'


def sc_operation_master_lost(role):
    c, _ = sc_operation(role)
    b = c.sims[role - 1]
    c.net.down.add(c.sims[0].identifier)            # the Master dies
    T[0] += 5 * UNIT // 3
    b.tick()                                        # B publishes its TICK: the XML-RPC to the Master fails
    c.drain(until=lambda: b.state_modes.master_identifier == '', only=b)
    return c, ('OPERATION, then the Master (instance 1) dies; instance 2 publishes its TICK, the XML-RPC fails, the failure '
               'notification is handled: the Master is reset while the FSM is still in OPERATION (until the next TICK)')


def sc_operation_jobs(role):
    c, _ = sc_operation(role)
    c.hold_requests = True
    subject = c.sims[role - 1]
    subject.rpc.start_process('CONFIG', 'app:p1', '', False)      # a user request (real XML-RPC) whose start request stays in flight
    c.drain()
    return c, ('OPERATION, then XML-RPC start_process(app:p1) on the subject: its start request stays in flight, the starting job '
               'is in progress and published')


def sc_conciliation(role):
    c = Cluster(conflict=True); c.running()
    subject = c.sims[role - 1]
    c.run_until(lambda: subject.state == S.CONCILIATION)
    c.drain()
    return c, 'process dup:d RUNNING on instances 1 and 2 at handshake, conciliation_strategy=USER: the Master stays in CONCILIATION'


def _ending(role, name, target):
    c, _ = sc_operation(role)
    c.hold_requests = True
    subject = c.sims[role - 1]
    c.sims[0].rpc_call(name)                        # the user asks the Master (real XML-RPC)
    c.drain(until=lambda: subject.state == target)
    return c


def sc_restarting(role):
    return _ending(role, 'restart', S.RESTARTING), ('OPERATION, then XML-RPC restart on the Master: stop requests of the running '
                                                    'processes stay in flight, publications delivered until the subject is RESTARTING')


def sc_shutting_down(role):
    return _ending(role, 'shutdown', S.SHUTTING_DOWN), ('OPERATION, then XML-RPC shutdown on the Master: stop requests stay in '
                                                        'flight, publications delivered until the subject is SHUTTING_DOWN')


def sc_final_shutdown(role):
    c = _ending(role, 'shutdown', S.SHUTTING_DOWN)
    c.hold_requests = False
    subject = c.sims[role - 1]
    c.drain(until=lambda: subject.state == S.FINAL)
    if subject.state != S.FINAL: c.run_until(lambda: subject.state == S.FINAL)
    return c, 'SHUTTING_DOWN as above, then the stop requests are executed by the fake Supervisors: Master then others reach FINAL'


def sc_final(role):
    c = _ending(role, 'restart', S.RESTARTING)
    c.hold_requests = False
    subject = c.sims[role - 1]
    c.drain(until=lambda: subject.state == S.FINAL)
    if subject.state != S.FINAL: c.run_until(lambda: subject.state == S.FINAL)
    return c, 'RESTARTING as above, then the stop requests are executed by the fake Supervisors: Master then others reach FINAL'


SCENARIOS = [  # name, expected state, builder, roles (quick), further roles (thorough)
    ('OFF', S.OFF, sc_off, (1, 2), (3,)),
    ('SYNCHRONIZATION/USER', S.SYNCHRONIZATION, sc_sync_user, (1, 2), (3,)),
    ('SYNCHRONIZATION/LIST', S.SYNCHRONIZATION, sc_sync_list, (1, 2), ()),
    ('ELECTION', S.ELECTION, sc_election, (1, 2), (3,)),
    ('DISTRIBUTION', S.DISTRIBUTION, sc_distribution, (1, 2), (3,)),
    ('OPERATION', S.OPERATION, sc_operation, (1, 2), (3,)),
    ('OPERATION/jobs', S.OPERATION, sc_operation_jobs, (1, 2), (3,)),
    ('OPERATION/master-lost', S.OPERATION, sc_operation_master_lost, (2,), (3,)),
    ('CONCILIATION', S.CONCILIATION, sc_conciliation, (1, 2), (3,)),
    ('RESTARTING', S.RESTARTING, sc_restarting, (1, 2), (3,)),
    ('SHUTTING_DOWN', S.SHUTTING_DOWN, sc_shutting_down, (1, 2), (3,)),
    ('FINAL', S.FINAL, sc_final, (1, 2), (3,)),
    ('FINAL/shutdown', S.FINAL, sc_final_shutdown, (1, 2), (3,)),
]
SCENARIO = {n: (st, fn, roles) for n, st, fn, roles, _ in SCENARIOS}



# --------------------------------------------------------------------------------------------------------------------
# the calls: every public method x parameter variants (label = parameter class)
# --------------------------------------------------------------------------------------------------------------------
FULL2, NICK2, LOCAL = '10.0.0.2:25000', '10.0.0.2', None      # LOCAL is replaced by the identifier of the subject
STRATS = [('valid', 'CONFIG'), ('valid', 1), ('unknown-strategy', 'BOGUS'), ('unknown-strategy', 99), ('unknown-strategy', 1.5),
          ('unknown-strategy', True), ('unknown-strategy', False)]       # an XML-RPC <boolean> is not a strategy (bool is an int subclass)
CSTRATS = [('valid', 'SENICIDE'), ('valid', 'USER'), ('valid', 0), ('unknown-strategy', 'BOGUS'), ('unknown-strategy', 99), ('unknown-strategy', True)]
APPS = [('valid', 'app'), ('unknown-application', 'ghost'), ('unmanaged', 'unm')]
NSPECS = [('valid', 'app:p1'), ('valid', 'app:p2'), ('valid', 'app:*'), ('valid', 'unm:u1'), ('unknown-application', 'ghost:p1'),
          ('unknown-process', 'app:ghost'), ('unknown-application', 'ghost:*'), ('unknown-application', 'ghost')]
INSTS = [('valid', FULL2), ('valid', LOCAL), ('nick-identifier', NICK2), ('unknown-instance', 'ghost')]
PROGS = [('valid', 'p1'), ('valid', 'u1'), ('unknown-program', 'ghost')]


def merge(labels):
    bad = [l for l in labels if l != 'valid']
    return '+'.join(dict.fromkeys(bad)) if bad else 'valid'


def cross(*axes, tail=()):
    """ baseline (first value of every axis) + every single deviation + all-invalid combination """
    base = [a[0] for a in axes]; out = []
    def add(combo):
        item = (merge([l for l, _ in combo]), tuple(v for _, v in combo) + tuple(tail))
        if item not in out: out.append(item)
    add(base)
    for k, axis in enumerate(axes):
        for alt in axis[1:]:
            add(base[:k] + [alt] + base[k + 1:])
    if len(axes) > 1:
        for combo in __import__('itertools').product(*[[x for x in a if x[0] != 'valid'] for a in axes]):
            add(list(combo))
    return out


def variants(method):
    if method in ('get_api_version', 'get_supvisors_state', 'get_all_instances_state_modes', 'get_master_identifier',
                  'get_strategies', 'get_statistics_status', 'get_all_instances_info', 'get_all_local_process_info',
                  'get_all_applications_info', 'get_all_process_info', 'get_conflicts', 'restart', 'shutdown', 'get_logger_levels'):
        return [('valid', ())]
    if method in ('get_instance_state_modes', 'get_network_info', 'get_instance_info', 'get_all_inner_process_info'):
        return cross(INSTS)
    if method == 'get_inner_process_info': return cross(INSTS, NSPECS)
    if method == 'get_local_process_info': return [('valid', ('app:p1',)), ('unknown-to-supervisor', ('ghost:p1',)), ('unknown-to-supervisor', ('app:*',))]
    if method in ('get_application_info', 'get_application_rules'): return cross(APPS)
    if method in ('get_process_info', 'get_process_rules'): return cross(NSPECS)
    if method in ('start_application', 'restart_application'):
        return cross(STRATS, APPS, tail=(False,)) + [('valid', ('CONFIG', 'app', True))]
    if method == 'test_start_application': return cross(STRATS, APPS)
    if method == 'stop_application': return cross(APPS, tail=(False,)) + [('valid', ('app', True))]
    if method == 'start_args':
        return [(('group-namespec' if v == 'app:*' else l), (v, '-x', False)) for l, v in NSPECS]
    if method in ('start_process', 'restart_process'):
        return cross(STRATS, NSPECS, tail=('', False)) + [('valid', ('CONFIG', 'app:p1', '-x', True))]
    if method == 'test_start_process': return cross(STRATS, NSPECS)
    if method == 'start_any_process':
        return cross(STRATS, [('valid', 'p1'), ('valid', ':p'), ('no-match', 'ghost')], tail=('', False))
    if method == 'stop_process': return cross(NSPECS, tail=(False,)) + [('valid', ('app:p2', True))]
    if method == 'update_numprocs':
        return cross(PROGS, [('valid', 2), ('valid', '3'), ('bad-value', 0), ('bad-value', -1), ('bad-value', 'abc')], tail=(False, False))
    if method in ('enable', 'disable'): return cross(PROGS, tail=(False,)) + [('valid', ('p1', True))]
    if method == 'conciliate': return cross(CSTRATS)
    if method == 'restart_sequence': return [('valid', (False,)), ('valid', (True,))]
    if method == 'end_sync': return [('valid', ()), ('valid', ('',))] + cross(INSTS)
    if method == 'change_log_level':
        return cross([('valid', 'info'), ('valid', 20), ('bad-value', 'bogus'), ('bad-value', 12345), ('bad-value', 1.5), ('bad-value', True)])
    if method in ('enable_host_statistics', 'enable_process_statistics'):
        return [('valid', (True,)), ('valid', (False,)), ('valid/collector', (True,))]
    if method == 'update_collecting_period': return [('valid', (5.0,)), ('valid/collector', (7.5,))]
    return None            # a public method this harness does not know: reported in the evidence, not called
                           # (it has no documented entry either: `C17_gate_table` stops checking)


NAME_ARG = {  # method -> (index of the name argument, kind)
    'get_application_info': (0, 'app'), 'get_application_rules': (0, 'app'), 'get_process_info': (0, 'ns'), 'get_process_rules': (0, 'ns'),
    'get_inner_process_info': (1, 'ns'), 'start_application': (1, 'app'), 'restart_application': (1, 'app'),
    'test_start_application': (1, 'app'), 'stop_application': (0, 'app'), 'start_args': (0, 'ns'), 'start_process': (1, 'ns'),
    'restart_process': (1, 'ns'), 'test_start_process': (1, 'ns'), 'stop_process': (0, 'ns'), 'update_numprocs': (0, 'prog'),
    'enable': (0, 'prog'), 'disable': (0, 'prog')}
STRAT_ARG = {'start_application': StartingStrategies, 'restart_application': StartingStrategies, 'test_start_application': StartingStrategies,
             'start_process': StartingStrategies, 'restart_process': StartingStrategies, 'test_start_process': StartingStrategies,
             'start_any_process': StartingStrategies, 'conciliate': ConciliationStrategies}
INST_ARG = ('get_instance_state_modes', 'get_network_info', 'get_instance_info', 'get_all_inner_process_info',
            'get_inner_process_info', 'end_sync')
LEVELS = {'critical', 'error', 'warn', 'info', 'debug', 'trace', 'blather'}
LEVEL_NUMS = {50, 40, 30, 20, 10, 5, 3}


def oracle(sub, method, args):
    """ truth of the parameter classes in the world of the subject, computed from its data structures (not from the
        RPC interface): what `Supv.Rpc.Args` abstracts """
    ctx = sub.context
    f = {'stratOk': True, 'nameOk': True, 'instOk': True, 'instExact': True, 'managed': True, 'valueOk': True, 'isGroup': False}
    if method in STRAT_ARG:
        v = args[0]; enum = STRAT_ARG[method]
        f['stratOk'] = (type(v) is str and v in enum.__members__) or (type(v) is int and v in [e.value for e in enum])
    if method in NAME_ARG:
        pos, kind = NAME_ARG[method]; v = args[pos]
        if kind == 'app':
            f['nameOk'] = v in ctx.applications
            if f['nameOk']: f['managed'] = bool(ctx.applications[v].rules.managed)
        elif kind == 'ns':
            a, _, p = v.partition(':')
            if not _: p = a
            f['nameOk'] = a in ctx.applications and (p == '*' or p in ctx.applications[a].processes)
            f['isGroup'] = f['nameOk'] and p == '*'
            if method == 'start_args' and f['nameOk'] and p != '*': f['nameOk'] = v in sub.fake.procs
        else:
            f['nameOk'] = v in sub.server_options.program_configs
    if method in INST_ARG and args and args[0] != '':
        v = args[0]; m = sub.mapper
        f['instExact'] = v in m.instances
        f['instOk'] = f['instExact'] or any(i.nick_identifier == v for i in m.instances.values())
        if not f['instOk']: f['instExact'] = True        # irrelevant: rejected before
    if method == 'update_numprocs':
        try: f['valueOk'] = int(args[1]) > 0
        except (ValueError, TypeError): f['valueOk'] = False
    if method == 'change_log_level':
        v = args[0]
        f['valueOk'] = (type(v) is str and v.lower() in LEVELS) or (type(v) is int and v in LEVEL_NUMS)
    return f


# --------------------------------------------------------------------------------------------------------------------
# observation
# --------------------------------------------------------------------------------------------------------------------
def jobs_of(commander):
    out = []
    for seq, apps in sorted(commander.planned_jobs.items()):
        out.append(f'planned{seq}:' + ','.join(sorted(apps)))
    for name, job in sorted(commander.current_jobs.items()):
        planned = {k: sorted(c.process.namespec for c in v) for k, v in sorted(job.planned_jobs.items())}
        cur = sorted(f"{c.process.namespec}@{getattr(c, 'identifier', None)}" for c in job.current_jobs)
        out.append(f'{name}:{planned}:{cur}')
    return out


def snapshot(sub):
    """ everything observable of the subject instance that a request may change (no clock values) """
    ctx = sub.context; sm = sub.state_modes; lm = sm.local_state_modes
    procs = []
    for an, app in ctx.applications.items():
        procs.append(f'{an}/{app.state.name}/{int(app.major_failure)}{int(app.minor_failure)}')
        for pn, p in app.processes.items():
            infos = ','.join(f"{sub.idx[i]}:{info['state']}:{int(info.get('disabled', False))}:{info.get('extra_args', '')}"
                             for i, info in sorted(p.info_map.items(), key=lambda x: sub.idx[x[0]]))
            procs.append(f"{p.namespec}/{int(p.state)}/{p.forced_state}/{sorted(sub.idx[i] for i in p.running_identifiers)}"
                         f"/{int(bool(p.expected_exit))}/{p.extra_args}/[{infos}]")
    fh = sub.failure_handler
    failure = [sorted(getattr(x, 'namespec', None) or x.application_name for x in getattr(fh, a))
               for a in ('stop_application_jobs', 'restart_application_jobs', 'restart_process_jobs', 'continue_process_jobs')]
    local = [f'{ns}:{p.state}:{p.extra_args}:{p.config.command}:{int(bool(p.supvisors_config.program_config.disabled))}'
             for ns, p in sub.fake.procs.items()]
    return {'fsm': sub.fsm.state.name, 'fsm_class': type(sub.fsm.instance).__name__, 'master': lm.master_identifier,
            'modes': canon(lm.serial()),
            'instances': [st.state.name for st in ctx.instances.values()],
            'starter': jobs_of(sub.starter), 'stopper': jobs_of(sub.stopper), 'failure_jobs': failure,
            'processes': procs, 'local_supervisor': local, 'supervisor_calls': len(sub.fake.calls),
            'updater_calls': len(sub.supervisor_updater.mock_calls),
            'collector_calls': len(sub.stats_collector.mock_calls) if sub.stats_collector is not None else -1,
            'options': [sub.options.host_stats_enabled, sub.options.process_stats_enabled, str(sub.options.collecting_period),
                        sub.options.auto_fence, sub.options.starting_strategy.name, sub.options.conciliation_strategy.name],
            'logger_level': sub.logger.level, 'orders': list(sub.orders), 'emitted': len(sub.emitted)}


def situation(sub):
    sm = sub.state_modes
    return {'fsm': sub.fsm.state.name, 'isMaster': bool(sm.is_master()), 'masterSet': bool(sm.master_identifier),
            'userOpt': SynchronizationOptions.USER in sub.options.synchro_options,
            'jobs': bool(sm.starting_identifiers or sm.stopping_identifiers)}


def b(x): return '1' if x else '0'


def call_line(method, sit, fl, outcome, changed):
    return (f"call {method} {sit['fsm']} {b(sit['isMaster'])} {b(sit['masterSet'])} {b(sit['userOpt'])} {b(sit['jobs'])}"
            f" {b(fl['stratOk'])} {b(fl['nameOk'])} {b(fl['instOk'])} {b(fl['instExact'])} {b(fl['managed'])} {b(fl['valueOk'])}"
            f" {b(fl['isGroup'])} | {outcome} {b(changed)}")


class Unreachable(Exception):
    """ the real history of a scenario does not reach its state any more (the code under study changed) """


class World:
    """ builds a scenario on demand; keeps it as long as calls leave it untouched (or never, when `fresh`) """
    def __init__(self, fresh=False):
        self.fresh = fresh; self.key = None; self.cluster = None; self.how = ''; self.builds = 0

    def get(self, scenario, role):
        if self.fresh or self.key != (scenario, role) or self.cluster is None:
            st, fn, _ = SCENARIO[scenario]
            with watchdog(60):
                self.cluster, self.how = fn(role)
            self.builds += 1; self.key = (scenario, role)
            sub = self.cluster.sims[role - 1]
            if sub.fsm.state != st:
                self.cluster = None
                raise Unreachable(f'the history does not bring instance {role} to {st.name}: it is in {sub.fsm.state.name}')
            for s in self.cluster.sims:
                tb = s.take_tracebacks()
                if tb:
                    self.cluster = None
                    raise Unreachable(f'internal error while building the history: {tb[0][-400:]}')
        return self.cluster, self.cluster.sims[role - 1]

    def dirty(self): self.cluster = None


def run_cell(world, scenario, role, method, label, args):
    """ one call of the matrix on the real RPCInterface; returns the record of the observation """
    cluster, sub = world.get(scenario, role)
    args = tuple(sub.identifier if a is LOCAL else a for a in args)
    if label.endswith('/collector'): sub.stats_collector = Mock()
    before = snapshot(sub); sit = situation(sub); fl = oracle(sub, method, args)
    n0 = len(sub.emitted); tb = ''
    try:
        with watchdog(20):
            res = getattr(sub.rpc, method)(*args)
        outcome = 'ok'; detail = type(res).__name__
    except RPCError as e:
        outcome = f'fault:{FAULT_NAME[e.code]}' if e.code in FAULT_NAME else f'other:{e.code}'; detail = str(e.text)[:120]
    except Hang as e:
        outcome = 'exc:Hang'; detail = str(e)
    except Exception as e:
        outcome = f'exc:{type(e).__name__}'; detail = str(e)[:120]; tb = traceback.format_exc()[-900:]
    after = snapshot(sub); emitted = sub.emitted[n0:]
    crit = sub.take_tracebacks()
    changed = before != after or bool(emitted)
    diff = {k: [before[k], after[k]] for k in before if before[k] != after[k]}
    if label.endswith('/collector'): sub.stats_collector = None
    if changed or outcome.startswith('exc:') or label.endswith('/collector'): world.dirty()
    return {'scenario': scenario, 'role': role, 'method': method, 'label': label, 'args': list(args), 'situation': sit, 'flags': fl,
            'outcome': outcome, 'detail': detail, 'changed': changed, 'diff': diff, 'emitted': emitted[:8], 'traceback': tb,
            'critical_tracebacks': [c[-300:] for c in crit], 'history': world.how,
            'line': call_line(method, sit, fl, outcome, changed)}


# --------------------------------------------------------------------------------------------------------------------
# the check
# --------------------------------------------------------------------------------------------------------------------
DELEGATED = {'start_args', 'get_local_process_info'}     # faults of the local Supervisor are passed through as they are


def public_methods():
    """ the public XML-RPC methods of the REAL class, in source order """
    return [n for n, v in RPCInterface.__dict__.items()
            if not n.startswith('_') and (callable(v) or isinstance(v, staticmethod)) and not isinstance(v, property)]


def matrix(methods, scenarios=None, all_roles=False):
    for scenario, st, fn, roles, more in SCENARIOS:
        if scenarios and scenario not in scenarios: continue
        for role in roles + (more if all_roles else ()):
            for method in methods:
                for label, args in (variants(method) or []):
                    yield scenario, role, method, label, args


def cause_of(model, agrees, rec):
    if not agrees: return f"unmodelled:{rec['scenario']}:role{rec['role']}"
    if model.startswith('exc:'):
        return {'KeyError': 'raw-lookup', 'AttributeError': 'group-namespec-deref'}.get(model[4:], 'no-master-effect')
    return 'as-modelled'


def agrees_with_model(model, rec):
    o = rec['outcome']
    if model.startswith('rej:'): return o == 'fault:' + model[4:] and not rec['changed']
    if model.startswith('exc:'): return o == model
    if model.startswith('pass:'):
        if o == 'ok': return True
        if o.startswith(('fault:', 'other:')) and rec['method'] in DELEGATED: return True
        return o.startswith('fault:') and o[6:] in model[5:].split(',')
    return False


def evaluate(chk, records, stats):
    """ pipes the observations to the Lean driver: model prediction (correspondence) + judge verdict (specification) """
    out = chk.driver('drv_c17', [r['line'] for r in records])
    for rec, line in zip(records, out):
        model, verdict = [x.strip() for x in line.split('|')]
        rec['model'] = model; rec['verdict'] = verdict
        stats['evaluations'] += 1
        key = json.dumps([rec['scenario'], rec['role'], rec['method'], rec['args']], default=str)
        ok = agrees_with_model(model, rec)
        stats['outcomes'][rec['outcome']] = stats['outcomes'].get(rec['outcome'], 0) + 1
        stats['by_scenario'][rec['scenario']] = stats['by_scenario'].get(rec['scenario'], 0) + 1
        stats['by_label'][rec['label']] = stats['by_label'].get(rec['label'], 0) + 1
        stats['model_kinds'][model.split(':')[0]] = stats['model_kinds'].get(model.split(':')[0], 0) + 1
        if rec['changed']: stats['with_effect'] += 1
        gated_out = model == 'rej:BAD_SUPVISORS_STATE'
        if gated_out or rec['label'] not in ('valid', 'valid/collector') or rec['changed']:
            stats['nontrivial'].add(key)
        if not ok:
            chk.disagree('Rpc', {k: rec[k] for k in ('scenario', 'role', 'method', 'label', 'args', 'situation', 'flags', 'outcome',
                                                     'detail', 'changed', 'diff', 'emitted', 'model', 'history')})
        if rec['critical_tracebacks']:
            verdict = rec['verdict'] = 'J:internal-error-logged'
        if verdict != 'J:ok':
            clause = verdict[2:]
            if clause in ('not-gated', 'not-served-in-documented-state'):
                sig = f"C17:{clause}:{rec['method']}:{rec['situation']['fsm']}"       # whatever the parameters
            else:
                sig = f"C17:{clause}:{rec['method']}:{rec['label']}:{cause_of(model, ok, rec)}"
            what = (f"{rec['method']}{tuple(rec['args'])} on the {'Master' if rec['situation']['isMaster'] else 'non-Master'} instance in "
                    f"{rec['situation']['fsm']} (scenario {rec['scenario']}): {rec['outcome']} {rec['detail']!r}"
                    f"{' with effects ' + str(list(rec['diff'])) + str(rec['emitted'][:3]) if rec['changed'] else ''} -> clause {clause}")
            replay = {k: rec[k] for k in ('scenario', 'role', 'method', 'label', 'args', 'situation', 'flags', 'outcome', 'detail',
                                          'changed', 'diff', 'emitted', 'traceback', 'critical_tracebacks', 'model', 'history')}
            chk.reject(sig, what, replay)
            stats['rejected'] += 1
    return records


def run_matrix(chk, cells, stats, fresh=False):
    world = World(fresh=fresh); records = []
    for scenario, role, method, label, args in cells:
        name = f'history:{scenario}:instance{role}'
        if stats['histories'].get(name) is False: continue           # unreachable: already reported
        try:
            records.append(run_cell(world, scenario, role, method, label, args))
            if name not in stats['histories']:
                stats['histories'][name] = True
                chk.obligations.append((name, True, world.how))
        except (Unreachable, Hang) as e:
            # a broken correspondence obligation (the calls of the history are themselves cells of the matrix)
            if stats['histories'].get(name) is not False:
                chk.obligations = [o for o in chk.obligations if o[0] != name]
                chk.obligations.append((name, False, f'{type(e).__name__}: {e}'))
            stats['histories'][name] = False; stats['cells_skipped'] += 1
    stats['histories_built'] += world.builds
    return evaluate(chk, records, stats)


def load_corpus():
    d = os.path.join(VERIF, 'corpus', 'C17'); cells = []
    if os.path.isdir(d):
        for f in sorted(os.listdir(d)):
            if f.endswith('.json'):
                c = json.load(open(os.path.join(d, f))); c = c.get('replay', c)
                cells.append((c['scenario'], c['role'], c['method'], c['label'], tuple(LOCAL if a == '<local>' else a for a in c['args'])))
    return cells


def new_stats():
    return {'evaluations': 0, 'outcomes': {}, 'by_scenario': {}, 'by_label': {}, 'model_kinds': {}, 'with_effect': 0,
            'nontrivial': set(), 'rejected': 0, 'histories_built': 0, 'histories': {}, 'cells_skipped': 0}


def translate(chk):
    sys.path.insert(0, os.path.join(VERIF, 'tools'))
    import extract_rpc
    with core.Lock(os.path.join(core.LEAN, '.lake', 'verif.lock')):
        res = extract_rpc.generate_rpc(core.REPO, os.path.join(core.LEAN, 'Supv', 'Gen'))
    for anchor, ok, detail in res:
        chk.obligations.append((f'translator:{anchor}', ok, detail))
    return all(ok for _, ok, _ in res)


def run(chk):
    quick = chk.tier == 'quick'
    stats = new_stats()
    for attempt in range(4):
        # translate + build; another check running at the same time on another source tree (mutation experiments) may
        # regenerate Gen/RpcGuards.lean in between: the build only counts if the generated file is still ours afterwards
        base = len(chk.obligations)
        translate(chk)
        chk.prove('Supv.Props.C17', extra_targets=['drv_c17'])
        keep = len(chk.obligations)
        translate(chk)
        stable = not any(n == 'translator:rpc:table' and 'rewritten' in d for n, _, d in chk.obligations[keep:])
        del chk.obligations[keep:]
        if stable: break
        del chk.obligations[base:]
    if not quick: chk.leanchecker(['Supv.Props.C17'])
    methods = public_methods()
    unknown = [m for m in methods if variants(m) is None]
    # corpus first (the replays of the known findings), every one on a fresh history
    run_matrix(chk, load_corpus(), stats, fresh=True)
    # the complete matrix; the seed only permutes the order of the calls inside one (scenario, role) group, i.e. which
    # calls share a history in the quick tier
    cells = list(matrix(methods, all_roles=not quick))
    rnd = random.Random(chk.seed); groups = {}
    for c in cells: groups.setdefault((c[0], c[1]), []).append(c)
    for g in groups.values(): rnd.shuffle(g)
    cells = [c for g in groups.values() for c in g]
    recs = run_matrix(chk, cells, stats, fresh=not quick)
    searched = False
    if (not chk.obligations_ok() or chk.disagreements) and not chk.rejections and quick:
        # search stage: the whole matrix again, every single call on a freshly built history
        searched = True
        run_matrix(chk, cells, stats, fresh=True)
    reached = sorted({(r['scenario'], r['role'], r['situation']['fsm']) for r in recs})
    samples = [{k: r[k] for k in ('scenario', 'role', 'method', 'args', 'outcome', 'changed', 'model', 'verdict')}
               for r in recs if r['changed'] or r['label'] != 'valid'][:: max(1, len(recs) // 12)][:8]
    chk.coverage.update({
        'evaluations': stats['evaluations'], 'distinct_nontrivial': len(stats['nontrivial']),
        'rule': 'one evaluation = one XML-RPC call on the real RPCInterface of an instance of a 3-instance cluster of real classes '
                'brought to the scenario state by a real history; non-trivial = the generated guard list rejects the call on its '
                'state (gated method outside its states), or a parameter is not of the `valid` class, or the call had an observable '
                'effect; distinct = distinct (scenario, role, method, arguments)',
        'exhaustive': True,
        'matrix': {'methods': len(methods), 'scenarios': [n for n, *_ in SCENARIOS], 'roles': 'instance 1 (Master / becomes Master), '
                   'instance 2 (non-Master)' + ('' if quick else ', instance 3 (non-Master, hosts the running process of `app`)'), 'cells': len(cells), 'states_reached': [list(x) for x in reached]},
        'samples': samples, 'outcomes': stats['outcomes'], 'cells_by_scenario': stats['by_scenario'],
        'cells_by_parameter_class': stats['by_label'], 'model_prediction_kinds': stats['model_kinds'],
        'calls_with_observable_effect': stats['with_effect'], 'histories_built': stats['histories_built'],
        'judge_rejections': stats['rejected'], 'cells_skipped_history_unreachable': stats['cells_skipped'], 'traces_validated_against_impl': stats['evaluations'],
        'every_call_on_fresh_history': not quick, 'search_stage_run': searched,
        'methods_without_parameter_variants': unknown})
    chk.trusted += [
        'tools/extract_rpc.py (AST walk: helper inlining, classification of a raise by helper name / if-test, the list of effect '
        'roots, source order as "comes after", except-handlers before try-body)',
        'harness/c17.py + harness/simenv.py (3-instance cluster of real classes, fake Supervisor process table, simulated network '
        'and clock; parameter-class oracle; snapshot printer)',
        'lean/Supv/Drv/C17.lean (line parser)',
        'modelled, not verified: effects are an append-only log; `FiniteStateMachine.on_restart/on_shutdown` reduced to their '
        'no-Master raise (exception class read by the translator)']
    chk.assumptions += [
        'FINAL is a don\'t-care for the "from DISTRIBUTION on" family; end_sync without USER may raise BAD_SUPVISORS_STATE or NOT_APPLICABLE',
        'inside the documented states with valid parameters and no job in progress, BAD_SUPVISORS_STATE is a failure to serve',
        'a program known to the local Supervisor has its process namespecs known to the Supvisors context (re-check after '
        'disable_program in `disable` cannot fail)',
        'a callee that raises inside try/except did nothing (update_numprocs ValueError, update_extra_args KeyError)',
        'deferred `onwait` callables returned with wait=True are not run (their result faults are outside the gating clause)',
        'states without a Master (OFF, SYNCHRONIZATION): "Master" role = the instance that will be elected',
        'wrong XML-RPC types for names / numprocs and invalid regular expressions are outside the parameter classes of the statement']
    if unknown:
        chk.notes.append(f'public methods without parameter variants in harness/c17.py (not called): {unknown}')


def replay(chk, path):
    c = json.load(open(path)); c = c.get('replay', c)
    stats = new_stats()
    cell = (c['scenario'], c['role'], c['method'], c['label'], tuple(LOCAL if a == '<local>' else a for a in c['args']))
    recs = run_matrix(chk, [cell], stats, fresh=True)
    r = recs[0]
    print(f"replay: {r['method']}{tuple(r['args'])} scenario={r['scenario']} role={r['role']} state={r['situation']['fsm']}"
          f" -> {r['outcome']} {r['detail']!r} changed={r['changed']} model={r['model']} verdict={r['verdict']}")
    if r['traceback']: print(r['traceback'])
    chk.coverage.update({'evaluations': 1, 'distinct_nontrivial': len(stats['nontrivial']), 'rule': 'replay', 'samples': [r['line']]})


if __name__ == '__main__':
    t0 = core._clock()
    for name, st, fn, roles, more in SCENARIOS:
        for role in roles + more:
            c, how = fn(role); sub = c.sims[role - 1]
            print(f'{name:24s} role={role} state={sub.state.name:16s} {situation(sub)}')
    print('total', core._clock() - t0)
