""" C16 - no event sequence makes an instance fail internally.
    Proof obligations: Supv.Props.C16 (every instance-state assignment site of the CURRENT context.py, regenerated with its guards by
    the translator, is accepted by the regenerated table; FSM decisions accepted; synthesis never raises).
    Judged on the implementation (real components running together), in every stage: a critical log record carrying a traceback (the
    last-resort guards of the listener), an exception escaping an entry point, an exception other than RPCError leaving an XML-RPC method,
    an operation that does not return.  Stages:
      A  global lock-step of N real instances with the Lean cluster model: ticks, peer publications, handshake notifications (stale,
         duplicated, forged, reordered across senders), process events through the real SupervisorListener.on_process_state, crashes,
         restarts, cuts, option mismatches, restart / shutdown / end_sync requests;
      B  the real Starter / Stopper of one instance under generated requests, events, time-outs, instance losses (lock-step with the
         commander model);
      C  the XML-RPC matrix of C17 (every public method x state x role x parameter class), read for non-RPCError exceptions;
      D  free-running closed loop (fake Supervisors, rules files, user actions), no model in the loop: harness/c16free.py. """
import os, sys, json
from cluster import *
from core import derive_seeds

HERE = os.path.dirname(os.path.abspath(__file__))


def stage_cluster(chk, stats):
    quick = chk.tier == 'quick'
    seen = {}
    def tb_judge(sims, net, opts, n, info, rec):
        k = seen.get(id(rec), 0); new = rec.tracebacks[k:]; seen[id(rec)] = len(rec.tracebacks)
        out = []; sigs = set()
        for q, inst, tb in new:
            sig = f'C16:traceback:{tb_signature(tb)}'
            if sig in sigs: continue
            sigs.add(sig)
            out.append((sig, f'instance {inst}: critical record with a traceback after action {rec.lines[q].split("|")[0].strip()[:60]!r}: {tb.strip().splitlines()[-1][:160]}'))
        stats['tracebacks'] += len(new)
        return out
    def nontrivial(lines, obs, n):
        return any(l.startswith('act') and l.split()[2] in ('inject', 'pev', 'rpc', 'restart') for l in lines)
    for label, kw, qc, tc in (
            ('processes + injections', {'procs': True, 'inject': True, 'mismatch': 0.3, 'rpc_names': ('end_sync',), 'nmax': 4, 'faults_max': 20}, 25, 400),
            ('requests + injections', {'inject': True, 'mismatch': 0.4, 'nmax': 4, 'faults_max': 25}, 25, 400)):
        st = cluster_check(chk, ['C16-'], nontrivial,
                           'generated cluster schedules (2-4 instances): ' + label + '; non-trivial = at least one injected / process / request / '
                           'restart action; distinct = schedule seed', quick_cases=qc, thorough_cases=tc, sched_kwargs=kw, extra_judge=tb_judge)
        stats['cluster'][label] = {'schedules': st['evaluations'], 'global_steps': st['steps'], 'action_kinds': st['kinds'], 'faults': st['faults'],
                                   'nontrivial': len(st['nontrivial'])}


def stage_commander(chk, stats):
    import cmdh
    n = 600 if chk.tier == 'quick' else 12000
    seeds = derive_seeds(chk.seed + 16, n)
    ev = 0; lines = 0; excs = {}
    for k in range(0, len(seeds), 500):
        for r in cmdh.run_cases(chk, seeds[k:k + 500]):
            ev += 1; lines += len(r['lines'])
            if r['exc']:
                sig = 'Hang' if r['exc'][0] == 'Hang' else tb_signature(r['exc'][1])
                excs[sig] = excs.get(sig, 0) + 1
                chk.reject(f'C16:exception:{sig}', f"the real Starter / Stopper raised {r['exc'][0]} (case seed {r['seed']})",
                           {'case_seed': r['seed'], 'stage': 'commander', 'traceback': r['exc'][1][-1500:], 'how': './check C16 --replay <this file>'})
            if r['diff']: chk.disagree('Cmd', {'case_seed': r['seed'], **r['diff']})
    stats['commander'] = {'cases': ev, 'operations': lines, 'exceptions': excs}


class Shim:
    """ the C17 matrix run on behalf of C16: only the internal-error clauses are kept """
    def __init__(self, chk): self.chk = chk; self.kept = 0
    def __getattr__(self, name): return getattr(self.chk, name)
    def reject(self, sig, what, replay):
        if ':non-rpc-exception:' in sig or 'internal-error-logged' in sig:
            self.kept += 1
            self.chk.reject('C16:rpc:' + sig.split(':', 1)[1], what, dict(replay, stage='rpc'))
    def disagree(self, layer, detail): self.chk.disagree(layer, detail)


def stage_rpc(chk, stats):
    import c17, random
    shim = Shim(chk)
    c17.translate(shim)
    chk.prove('Supv.Props.C17', extra_targets=['drv_c17'])
    st = c17.new_stats()
    c17.run_matrix(shim, c17.load_corpus(), st, fresh=True)
    cells = list(c17.matrix(c17.public_methods(), all_roles=chk.tier != 'quick'))
    rnd = random.Random(chk.seed); rnd.shuffle(cells)
    if chk.tier == 'quick': cells = cells[:700]
    c17.run_matrix(shim, cells, st, fresh=False)
    stats['rpc'] = {'calls': st['evaluations'], 'outcomes': st['outcomes'], 'internal_error_rejections': shim.kept}


def stage_free(chk, stats):
    try:
        import c16free
    except ImportError:
        stats['free'] = 'not built'; return
    # FIXED seed ranges (the free-running stage is deterministic per seed): the unchanged tree has genuine internal errors on some of
    # them, each listed in known_findings.jsonl by its exact signature; a seed range that moved with VERIF_SEED could meet a rare
    # unlisted variant of the same root causes.  `new_programs=0`: `supervisorctl update` with a NEW program (root cause A of the
    # known findings) is only replayed from the corpus.
    n = 240 if chk.tier == 'quick' else 6000
    agg = {}
    # corpus first: the schedules of past failures (known findings and repaired defects), whatever the tier
    cdir = os.path.join(os.path.dirname(HERE), 'corpus', 'C16'); ncorpus = 0
    for f in sorted(os.listdir(cdir)) if os.path.isdir(cdir) else []:
        if not f.endswith('.json'): continue
        c = json.load(open(os.path.join(cdir, f)))
        if c.get('stage') != 'free' or (c.get('free_kwargs') or {}).get('liveness'): continue
        if c['free_seed'] < n and (c.get('free_kwargs') or {}) == {'new_programs': 0}: continue      # part of the range below
        _, r = c16free._pool_job((c['free_seed'], c.get('free_kwargs') or {})); ncorpus += 1
        for sig, what in r['findings']:
            chk.reject(sig, what, {'free_seed': c['free_seed'], 'stage': 'free', 'free_kwargs': c.get('free_kwargs') or {}, 'corpus': f'corpus/C16/{f}',
                                   'how': f'./check C16 --replay corpus/C16/{f}'})
    for sd, r in c16free.run_many(range(n), {'new_programs': 0}):
        for sig, what in r['findings']:
            chk.reject(sig, what, {'free_seed': sd, 'stage': 'free', 'free_kwargs': {'new_programs': 0}, 'how': './check C16 --replay <this file>'})
        for he in r['harness_errors']:
            chk.notes.append(f'free-running stage, seed {sd}: harness error (not a finding): {str(he)[:200]}')
        for k, v in r['stats'].items(): agg[k] = agg.get(k, 0) + v
    stats['free'] = dict(agg, schedules=n + ncorpus, corpus=ncorpus)


def run(chk):
    chk.regen(['enum:SupvisorsInstanceStates', 'SupvisorsInstanceStatus._Transitions', 'ast:instance_state_writers', 'ast:fsm_decisions',
               'FiniteStateMachine._Transitions', 'SupvisorsInstanceStatus.has_active_state', 'ast:is_inactive', 'ast:is_checking'])
    chk.prove('Supv.Props.C16', extra_targets=['drv_net', 'drv_cmd'])
    if chk.tier == 'thorough': chk.leanchecker(['Supv.Props.C16'])
    stats = {'tracebacks': 0, 'cluster': {}}
    import time as _t
    t0 = _t.perf_counter(); stage_cluster(chk, stats); stats['wall_cluster_s'] = round(_t.perf_counter() - t0, 1)
    cov_cluster = dict(chk.coverage)
    t0 = _t.perf_counter(); stage_commander(chk, stats); stats['wall_commander_s'] = round(_t.perf_counter() - t0, 1)
    t0 = _t.perf_counter(); stage_rpc(chk, stats); stats['wall_rpc_s'] = round(_t.perf_counter() - t0, 1)
    t0 = _t.perf_counter(); stage_free(chk, stats); stats['wall_free_s'] = round(_t.perf_counter() - t0, 1)
    ev = sum(v['schedules'] for v in stats['cluster'].values()) + stats['commander']['cases'] + stats['rpc']['calls'] + \
        (stats['free'].get('schedules', 0) if isinstance(stats['free'], dict) else 0)
    chk.coverage.update({
        'evaluations': ev, 'distinct_nontrivial': sum(v['nontrivial'] for v in stats['cluster'].values()) + stats['commander']['cases'],
        'rule': 'one evaluation = one cluster schedule (stage A), one commander case (B), one XML-RPC call on a real instance brought to a scenario '
                'state (C) or one free-running closed-loop schedule (D); non-trivial: stage A schedules with an injected / process / request / restart '
                'action, every commander case (requests + events + time-outs)',
        'stages': stats, 'implementation_tracebacks_seen': stats['tracebacks'], 'exhaustive': False,
        'samples': cov_cluster.get('samples', [])})
    chk.assumptions += ['the XML-RPC clause ("a result or a documented fault") is decided in full by ./check C17; stage C re-reads its matrix for internal errors',
                        'group / process additions and removals, disability events and the closed loop with fake Supervisors are exercised by stage D only']


def replay(chk, path):
    c = json.load(open(path)); r = c.get('replay', c)
    if r.get('stage') == 'commander':
        import cmdh
        for res in cmdh.run_cases(chk, [r['case_seed']]):
            if res['exc']: chk.reject(f"C16:exception:{tb_signature(res['exc'][1])}", f"raised {res['exc'][0]}", {'case_seed': r['case_seed']})
        chk.coverage.update({'evaluations': 1, 'distinct_nontrivial': 0, 'rule': 'replay', 'samples': [r['case_seed']]}); return
    if r.get('stage') == 'free':
        import c16free
        res = c16free.run_free(r['free_seed'], **(r.get('free_kwargs') or {}))
        for sig, what in res['findings']: chk.reject(sig, what, {'free_seed': r['free_seed']})
        chk.coverage.update({'evaluations': 1, 'distinct_nontrivial': 0, 'rule': 'replay', 'samples': [r['free_seed']]}); return
    if r.get('stage') == 'rpc':
        import c17
        shim = Shim(chk); chk.prop_saved = chk.prop
        c17.replay(shim, path); return
    rec = Recorder()
    sims, net, opts, n, info = run_schedule(r['schedule_seed'], rec, **(r.get('kwargs') or {}))
    results, model = compare(chk, rec)
    for res in results:
        if res['diff']: chk.disagree('Net', res['diff'])
    for q, inst, tb in rec.tracebacks:
        chk.reject(f'C16:traceback:{tb_signature(tb)}', f'instance {inst}: {tb.strip().splitlines()[-1][:160]}', {'schedule_seed': r['schedule_seed']})
    chk.coverage.update({'evaluations': 1, 'distinct_nontrivial': 0, 'rule': 'replay of one schedule', 'samples': [r['schedule_seed']]})
