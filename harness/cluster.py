""" H3: a cluster of N REAL instances (harness/simenv.py) under a delay-bounded scheduler with faults, recorded as
    global actions for the Lean cluster model (`drv_net`), observation after every single step.
    Used by C01 C02 C07 C08 C13 C16. """
import sys, json, random
from simenv import *

SNAMES = [s.name for s in SupvisorsStates]
PERIOD = 5 * UNIT
PSNAME = {0: 'STOPPED', 10: 'STARTING', 20: 'RUNNING', 30: 'BACKOFF', 40: 'STOPPING', 100: 'EXITED', 200: 'FATAL', 1000: 'UNKNOWN'}
from supervisor import events as _sev
PEVENTS = {0: _sev.ProcessStateStoppedEvent, 10: _sev.ProcessStateStartingEvent, 20: _sev.ProcessStateRunningEvent,
           30: _sev.ProcessStateBackoffEvent, 40: _sev.ProcessStateStoppingEvent, 100: _sev.ProcessStateExitedEvent,
           200: _sev.ProcessStateFatalEvent}
# what a Supervisor can do next with a process in a given state
PNEXT = {0: [10], 100: [10], 200: [10], 1000: [10], 10: [20, 20, 30, 40], 20: [40, 100, 100], 30: [10, 10, 200], 40: [0]}


class RecSim(Sim):
    """ Sim + recording of what the property observables need """
    def __init__(self, net, k, n, opts):
        super().__init__(net, k, n, opts)
        self.emitted = []      # job orders / local orders / refused transitions, in emission order
        self.trace = []        # FSM state codes published
        self.itrace = []       # (instance index, new state code): changes of the state reported for an instance
        self.oracle = []       # answers given to the FSM by the layers not modelled in Supv.Inst
        self.last_err = None
        self.history = []      # messages delivered so far (source of duplicated / stale / forged injections)
        h = self.rpc_handler
        orig_state = h.send_state_event
        h.send_state_event = lambda p: (self.trace.append(p['fsm_statecode']), orig_state(p))[1]
        orig_r = h.send_restart; h.send_restart = lambda i: (self.emitted.append('restartLocal'), orig_r(i))[1]
        orig_s = h.send_shutdown; h.send_shutdown = lambda i: (self.emitted.append('shutdownLocal'), orig_s(i))[1]
        orig_uis = self.state_modes.update_instance_state
        def uis(identifier, new_state):
            self.itrace.append((self.idx[identifier], new_state.value))
            return orig_uis(identifier, new_state)
        self.state_modes.update_instance_state = uis
        self._wrap_oracle()
        self._wrap_actions()

    def _from_fsm(self):
        f = sys._getframe(2)
        return f.f_code.co_filename.endswith('statemachine.py')

    def _wrap_oracle(self):
        def wrap(obj, name, tag):
            orig = getattr(obj, name)
            def w(*a, **k):
                r = orig(*a, **k)
                if self._from_fsm(): self.oracle.append(f'{tag}{int(bool(r))}')
                return r
            setattr(obj, name, w)
        wrap(self.starter, 'in_progress', 'S'); wrap(self.stopper, 'in_progress', 'P')
        wrap(self.context, 'conflicting', 'C')
        orig_acc = self.state_modes.accept_master
        def acc():
            had = bool({m for m in self.state_modes.get_master_identifiers() if m})
            r = orig_acc()
            if had:
                m = self.state_modes.master_identifier
                self.oracle.append(f'A{self.idx[m]}' if m else 'A999')
            return r
        self.state_modes.accept_master = acc
        orig_inv = self.context.invalidate_failed
        def inv():
            r = orig_inv()
            self.oracle.append(f'L{int(bool(r[1]))}')
            return r
        self.context.invalidate_failed = inv

    def _wrap_actions(self):
        def wrap(obj, name, tag, only_fsm=True):
            orig = getattr(obj, name)
            def w(*a, **k):
                if not only_fsm or self._from_fsm(): self.emitted.append(tag)
                return orig(*a, **k)
            setattr(obj, name, w)
        wrap(self.starter, 'start_applications', 'startApps'); wrap(self.stopper, 'stop_applications', 'stopApps')
        import supvisors.statemachine as sm
        # conciliate_conflicts is a module-level function imported in statemachine
        if not hasattr(sm, '_verif_orig_conciliate'):
            sm._verif_orig_conciliate = sm.conciliate_conflicts
            def conc(supv, strategy, conflicts):
                if hasattr(supv, 'emitted'): supv.emitted.append('conciliate')
                return sm._verif_orig_conciliate(supv, strategy, conflicts)
            sm.conciliate_conflicts = conc
        orig_add = self.failure_handler.add_default_job
        self._fail_marked = False
        def add(process):
            if self._from_fsm_fail() and not self._fail_marked:
                self._fail_marked = True; self.emitted.append('failJobs')
            return orig_add(process)
        self.failure_handler.add_default_job = add

    def _from_fsm_fail(self):
        f = sys._getframe(2)
        return f.f_code.co_filename.endswith('statemachine.py') and f.f_code.co_name == '_master_next'

    # ---- the process table of the local Supervisor (only used by the schedules with programs)
    def set_programs(self, nproc, known):
        self.nproc = nproc; self.known = list(known)
        self.truth = {p: {'state': 0, 'expected': True} for p in known}
        self.rpc.get_all_local_process_info = self.all_info
        self.supervisor_data.update_start = lambda ns: None
        self.supervisor_data.update_stop = lambda ns: None

    def all_info(self):
        now = T[0] / UNIT; out = []
        for p in self.known:
            t = self.truth[p]; st = t['state']
            out.append({'group': 'app', 'name': f'p{p}', 'state': st, 'statename': PSNAME[st], 'start': 0, 'stop': 0, 'now': int(1e6 + now),
                        'pid': 0, 'description': '', 'spawnerr': '', 'expected': t['expected'], 'startsecs': 1, 'stopwaitsecs': 5,
                        'extra_args': '', 'disabled': False, 'now_monotonic': now, 'start_monotonic': 0.0, 'stop_monotonic': 0.0,
                        'program_name': f'p{p}', 'process_index': 0, 'has_stdout': False, 'has_stderr': False})
        return out

    def proc_event(self, p, state, expected=True):
        """ the local Supervisor notifies a process state change: the REAL SupervisorListener.on_process_state """
        self._fail_marked = False
        self.truth[p] = {'state': state, 'expected': expected}
        proc = Mock(); proc.group.config.name = 'app'; proc.config.name = f'p{p}'; proc.pid = 0 if state in (0, 100, 200) else 4000 + p
        proc.spawnerr = ''; proc.extra_args = ''; proc.supvisors_config.program_config.disabled = False; proc.backoff = 0
        cls = PEVENTS[state]
        ev = cls(proc, 0, expected) if state == 100 else cls(proc, 0)
        self.listener.on_process_state(ev)

    def proc_removed(self, p):
        """ the local Supervisor removes a (stopped) program from its configuration: the REAL SupervisorListener.on_process_removed """
        self._fail_marked = False
        self.known.remove(p); del self.truth[p]
        proc = Mock(); proc.group.config.name = 'app'; proc.config.name = f'p{p}'
        ev = Mock(); ev.process = proc
        self.listener.on_process_removed(ev)

    def process_view(self, p):
        app = self.context.applications.get('app')
        proc = app.processes.get(f'p{p}') if app else None
        if proc is None: return '1000:-'
        run = sorted(self.idx[x] for x in proc.running_identifiers)
        return f"{int(proc.state)}:{''.join(map(str, run)) if run else '-'}"

    def cfg_line(self):
        o = self.options; so = o.synchro_options; n = self.n
        nick = sorted(self.mapper.instances, key=lambda x: self.mapper.instances[x].nick_identifier)
        rank = [nick.index(x) for x in self.mapper.instances]
        core = [self.idx[x] for x in self.mapper.core_identifiers]
        initial = [self.idx[x] for x in self.mapper.initial_identifiers]
        fl = lambda l: ','.join(map(str, l)) if l else '-'
        return (f"cfg {n} {self.idx[self.identifier]} {fl(rank)} {fl(core)} {fl(initial)}"
                f" {int(SynchronizationOptions.STRICT in so)} {int(SynchronizationOptions.LIST in so)}"
                f" {int(SynchronizationOptions.TIMEOUT in so)} {int(SynchronizationOptions.CORE in so)}"
                f" {int(SynchronizationOptions.USER in so)} {int(o.synchro_timeout) * UNIT} {o.inactivity_ticks}"
                f" {int(o.auto_fence)} {o.supvisors_failure_strategy.name} {int(self.context.start_date * UNIT)}"
                f" {o.starting_strategy.value} {o.conciliation_strategy.value}")

    # scheduler actions (the real entry points of the Supervisor thread)
    def on_running(self):
        self._fail_marked = False
        self.listener.on_running(None)

    def tick(self):
        self._fail_marked = False
        ev = Mock(); ev.when = 1.0e6 + T[0] / UNIT
        self.listener.on_tick(ev)

    def deliver(self):
        self._fail_marked = False
        typ, data = self.inbox.pop(0)
        self.history.append((typ, data))
        ev = Mock(); ev.type = typ; ev.data = data
        self.listener.on_remote_event(ev)

    def modes_str(self, payload):
        master = str(self.idx[payload['master_identifier']]) if payload['master_identifier'] else '-'
        inst = ','.join(str(SupvisorsInstanceStates[payload['instance_states'][i]].value) for i in self.mapper.instances) \
            if payload['instance_states'] else '-'
        return f"{payload['fsm_statecode']} {int(payload['degraded_mode'])} {master} {inst}"

    def spec_of(self, typ, data, forged=False):
        """ the model operation a message stands for ('none': no effect on the instance-level model).  A forged origin
            (claimed identifier and address do not belong together) must be dropped: the harness knows it forged it. """
        origin, (header, body) = json.loads(data)
        if forged: return 'none'
        j = self.idx.get(origin[0])
        if j is None: return 'none'
        if typ == SUPVISORS_PUBLICATION:
            h = PublicationHeaders(header)
            if h == PublicationHeaders.TICK: return f"rtick {j} {body['sequence_counter']}"
            if h == PublicationHeaders.STATE: return f"state {j} {self.modes_str(body)}"
            if h == PublicationHeaders.PROCESS_REMOVED and getattr(self, 'nproc', 0) and body.get('group') == 'app':
                return f"prem {j} {int(body['name'][1:])}"
            if h == PublicationHeaders.PROCESS and getattr(self, 'nproc', 0) and body.get('group') == 'app':
                return f"pev {j} {int(body['name'][1:])} {int(body['state'])} {int(bool(body['expected']))} {int(round(body['now_monotonic'] * UNIT))}"
            return 'none'
        h = NotificationHeaders(header)
        if h == NotificationHeaders.AUTHORIZATION: return f"auth {j} {body['authorization']} {int(round(body['now_monotonic'] * UNIT))}"
        if h == NotificationHeaders.STATE: return f"state {j} {self.modes_str(body)}"
        if h == NotificationHeaders.ALL_INFO and body is None: return f"allinfonone {j}"
        if h == NotificationHeaders.ALL_INFO and getattr(self, 'nproc', 0):
            items = [f"{int(x['name'][1:])}:{int(x['state'])}:{int(bool(x['expected']))}:{int(round(x['now_monotonic'] * UNIT))}" for x in body if x.get('group') == 'app']
            return f"info {j} {','.join(items) if items else '-'}"
        if h == NotificationHeaders.INSTANCE_FAILURE: return f"failure {j}"
        return 'none'

    def inject(self, typ, data):
        self._fail_marked = False
        ev = Mock(); ev.type = typ; ev.data = data
        self.listener.on_remote_event(ev)

    def rpc_call(self, name, *args):
        self._fail_marked = False
        try: getattr(self.rpc, name)(*args)
        except RPCError: return 'fault'
        except Exception as e:
            # an exception other than RPCError leaves an XML-RPC method (C16 / C17)
            self.last_err = 'NoMaster' if isinstance(e, (RuntimeError, ValueError)) else 'Other'
            self.net.rpc_exceptions.append((self.k - 1, name, type(e).__name__, traceback.format_exc()))
        return 'ok'


def one(s):
    lm = s.state_modes.local_state_modes
    master = str(s.idx[lm.master_identifier]) if lm.master_identifier else '-'
    return f"{lm.state.value}/{master}/{''.join(str(lm.instance_states[i].value) for i in s.mapper.instances)}/{int(lm.degraded_mode)}"


def gobs(sims):
    n = len(sims); ids = sims[0].ids
    def ql(s, j):
        p = s.rpc_handler.proxy_server.proxies.get(ids[j])
        return len(p.queue) if p else 0
    qs = ','.join(''.join(str(ql(s, j)) for j in range(n)) for s in sims)
    ib = ''.join(str(len(s.inbox)) for s in sims)
    errs = []; acts = []; tr = []; tbs = []; it = []
    for s in sims:
        tb = [c for c in s.logger.crit if 'Traceback' in c]
        e = s.last_err
        if tb:
            e = 'InvalidTransition' if 'InvalidTransition' in tb[0] else 'Other'
            tbs.append((s.k - 1, tb[0]))
        if e: errs.append(f"{s.k - 1}:{e}")
        for c in s.logger.crit:
            if 'unexpected transition from' in c:
                a, b_ = c.split('unexpected transition from ')[1].split(' to ')
                s.emitted.append(f'refused{SNAMES.index(a)}>{SNAMES.index(b_.strip())}')
        acts += [f'{s.k - 1}:{x}' for x in s.emitted]
        tr += [f'{s.k - 1}:{x}' for x in s.trace]
        it += [f'{s.k - 1}:{j}:{c}' for j, c in s.itrace]
        s.logger.crit = []; s.emitted = []; s.trace = []; s.itrace = []; s.last_err = None
    nproc = getattr(sims[0], 'nproc', 0)
    pv = '' if not nproc else ' pv=[' + '/'.join(','.join(s.process_view(p) for p in range(nproc)) for s in sims) + ']'
    return (f"{' '.join(one(s) for s in sims)} q={qs} in={ib} err=[{','.join(errs)}] act=[{','.join(acts)}]"
            f" tr=[{','.join(tr)}] it=[{','.join(it)}] ob=0{pv}"), tbs


class Recorder:
    def __init__(self):
        self.lines = []; self.obs = []; self.tracebacks = []; self.kinds = {}

    def header(self, sims):
        self.lines.append('reset'); self.obs.append('ok')
        for s in sims: self.lines.append(s.cfg_line()); self.obs.append('ok')
        nproc = getattr(sims[0], 'nproc', 0)
        if nproc:
            known = '/'.join(','.join(map(str, s.known)) if s.known else '-' for s in sims)
            self.lines.append(f'start {T[0]} {nproc} {known}')
        else:
            self.lines.append(f'start {T[0]}')
        self.obs.append('ok')

    def rec(self, sims, action):
        oracle = ','.join(x for s in sims for x in s.oracle)
        for s in sims: s.oracle = []
        o, tbs = gobs(sims)
        self.lines.append(f"act {T[0]} {action}" + (f" ; {oracle}" if oracle else '') + f" | {o}")
        self.obs.append(o)
        for k, tb in tbs: self.tracebacks.append((len(self.lines) - 1, k, tb))
        kind = action.split()[0]; self.kinds[kind] = self.kinds.get(kind, 0) + 1


SYNC_CHOICES = ['LIST', 'STRICT', 'TIMEOUT', 'STRICT,TIMEOUT,CORE', 'CORE', 'USER', 'LIST,USER', 'TIMEOUT,CORE']


def gen_params(rnd, nmax=4):
    n = rnd.randint(2, nmax)
    so = rnd.choice(SYNC_CHOICES)
    core = ' '.join(f'10.0.0.{i}' for i in sorted(rnd.sample(range(1, n + 1), rnd.randint(1, n)))) \
        if 'CORE' in so or rnd.random() < 0.3 else ''
    opts = {'synchro_timeout': str(rnd.choice([15, 20, 30])), 'inactivity_ticks': str(rnd.choice([2, 3])),
            'core_identifiers': core, 'auto_fence': rnd.choice(['false', 'true']), 'starting_strategy': 'CONFIG',
            'conciliation_strategy': 'USER', 'stats_enabled': 'false', 'synchro_options': so,
            'supvisors_list': ','.join(f'10.0.0.{i}' for i in range(1, n + 1)),
            'supvisors_failure_strategy': rnd.choice(['CONTINUE', 'RESYNC', 'SHUTDOWN'])}
    return n, opts


def run_schedule(seed, rec, nmax=4, max_ticks=40, faults_max=10, quiet_ticks=0, sim_cls=RecSim, allow_restart=True, mismatch=0.0, inject=False, sim_cls_name=None, heal_at_end=False, rpc_names=('restart', 'shutdown', 'end_sync', 'end_sync'), procs=False, pev_rate=0.25, split_start=0.0, removals=True):
    """ one generated cluster schedule; returns (sims, net, opts, n, info) """
    rnd = random.Random(seed)
    if sim_cls_name:
        import importlib
        for modname in ('c07', 'c01', 'c08', 'c16', 'c12'):
            try:
                mod = importlib.import_module(modname)
            except ImportError:
                continue
            if hasattr(mod, sim_cls_name): sim_cls = getattr(mod, sim_cls_name); break
    n, opts = gen_params(rnd, nmax)
    do_split = bool(split_start) and n >= 3 and rnd.random() < split_start
    if do_split and rnd.random() < 0.6:
        # make the two halves productive: each can synchronize on its own and does not fence the other
        opts['synchro_options'] = rnd.choice(['TIMEOUT', 'TIMEOUT,CORE']); opts['auto_fence'] = 'false'
        opts['supvisors_failure_strategy'] = rnd.choice(['CONTINUE', 'RESYNC'])
    if procs and opts['supvisors_failure_strategy'] == 'SHUTDOWN':
        # the ending phase stops the running processes through the Stopper, which the cluster model does not contain
        opts['supvisors_failure_strategy'] = 'CONTINUE'
    T[0] = 10 * UNIT
    net = Net()
    # option mismatches between instances (refused at the handshake): a separate, minority stream
    per = {k: dict(opts) for k in range(1, n + 1)}
    if mismatch and rnd.random() < mismatch:
        k = rnd.randint(1, n)
        which = rnd.choice(['auto_fence', 'starting_strategy', 'conciliation_strategy', 'supvisors_failure_strategy'])
        alt = {'auto_fence': ['false', 'true'], 'starting_strategy': ['CONFIG', 'LESS_LOADED', 'LOCAL'],
               'conciliation_strategy': ['USER', 'STOP', 'SENICIDE'], 'supvisors_failure_strategy': ['CONTINUE', 'RESYNC', 'SHUTDOWN']}[which]
        per[k][which] = rnd.choice([x for x in alt if x != opts[which]])
    sims = [sim_cls(net, k, n, per[k]) for k in range(1, n + 1)]
    nproc = 0; known = {}
    if procs:
        # sparse to dense process activity: with a dense one every stale entry is soon overwritten by the next event
        pev_rate = rnd.choice([0.002, 0.005, 0.02, 0.1])
        nproc = rnd.randint(1, 3)
        for k in range(1, n + 1):
            known[k] = [p for p in range(nproc) if rnd.random() < 0.8]
        for s in sims: s.set_programs(nproc, known[s.k])
    rec.header(sims)
    next_tick = {s.k: T[0] + rnd.randint(1, PERIOD) for s in sims}
    started = set(); held = {}
    end_faults = T[0] + rnd.randint(12, max_ticks) * PERIOD
    end = end_faults + quiet_ticks * PERIOD
    faults = rnd.randint(0, faults_max)
    lo, hi = T[0] + 6 * PERIOD, end_faults - 4 * PERIOD
    fault_times = sorted(rnd.randint(lo, hi) for _ in range(faults)) if hi > lo else []
    info = {'faults': [], 'end_faults': end_faults, 'per': per, 'programs': (nproc, known) if procs else None}
    healed = False
    if do_split:
        # split-brain start: the cluster boots in two halves that cannot see each other (each may elect its own Master), healed later
        half = set(rnd.sample(range(n), rnd.randint(1, n - 1)))
        for a_ in range(n):
            for b_ in range(a_ + 1, n):
                if (a_ in half) != (b_ in half):
                    net.cut.add(frozenset((sims[a_].identifier, sims[b_].identifier))); rec.rec(sims, f'cut {a_} {b_}')
        fault_times = sorted(fault_times + [rnd.randint(T[0] + 8 * PERIOD, max(T[0] + 9 * PERIOD, end_faults - 2 * PERIOD))])
        info['faults'].append('split-start'); info['split_heal'] = True
    while T[0] < end:
        T[0] += rnd.randint(1, 40)
        if heal_at_end and not healed and T[0] >= end_faults:
            healed = True
            if net.cut: net.cut.clear(); rec.rec(sims, 'heal')
        while fault_times and fault_times[0] <= T[0]:
            fault_times.pop(0)
            kind = rnd.choice(['crash', 'cut', 'heal', 'hold', 'rpc', 'restart'] + (['inject'] * 4 if inject else []))
            if info.pop('split_heal', False) and rnd.random() < 0.7: kind = 'heal'      # the halves usually meet again before anything else happens
            s = rnd.choice(sims)
            if kind == 'inject' and s.identifier not in net.down and s.history:
                typ, data = rnd.choice(s.history[-40:])
                if procs and rnd.random() < 0.5:
                    # stale process data: an old ALL_INFO snapshot or process event, from anywhere in the history
                    old_ = [m for m in s.history if '"group": "app"' in m[1]]
                    if old_: typ, data = rnd.choice(old_)
                how = rnd.choice(['dup', 'dup', 'forge-ip', 'forge-id'])
                msg = json.loads(data); forged = False
                ident_msg = typ == SUPVISORS_NOTIFICATION and NotificationHeaders(msg[1][0]) in (NotificationHeaders.IDENTIFICATION, NotificationHeaders.DISCOVERY)
                # NOTE: SupvisorsInstanceId.is_valid is documented to be flexible "until the remote network is received":
                #       a forgery is only expected to be refused for a claimed instance that went through the handshake
                identified = lambda ident: s.context.instances[ident].state in (SupvisorsInstanceStates.CHECKED, SupvisorsInstanceStates.RUNNING)
                if how == 'forge-ip' and not ident_msg and isinstance(msg[0][2], list) and msg[0][0] in s.idx and identified(msg[0][0]):
                    msg[0][2] = ['10.9.9.9', msg[0][2][1]]; forged = True
                elif how == 'forge-id' and not ident_msg:
                    cands = [x for x in s.ids if x != msg[0][0] and x != s.identifier and identified(x)]
                    if cands:
                        other = rnd.choice(cands)
                        msg[0][0] = other; msg[0][1] = s.mapper.instances[other].nick_identifier; forged = True
                data2 = json.dumps(msg)
                spec = s.spec_of(typ, data2, forged)
                with watchdog(10): s.inject(typ, data2)
                rec.rec(sims, f'inject {s.k - 1} {spec}'); info['faults'].append('inject-' + how)
                continue
            if kind == 'crash' and len(net.down) < n - 1 and s.identifier not in net.down:
                net.down.add(s.identifier); rec.rec(sims, f'crash {s.k - 1}'); info['faults'].append(kind)
            elif kind == 'restart' and allow_restart and s.identifier in net.down:
                # Supervisor restarted (possibly faster than the failure detection of its peers)
                new = sim_cls(net, s.k, n, per[s.k]); sims[s.k - 1] = new; net.down.discard(new.identifier)
                if procs: new.set_programs(nproc, known[s.k])
                started.discard(s.k); next_tick[s.k] = T[0] + rnd.randint(1, PERIOD)
                rec.rec(sims, f'restart {s.k - 1}'); info['faults'].append(kind)
            elif kind == 'cut':
                o = rnd.choice([x for x in sims if x is not s]); net.cut.add(frozenset((s.identifier, o.identifier)))
                rec.rec(sims, f'cut {s.k - 1} {o.k - 1}'); info['faults'].append(kind)
            elif kind == 'heal':
                net.cut.clear(); rec.rec(sims, 'heal'); info['faults'].append(kind)
            elif kind == 'hold':
                o = rnd.choice([x for x in sims if x is not s])
                held[(s.k, o.identifier)] = T[0] + rnd.randint(PERIOD // 4, 2 * PERIOD)
            elif kind == 'rpc' and s.identifier not in net.down:
                name = rnd.choice(list(rpc_names))
                with watchdog(10):
                    if name == 'end_sync':
                        m = rnd.choice(['', f'10.0.0.{rnd.randint(1, n)}'])
                        s.rpc_call('end_sync', m)
                        rec.rec(sims, f"rpc {s.k - 1} end_sync {int(m.split('.')[-1]) - 1 if m else '-'}")
                    else:
                        s.rpc_call(name); rec.rec(sims, f'rpc {s.k - 1} {name}')
                info['faults'].append(name)
        for s in list(sims):
            if s.identifier in net.down: continue
            if next_tick[s.k] <= T[0]:
                with watchdog(10):
                    if s.k not in started:
                        started.add(s.k); s.on_running(); rec.rec(sims, f'running {s.k - 1}')
                    s.tick(); rec.rec(sims, f'tick {s.k - 1}')
                next_tick[s.k] += PERIOD
        if procs and rnd.random() < pev_rate and T[0] < end - 2 * PERIOD:
            # a process changes state in the Supervisor of a live instance
            cands = [s for s in sims if s.identifier not in net.down and s.k in started and s.known]
            if cands:
                s = rnd.choice(cands); p = rnd.choice(s.known)
                if removals and s.truth[p]['state'] in (0, 100, 200) and rnd.random() < 0.04:
                    # the (stopped) program is removed from the Supervisor configuration (update_numprocs / removeProcessGroup)
                    with watchdog(10): s.proc_removed(p)
                    rec.rec(sims, f'prm {s.k - 1} {p}'); info['prm'] = info.get('prm', 0) + 1
                else:
                    st = rnd.choice(PNEXT[s.truth[p]['state']]); expected = rnd.random() < 0.7 if st == 100 else True
                    with watchdog(10): s.proc_event(p, st, expected)
                    rec.rec(sims, f'pev {s.k - 1} {p} {st} {int(expected)}'); info['pev'] = info.get('pev', 0) + 1
        acts = []
        for s in sims:
            if s.identifier in net.down: continue
            if s.inbox: acts.append(('deliver', s))
            for ident, p in s.proxies_with_work():
                if held.get((s.k, ident), 0) > T[0]: continue
                acts.append(('proxy', s, p))
        if acts:
            a = rnd.choice(acts)
            with watchdog(10):
                if a[0] == 'deliver':
                    try: origin = a[1].idx.get(json.loads(a[1].inbox[0][1])[0][0])
                    except Exception: origin = None
                    kind = 'p' if a[1].inbox[0][0] == SUPVISORS_PUBLICATION else 'n'
                    a[1].deliver(); rec.rec(sims, f'deliver {a[1].k - 1}' + (f' {origin} {kind}' if origin is not None else ''))
                else:
                    tgt = a[1].idx[a[2].status.identifier]
                    a[2].step(); rec.rec(sims, f'exec {a[1].k - 1} {tgt}')
    return sims, net, opts, n, info


def script_of(lines):
    """ the global actions of a recorded schedule: [(time, 'action words')] (injections cannot be scripted) """
    out = []
    for l in lines:
        if l.startswith('act '):
            w = l.split('|')[0].split(';')[0].split()
            out.append((int(w[1]), ' '.join(w[2:])))
    return out


def run_script(n, per, actions, rec, sim_cls=RecSim, programs=None):
    """ replay a list of global actions on fresh real instances (an action that is not possible - nothing to deliver, instance
        down - is skipped): every applied action is recorded, so that the model can be lock-stepped and the list can be
        minimized by delta debugging.  `programs` = (nproc, {k: known}) """
    T[0] = 10 * UNIT
    net = Net()
    sims = [sim_cls(net, k, n, per[k]) for k in range(1, n + 1)]
    if programs:
        for s in sims: s.set_programs(programs[0], programs[1][s.k])
    rec.header(sims)
    ids = sims[0].ids
    for t, a in actions:
        T[0] = max(T[0], t)
        w = a.split(); kind = w[0]
        s = sims[int(w[1])] if len(w) > 1 and w[1].isdigit() and int(w[1]) < n else None
        up = s is not None and s.identifier not in net.down
        with watchdog(10):
            if kind == 'running' and up: s.on_running()
            elif kind == 'tick' and up: s.tick()
            elif kind == 'deliver' and up and s.inbox: s.deliver()
            elif kind == 'exec' and up:
                p = s.rpc_handler.proxy_server.proxies.get(ids[int(w[2])])
                if not (p and p.queue): continue
                p.step()
            elif kind == 'pev' and up and programs and int(w[2]) in s.known: s.proc_event(int(w[2]), int(w[3]), w[4] == '1')
            elif kind == 'prm' and up and programs and int(w[2]) in s.known: s.proc_removed(int(w[2]))
            elif kind == 'crash' and up and len(net.down) < n - 1: net.down.add(s.identifier)
            elif kind == 'restart' and s is not None and not up:
                new = sim_cls(net, s.k, n, per[s.k]); sims[s.k - 1] = new; net.down.discard(new.identifier)
                if programs: new.set_programs(programs[0], programs[1][s.k])
            elif kind == 'cut' and s is not None: net.cut.add(frozenset((s.identifier, sims[int(w[2])].identifier)))
            elif kind == 'heal': net.cut.clear()
            elif kind == 'rpc' and up:
                if w[2] == 'end_sync': s.rpc_call('end_sync', '' if w[3] == '-' else f'10.0.0.{int(w[3]) + 1}')
                else: s.rpc_call(w[2])
            else: continue
        rec.rec(sims, a)
    return sims, net


def compare(chk, rec, layer='Net'):
    """ pipe the recorded actions to the Lean cluster model and compare every observation; returns per-case results:
        list of (case_index, first_diff or None, line range) """
    model = chk.driver('drv_net', rec.lines)
    results = []; start = 0; case = -1
    bounds = [k for k, l in enumerate(rec.lines) if l == 'reset'] + [len(rec.lines)]
    for ci in range(len(bounds) - 1):
        a, b = bounds[ci], bounds[ci + 1]
        diff = None; verdicts = []
        for q in range(a, b):
            parts = [x.strip() for x in model[q].split('|')]
            m_obs = parts[0]; verdict = parts[1] if len(parts) > 1 else 'J:ok'
            if verdict != 'J:ok':
                for v in verdict[2:].split(';'):
                    verdicts.append((q - a, v, rec.lines[q].split('|')[0].strip(), rec.obs[q]))
            if diff is None and rec.obs[q] != m_obs:
                diff = {'step': q - a, 'action': rec.lines[q].split('|')[0].strip(), 'impl': rec.obs[q], 'model': m_obs,
                        'prefix': [l.split('|')[0].strip() for l in rec.lines[a:q + 1]][-12:]}
        results.append({'case': ci, 'diff': diff, 'range': (a, b), 'verdicts': verdicts})
    return results, model


# ---------------------------------------------------------------------------------------------------------------
def cluster_check(chk, prefixes, nontrivial, rule, quick_cases=40, thorough_cases=600, search_cases=200, sched_kwargs=None,
                  extra_judge=None, post_judge=None):
    """ common body of the cluster-level checks: generated schedules on the real cluster, global lock-step with the Lean
        cluster model, Lean judges on the implementation observations (verdicts whose tag starts with one of `prefixes`).
        `nontrivial(rec_lines_obs) -> bool` classifies a schedule; `extra_judge(sims, net, opts, n, info, rec)` may add
        Python-side rejections [(signature, what)] evaluated on the real objects at the end of a schedule. """
    from core import derive_seeds
    sched_kwargs = sched_kwargs or {}
    quick = chk.tier == 'quick'
    ncases = quick_cases if quick else thorough_cases
    seeds = derive_seeds(chk.seed, ncases)
    stats = {'evaluations': 0, 'steps': 0, 'kinds': {}, 'nontrivial': set(), 'faults': {}, 'fsm_states_seen': set(),
             'tracebacks': 0}
    samples = []

    def batch(seed_list, label):
        rec = Recorder(); metas = []
        for sd in seed_list:
            a = len(rec.lines)
            try:
                sims, net, opts, n, info = run_schedule(sd, rec, **sched_kwargs)
                extra = extra_judge(sims, net, opts, n, info, rec) if extra_judge else []
            except Hang as e:
                chk.reject(f'{chk.prop}:hang', f'an implementation operation did not return: {e}', {'schedule_seed': sd, 'kwargs': sched_kwargs})
                rec.lines = rec.lines[:a]; rec.obs = rec.obs[:a]
                continue
            if net.rpc_exceptions and chk.prop in ('C16', 'C17'):
                k_, name_, exc_, tb_ = net.rpc_exceptions[0]
                extra = list(extra) + [(f'{chk.prop}:rpc-exception:{name_}:{exc_}', f'{exc_} left the XML-RPC {name_} of instance {k_}: {tb_.strip().splitlines()[-1][:120]}')]
            if net.sent_to_isolated and chk.prop == 'C13':
                a_, b_, typ = net.sent_to_isolated[0]
                extra = list(extra) + [('C13:sent-to-isolated', f'{len(net.sent_to_isolated)} message(s) sent by {a_} to {b_} which it holds ISOLATED (first: {typ})')]
            metas.append((sd, n, opts, info, extra))
        results, model = compare(chk, rec)
        for r, (sd, n, opts, info, extra) in zip(results, metas):
            a, b = r['range']
            stats['evaluations'] += 1; stats['steps'] += b - a
            for f in info['faults']: stats['faults'][f] = stats['faults'].get(f, 0) + 1
            obs = rec.obs[a:b]
            for o in obs:
                for w in o.split()[:n]:
                    if '/' in w: stats['fsm_states_seen'].add(w.split('/')[0])
            if nontrivial(rec.lines[a:b], obs, n): stats['nontrivial'].add(sd)
            if not samples:
                samples.append({'schedule_seed': sd, 'instances': n, 'options': {k: opts[k] for k in ('synchro_options', 'auto_fence', 'supvisors_failure_strategy', 'core_identifiers', 'inactivity_ticks')},
                                'first_actions': [l.split('|')[0].strip() for l in rec.lines[a + n + 2:a + n + 14]]})
            base = {'schedule_seed': sd, 'kwargs': sched_kwargs, 'instances': n, 'options': opts,
                    'how': f'./check {chk.prop} --replay <this file> re-runs the schedule generated from schedule_seed'}
            if r['diff']:
                chk.disagree('Net', dict(base, **r['diff']))
            seen = set()
            for step, v, action, impl_obs in r['verdicts']:
                tag = v.split(':')[0]
                if not any(tag.startswith(p) for p in prefixes) or tag in seen: continue
                seen.add(tag)
                chk.reject(f'{chk.prop}:{tag}', f'{v} after step {step} ({action})',
                           dict(base, step=step, action=action, verdict=v, impl_observation=impl_obs,
                                prefix=[l.split('|')[0].strip() for l in rec.lines[a:a + step + 1]][-15:]))
            if post_judge:
                extra = post_judge(extra, [l for l in model[a:b]], rec.lines[a:b], dict(base, n=n, info=info))
            for item in extra:
                sig, what = item[0], item[1]
                chk.reject(sig, what, dict(base, **(item[2] if len(item) > 2 else {})))
        for _, k, tb in rec.tracebacks:
            stats['tracebacks'] += 1
        for k, v in rec.kinds.items(): stats['kinds'][k] = stats['kinds'].get(k, 0) + v
        return rec

    for k in range(0, len(seeds), 50):
        batch(seeds[k:k + 50], 'gen')
    if not chk.obligations_ok() or chk.disagreements:
        # search stage: more schedules, judged on the implementation
        more = derive_seeds(chk.seed + 104729, search_cases)
        for k in range(0, len(more), 50):
            batch(more[k:k + 50], 'search')
    chk.coverage.update({
        'evaluations': stats['evaluations'], 'distinct_nontrivial': len(stats['nontrivial']), 'rule': rule, 'samples': samples,
        'global_steps': stats['steps'], 'action_kinds': stats['kinds'], 'faults_injected': stats['faults'],
        'fsm_states_seen': sorted(stats['fsm_states_seen']), 'traces_validated_against_impl': stats['evaluations'],
        'implementation_tracebacks_seen': stats['tracebacks'], 'exhaustive': False})
    chk.trusted += ['harness/cluster.py + harness/simenv.py (real Context/StateModes/FSM/Listener/SupervisorProxy/RPCInterface of N instances; '
                    'fake ServerProxy, per-pair FIFO proxy queues, per-receiver FIFO inbox, scheduler, simulated clock)',
                    'lean/Supv/Drv/Net.lean (action-line parser, observation printer, judges calling Supv.Spec)',
                    'modelled, not verified: XML-RPC transport succeeds atomically or fails; thread interleavings reduced to queue '
                    'interleavings; discovery mode, web UI, statistics, external publisher absent; start/stop jobs and conflicts enter '
                    'the FSM model as an oracle stream recorded on the implementation']
    return stats


def replay_schedule(chk, path, prefixes):
    c = json.load(open(path)); r = c.get('replay', c)
    rec = Recorder()
    run_schedule(r['schedule_seed'], rec, **(r.get('kwargs') or {}))
    results, model = compare(chk, rec)
    if hasattr(chk, 'replay_post'): chk.replay_post(model, rec)
    for res in results:
        if res['diff']: chk.disagree('Net', res['diff'])
        for step, v, action, impl_obs in res['verdicts']:
            tag = v.split(':')[0]
            if any(tag.startswith(p) for p in prefixes):
                chk.reject(f'{chk.prop}:{tag}', f'{v} after step {step} ({action})', {'schedule_seed': r['schedule_seed'], 'step': step})
    chk.coverage.update({'evaluations': 1, 'distinct_nontrivial': 0, 'rule': 'replay of one schedule', 'samples': [r.get('schedule_seed')]})
