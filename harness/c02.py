""" C02 — the Supvisors state only moves along the documented graph.  Proof obligations: Supv.Props.C02 (table generated from
    the current source).  Correspondence: global lock-step of the real cluster with the Lean cluster model.  Judge (Lean,
    on the implementation's published states): every consecutive pair of published FSM states is an edge of the documented
    graph; DISTRIBUTION / OPERATION / CONCILIATION / RESTARTING / SHUTTING_DOWN are entered with a Master seen RUNNING. """
from cluster import *

RETURNS = {('2', '0'), ('2', '1'), ('3', '0'), ('3', '2'), ('4', '0'), ('4', '1'), ('4', '2'), ('5', '0'), ('5', '1'), ('5', '4')}


def nontrivial(lines, obs, n):
    """ some instance goes through at least 5 distinct Supvisors states, or takes a documented return edge """
    seen = [set() for _ in range(n)]; prev = [None] * n
    for o in obs:
        ws = o.split()[:n]
        if len(ws) < n or '/' not in ws[0]: continue
        for i, w in enumerate(ws):
            f = w.split('/')[0]
            if prev[i] is not None and (prev[i], f) in RETURNS: return True
            prev[i] = f; seen[i].add(f)
    return any(len(s) >= 5 for s in seen)


def slave_after_master(sims, net, opts, n, info, rec):
    return []


def run(chk):
    chk.regen(['enum:SupvisorsStates', 'FiniteStateMachine._Transitions', 'FiniteStateMachine._StateInstances', 'ast:fsm_state_writers',
               'WORKING_STATES', 'SupvisorsInstanceStatus', 'StateModes.STABLE_STATES', 'enum:SupvisorsInstanceStates', 'constants'])
    chk.prove('Supv.Props.C02', extra_targets=['drv_net'])
    if chk.tier == 'thorough': chk.leanchecker(['Supv.Props.C02'])
    cluster_check(chk, ['C02-'], nontrivial,
                  'generated cluster schedules (2-4 instances, all synchro_options / failure strategies / auto_fence, crashes, restarts '
                  'also faster than detection, cuts, heals, held proxies, restart/shutdown/end_sync requests); non-trivial = some instance '
                  'visits >= 5 distinct Supvisors states or takes a return edge; distinct = distinct schedule seed')
    chk.assumptions += ['the entry clause "a non-Master enters each state only after its Master has" is judged through the Master state '
                        'stored by the instance (published states), not through a global clock']


def replay(chk, path):
    replay_schedule(chk, path, ['C02-'])
