""" C15 — application state and operational status: the real ApplicationStatus / ProcessStatus / ApplicationRules /
    Parser.load_status against the Lean model `Supv.App`, judged by the Lean specification `Supv.Spec.C15`
    (driver `drv_c15`).

    One case = a process table (state, forced state, expected-exit flag, required flag, start sequence per process),
    the managed flag and an `operational_status` string (or none).  The implementation side builds the real objects,
    loads the string through the real `Parser.load_status` (-> `ApplicationRules.status_formula` setter), calls
    `update_sequences()` + `update()` and reads `serial()` (statename, major_failure, minor_failure), all under a
    watchdog and an audit-hook safety monitor.  The model side receives the same table, the S-expression of
    `ast.parse(string)` printed by this file, and the resolution of every string leaf against the process names
    computed here with Python `re` (trusted). """
import ast, re, sys, json, random, itertools, types
from xml.etree.ElementTree import Element, SubElement
from simenv import *
from core import shrink, derive_seeds
from supvisors.application import ApplicationRules, ApplicationStatus
from supvisors.process import ProcessRules, ProcessStatus
from supvisors.sparser import Parser

STATES = [0, 10, 20, 30, 40, 100, 200, 1000]
SNAME = {0: 'STOPPED', 10: 'STARTING', 20: 'RUNNING', 30: 'BACKOFF', 40: 'STOPPING', 100: 'EXITED', 200: 'FATAL', 1000: 'UNKNOWN'}
NAMES = ['web', 'web_1', 'web_2', 'db', 'worker_a', 'worker_b', 'a.b', 'aXb']
PATTERNS = ['web.*', r'web_\d', 'worker_.', 'db|web', 'nomatch', '.*', '.+_.', 'w.*|d.*', 'a.b', '[a-z]+', 'web_[12]', '', 'WEB',
            'x*', 'web$']
BAD_REGEX = ['(', '[', 'a{99999999999}', '(?i)web', 'web)', '*', '(?P<n>a)(?P<n>b)', '\\', '(?#']
EXC_CODES = ['re.error', 'OverflowError', 'RecursionError', 'MemoryError', 'ValueError']   # = Supv.App.excName
STACK = 400          # lower bound of the number of nested `evaluate` frames the interpreter allows (see `assumptions`)
IDENT = '10.0.0.1'


def exc_name(e):
    return 're.error' if isinstance(e, re.error) else type(e).__name__


def exc_code(e):
    n = exc_name(e)
    return EXC_CODES.index(n) if n in EXC_CODES else len(EXC_CODES)


# ---------------------------------------------------------------------------------------- safety monitor (audit hook)
RE_DIR = os.path.dirname(re.__file__)
SAFE_SRC = re.compile(rb'^(all|any)\(\[(True|False)(, (True|False))*\]\)$')
DENY = ('import', 'open', 'exec', 'compile', 'os.', 'subprocess.', 'socket.', 'shutil.', 'ctypes.', 'pty.', 'glob.', 'tempfile.',
        'urllib.', 'webbrowser.', 'sqlite3.', 'marshal.', 'pickle.', 'code.__new__', 'function.__new__', 'builtins.input',
        'builtins.breakpoint', 'sys.settrace', 'sys.setprofile', 'sys.addaudithook', 'signal.', 'fcntl.', 'mmap.', 'winreg.',
        'ensurepip.', 'http.', 'smtplib.', 'ftplib.', 'telnetlib.', 'poplib.', 'imaplib.', 'nntplib.', 'syslog.', 'resource.')
AUD = {'on': False, 'phase': None, 'formula': None, 'bad': [], 'seen': {}, 'pending_exec': 0}


def _in_re():
    f = sys._getframe(2)
    while f is not None:
        if f.f_code.co_filename.startswith(RE_DIR): return True
        f = f.f_back
    return False


def _audit(event, args):
    if not AUD['on'] or event == 'sys._getframe':
        return
    AUD['seen'][event] = AUD['seen'].get(event, 0) + 1
    if not event.startswith(DENY):
        return
    if event == 'compile':
        src = args[0]
        if isinstance(src, str): src = src.encode('utf-8', 'surrogatepass')
        if AUD['phase'] == 'load' and isinstance(src, bytes) and src == AUD['formula']:
            return                                  # the setter's own `ast.parse(formula)`
        if AUD['phase'] == 'update' and isinstance(src, bytes) and SAFE_SRC.match(src):
            AUD['pending_exec'] += 1                # the evaluator's own eval of all([...]) / any([...]) over Boolean literals
            return
    elif event == 'open' and AUD['phase'] == 'load' and args and args[0] == '<unknown>' and args[1] in ('r', 'rb'):
        return                                      # CPython looking for the source line of a SyntaxError of `ast.parse`
    elif event == 'exec' and AUD['phase'] == 'update' and AUD['pending_exec'] > 0:
        code = args[0]
        if isinstance(code, types.CodeType) and code.co_filename == '<string>' and set(code.co_names) <= {'all', 'any'}:
            AUD['pending_exec'] -= 1
            return
    if _in_re():
        return                                      # the regular-expression engine is trusted (e.g. lazy `import unicodedata`)
    AUD['bad'].append(event if event != 'compile' else 'compile-foreign-source')
    # the operation is refused: a mutated / repaired evaluator must not be able to harm the checking process or the machine
    raise SideEffectBlocked(f'C15 safety monitor: {event} {tuple(repr(a)[:60] for a in args)}')


class SideEffectBlocked(BaseException):
    """ raised by the audit hook: the implementation tried something else than evaluating the formula """


sys.addaudithook(_audit)


class monitor:
    def __init__(self, phase, formula):
        self.phase = phase
        self.formula = None if formula is None else formula.encode('utf-8', 'surrogatepass')
    def __enter__(self):
        AUD.update(on=True, phase=self.phase, formula=self.formula, pending_exec=0)
    def __exit__(self, *a):
        AUD['on'] = False
        return False


# ---------------------------------------------------------------------------------------- implementation side
class _Logger:
    level = 50; handlers = []
    def _drop(self, *a, **k): pass
    critical = error = warn = info = debug = trace = blather = log = _drop


SUPV = types.SimpleNamespace(logger=_Logger())
PARSER_SELF = types.SimpleNamespace(logger=SUPV.logger)


def full_info(name, state, expected):
    return {'group': 'app', 'name': name, 'state': state, 'statename': SNAME[state], 'start': 0, 'stop': 0, 'now': 1e6 + 100.0,
            'pid': 0, 'description': '', 'spawnerr': '' if expected else 'err', 'expected': expected, 'startsecs': 1,
            'stopwaitsecs': 1, 'extra_args': '', 'disabled': False, 'now_monotonic': 100.0, 'start_monotonic': 0.0,
            'stop_monotonic': 0.0, 'program_name': name, 'process_index': 0, 'has_stdout': False, 'has_stderr': False}


def formula_of(case):
    if case.get('formula_parts'):
        pre, n, mid, suf = case['formula_parts']
        return pre * n + mid + suf * n
    return case.get('formula')


def site_of(tb):
    """ which part of application.py raised: the innermost frame of that file """
    site = 'other'
    while tb is not None:
        fn = tb.tb_frame.f_code.co_filename
        if fn.endswith('application.py'):
            name = tb.tb_frame.f_code.co_name
            site = 'status_tree' if name == 'status_tree' else 'setter' if name == 'status_formula' else \
                'evaluate' if name in ('evaluate', '_get_matches', '_get_process_status', 'update_status_formula') else name
        tb = tb.tb_next
    return site


def run_impl(case):
    """ returns (observation, traceback text or None, audit violations) """
    AUD['bad'] = []
    text = formula_of(case)
    rules = ApplicationRules(SUPV); rules.managed = bool(case['managed'])
    app = ApplicationStatus('app', rules, SUPV)
    for name, state, forced, expected, required, seq in case['procs']:
        prules = ProcessRules(SUPV); prules.required = bool(required); prules.start_sequence = seq
        p = ProcessStatus('app', name, prules, SUPV)
        p.add_info(IDENT, full_info(name, state, bool(expected)))
        p.expected_exit = bool(expected)      # every combination of state and flag (add_info forces True on running states)
        if forced is not None:
            p.force_state({'identifier': IDENT, 'state': forced, 'now_monotonic': 101.0, 'spawnerr': 'forced'})
        app.add_process(p)
    app.update_sequences()
    elt = Element('application', {'name': 'app'})
    if text is not None:
        SubElement(elt, 'operational_status').text = text
    tb = None
    try:
        with watchdog(20):
            try:
                with monitor('load', text):
                    Parser.load_status(PARSER_SELF, elt, 'operational_status', rules)
            except Hang: raise
            except BaseException as e:
                return f'raised:setter:{exc_name(e)}', traceback.format_exc()[-1500:], list(AUD['bad'])
            if case.get('earlier') and not case.get('formula_parts'):
                # the process set of the application CHANGES after a first evaluation (update_numprocs, group added / removed,
                # instances with different configurations): the status must be the one of the CURRENT table
                plus, minus = case['earlier']
                def quiet(fn, *a):
                    # add_process / remove_process re-evaluate the status themselves: what they raise belongs to the earlier table
                    try: fn(*a)
                    except Hang: raise
                    except BaseException: pass
                for name in plus:                                   # `earlier` table = current table - plus + minus
                    if name in app.processes: quiet(app.remove_process, name)
                extra = []
                for name, state, forced, expected, required, seq in minus:
                    prules = ProcessRules(SUPV); prules.required = bool(required); prules.start_sequence = seq
                    q = ProcessStatus('app', name, prules, SUPV); q.add_info(IDENT, full_info(name, state, bool(expected))); quiet(app.add_process, q); extra.append(name)
                app.update_sequences()
                try:
                    with monitor('update', text): app.update()
                except Hang: raise
                except BaseException: pass
                for name in extra:
                    if name in app.processes: quiet(app.remove_process, name)
                for name, state, forced, expected, required, seq in case['procs']:
                    if name in plus:
                        prules = ProcessRules(SUPV); prules.required = bool(required); prules.start_sequence = seq
                        q = ProcessStatus('app', name, prules, SUPV); q.add_info(IDENT, full_info(name, state, bool(expected)))
                        q.expected_exit = bool(expected)
                        if forced is not None:
                            q.force_state({'identifier': IDENT, 'state': forced, 'now_monotonic': 101.0, 'spawnerr': 'forced'})
                        quiet(app.add_process, q)
                app.update_sequences()
            try:
                with monitor('update', text):
                    app.update()
                    info = app.serial()
            except Hang: raise
            except BaseException as e:
                return f'raised:{site_of(e.__traceback__)}:{exc_name(e)}', traceback.format_exc()[-1500:], list(AUD['bad'])
    except Hang as e:
        return 'raised:hang:Hang', str(e), list(AUD['bad'])
    return (f"ok:{info['statename']}/{int(bool(info['major_failure']))}/{int(bool(info['minor_failure']))}", None,
            list(AUD['bad']))


# ---------------------------------------------------------------------------------------- model side inputs
def classify(text):
    """ what `ast.parse` gives, as the setter and `status_tree` tell it apart (computed here, not read from the impl) """
    if not text:
        return 'NONE', None            # `load_status`: `if str_value:`
    try:
        tree = ast.parse(text)
    except SyntaxError:
        return 'SYNTAX', None
    except BaseException as e:
        return f'PARSEREXC {exc_code(e)}', None
    if len(tree.body) != 1:
        return 'MULTI', None
    body = tree.body[0]
    if type(body) is ast.Expr: return 'EXPR', body.value
    if not hasattr(body, 'value'): return 'STMT_NOVALUE', None
    if body.value is None: return 'STMT_NONE', None
    return 'STMT_VALUE', body.value


def sexpr(node, leaves, kinds=None):
    """ S-expression of the node kinds `evaluate` tells apart; iterative (formulas may be nested thousands deep) """
    out = []; stack = [node]; depth = 0; maxdepth = 0
    while stack:
        x = stack.pop()
        if x == ')':
            out.append(')'); depth -= 1; continue
        t = type(x)
        if kinds is not None: kinds[t.__name__] = kinds.get(t.__name__, 0) + 1
        if t is ast.Constant and type(x.value) is str:
            if x.value not in leaves: leaves.append(x.value)
            out.append(f'(S {leaves.index(x.value)})')
        elif t is ast.Constant:
            out.append('(C)')
        elif t is ast.Call:
            fn = 3
            if type(x.func) is ast.Name: fn = {'all': 0, 'any': 1}.get(x.func.id, 2)
            out.append(f'(CALL {fn} {len(x.keywords)}'); stack.append(')'); stack.extend(reversed(x.args)); depth += 1
        elif t is ast.BoolOp:
            out.append('(AND' if type(x.op) is ast.And else '(OR'); stack.append(')'); stack.extend(reversed(x.values)); depth += 1
        elif t is ast.UnaryOp:
            out.append('(NOT' if type(x.op) is ast.Not else '(UOTHER'); stack.append(')'); stack.append(x.operand); depth += 1
        else:
            out.append('(OTHER)')
        maxdepth = max(maxdepth, depth)
    return ' '.join(out), maxdepth + 1


def leaf_token(leaf, names):
    if leaf in names: return f'E{names.index(leaf)}'
    try:
        pat = re.compile(r'^%s$' % leaf)
    except BaseException as e:
        return f'R{exc_code(e)}'
    ms = [i for i, n in enumerate(names) if pat.match(n)]
    return 'M' + (','.join(map(str, ms)) if ms else '-')


def case_line(case, info=None):
    """ the driver line of a case, without the implementation observation """
    names = [p[0] for p in case['procs']]
    procs = ' '.join(f"{st}:{'-' if fo is None else fo}:{int(bool(e))}:{int(bool(r))}:{sq}" for _, st, fo, e, r, sq in case['procs']) or '-'
    top, node = classify(formula_of(case))
    leaves = []; kinds = {}; depth = 0
    if node is not None:
        sx, depth = sexpr(node, leaves, kinds)
        top = f'{top} {sx}'
    ltoks = [leaf_token(lf, names) for lf in leaves]
    if info is not None:
        info.update(top=top.split()[0], kinds=kinds, depth=depth, leaves=ltoks, nprocs=len(names))
    return f"case {int(bool(case['managed']))} {STACK} | {procs} | {' '.join(ltoks) or '-'} | {top}"


# ---------------------------------------------------------------------------------------- generators
def gen_table(rnd):
    n = rnd.choice([0, 1, 1, 2, 2, 2, 3, 3, 3, 4, 4, 5, 6])
    names = rnd.sample(NAMES, n)
    regime = rnd.random()
    procs = []
    for name in names:
        if regime < 0.35: st = rnd.choice(STATES)
        elif regime < 0.7: st = rnd.choice([20, 20, 20, 20, 10, 30, 100, 200, 0, 40, 1000])
        else: st = rnd.choice([0, 0, 0, 0, 100, 100, 200, 20, 1000])
        forced = rnd.choice(STATES if rnd.random() < 0.4 else [200, 0, 1000]) if rnd.random() < 0.15 else None
        procs.append([name, st, forced, rnd.random() < 0.5, rnd.random() < 0.4, rnd.choice([0, 0, 1, 1, 2, 3])])
    return procs


def _matching(names, lo, hi=99):
    """ valid patterns of the pool matching between lo and hi of the present names """
    out = []
    for pt in PATTERNS:
        if pt in names: continue
        n = sum(1 for nm in names if re.match(r'^%s$' % pt, nm))
        if lo <= n <= hi: out.append(pt)
    return out


def gen_leaf(rnd, names, scalar=False, hostile=False):
    """ a string leaf: mostly resolvable (a present name, a pattern matching one / several present names), sometimes a
        pattern matching nothing, an absent name or an invalid regular expression """
    r = rnd.random()
    if r < (0.10 if hostile else 0.03): return ast.Constant(rnd.choice(BAD_REGEX))
    if r < 0.20: return ast.Constant(rnd.choice(PATTERNS + NAMES))
    if names and (scalar or r < 0.55):
        one = _matching(names, 1, 1)
        return ast.Constant(rnd.choice(one) if one and rnd.random() < 0.2 else rnd.choice(names))
    many = _matching(names, 2)
    if many: return ast.Constant(rnd.choice(many))
    return ast.Constant(rnd.choice(names) if names else rnd.choice(PATTERNS))


def gen_wf(rnd, names, depth, want_list=False):
    """ type-directed over the evaluator's grammar: a Boolean expression, or (want_list) something for any()/all() """
    r = rnd.random()
    if depth <= 0 or r < 0.25:
        return gen_leaf(rnd, names, scalar=not want_list)
    if r < 0.45:
        return ast.UnaryOp(ast.Not(), gen_wf(rnd, names, depth - 1))
    if r < 0.75:
        return ast.BoolOp(rnd.choice([ast.And(), ast.Or()]), [gen_wf(rnd, names, depth - 1) for _ in range(rnd.choice([2, 2, 3, 4]))])
    return ast.Call(ast.Name(rnd.choice(['all', 'any']), ast.Load()), [gen_wf(rnd, names, depth - 1, want_list=True)], [])


def _other_expr(rnd):
    c = ast.Constant
    return rnd.choice([
        ast.Compare(c('web'), [ast.Lt()], [c('db')]), ast.Name('web', ast.Load()), ast.IfExp(c('web'), c('db'), c('web')),
        ast.List([c('web')], ast.Load()), ast.Tuple([c('web'), c('db')], ast.Load()), ast.Set([c('web')]),
        ast.Dict([c('web')], [c('db')]), ast.JoinedStr([c('web')]), ast.BinOp(c('web'), ast.Add(), c('db')),
        ast.BinOp(c(1), ast.Div(), c(0)), ast.Subscript(c('web'), c(0), ast.Load()), ast.NamedExpr(ast.Name('x', ast.Store()), c('web')),
        ast.Attribute(c('web'), 'upper', ast.Load()), ast.Lambda(ast.arguments([], [], None, [], [], None, []), c('web')),
        ast.GeneratorExp(ast.Name('x', ast.Load()), [ast.comprehension(ast.Name('x', ast.Store()), c('web'), [], 0)]),
        ast.ListComp(c('web'), [ast.comprehension(ast.Name('x', ast.Store()), c('db'), [], 0)]),
        ast.Yield(c('web')), ast.Await(c('web')), ast.Starred(c('web'), ast.Load()),
        ast.Call(ast.Name('__import__', ast.Load()), [c('os')], []), c(b'web'), c(1), c(True), c(None), c(2.5), c(...)])


def gen_hostile(rnd, names, depth):
    """ the grammar plus every shape the evaluator must refuse """
    r = rnd.random()
    if depth <= 0 or r < 0.22:
        return gen_leaf(rnd, names, hostile=True) if rnd.random() < 0.8 else _other_expr(rnd)
    if r < 0.50:
        fn = rnd.choice(['all', 'any', 'all', 'any', 'all', 'any', 'len', 'eval', 'exec', '__import__', 'print', 'open'])
        func = ast.Name(fn, ast.Load()) if rnd.random() < 0.8 else rnd.choice([
            ast.Attribute(ast.Name('os', ast.Load()), 'system', ast.Load()),
            ast.Attribute(ast.Call(ast.Name('__import__', ast.Load()), [ast.Constant('os')], []), 'system', ast.Load()),
            ast.Lambda(ast.arguments([], [], None, [], [], None, []), ast.Constant(1)), ast.Constant('a'),
            ast.Call(ast.Name('all', ast.Load()), [ast.Constant('web')], []), ast.Subscript(ast.Name('all', ast.Load()), ast.Constant(0), ast.Load())])
        nargs = rnd.choice([1, 1, 1, 1, 0, 2, 3])
        args = [gen_hostile(rnd, names, depth - 1) for _ in range(nargs)]
        if args and rnd.random() < 0.06: args[0] = ast.Starred(args[0], ast.Load())
        kws = []
        if rnd.random() < 0.12: kws.append(ast.keyword(rnd.choice(['x', 'key', None]), gen_leaf(rnd, names, hostile=True)))
        return ast.Call(func, args, kws)
    if r < 0.75:
        return ast.BoolOp(rnd.choice([ast.And(), ast.Or()]), [gen_hostile(rnd, names, depth - 1) for _ in range(rnd.randint(2, 3))])
    if r < 0.92:
        return ast.UnaryOp(ast.Not() if rnd.random() < 0.8 else rnd.choice([ast.USub(), ast.UAdd(), ast.Invert()]),
                           gen_hostile(rnd, names, depth - 1))
    return _other_expr(rnd)


SYNTAX_ERRORS = ['all(', '"a" and', ')', 'not', '"web" "db" +', ' "web"', '\n  "web" and "db"\n', 'print "web"', '"web',
                 'all("web"))', '"web" && "db"', '!"web"', '"web" AND "db"', '(' * 250 + '"web"' + ')' * 250, '"web"\x00']
MULTI = ['"web"; "db"', '"web"\n"db"', '   ', '\n', '# nothing', 'import os; "web"', 'pass\npass']
STATEMENTS = ['import os', 'pass', 'x = "web"', 'x = y = "db"', 'x += "web"', 'x: int = "db"', 'x: int', 'return "web"', 'return',
              'del x', 'assert "web"', 'type X = "web"', 'global x', 'nonlocal x', 'raise "web"', 'if "web": pass', 'for x in "web": pass',
              'while "web": pass', 'with "web": pass', 'def f(): pass', 'class A: pass', 'from os import *', 'break', 'continue',
              'try:\n pass\nfinally:\n pass', 'async def f(): pass', 'x = all("web.*")', 'return not "db"', 'x = os.system("x")',
              'x = all()', 'x = "("', '@"web"\ndef f(): pass', 'match "web":\n case _: pass']
IDIOMS = ['all("web.*") and "db"', '"web" or "db"', 'any("worker_.")', 'all("web_1", "web_2")', 'all(["web_1", "web_2"])',
          '"web" and not "db"', '("web")', '"web" # comment', '"web";', 'all("web_1" and "web_2")', 'any("web.*") or all("worker_.")',
          'not any(".*")', 'all(".*")', 'all("web.*", "db")', 'any("nomatch", "web")', 'all("web", key="db")', 'all(x="web")', 'any()',
          'os.system("x")', '__import__("os").system("echo C15-HACK")', '(lambda: 1)()', '"web"()', 'eval("1")', 'exec("import os")',
          'all(__import__("os"))', 'open("/tmp/c15-hack", "w")', '"web" if "db" else "db"', 'u"web"', "'''web'''", 'f"web"', 'b"web"',
          '"we" "b"', '"web" == "web"', '-"web"', '--"web"', 'not not "web"', 'all(all("web.*"))', 'any(not "web")', 'not "web.*"',
          '"web.*"', '"web.*" and "db"', 'all("(")', '"[" or "web"', '"web" or "["', '"nomatch" and os.system("x")',
          'os.system("x") and "nomatch"', 'all("web", os.system("x"))', 'all("a{99999999999}")', '"(?i)web"']
DEEP = [  # (prefix, count, middle, suffix): nesting far from every threshold (see `assumptions`)
    ('not ', 1400, '"web"', ''), ('not ', 1801, '"db"', ''), ('not ', 2200, 'all("web.*")', ''), ('not ', 1500, 'os.system("x")', ''),
    ('not ', 1600, '"nomatch"', ''), ('-', 1500, '"web"', ''), ('not ', 3600, '"web"', ''), ('not ', 4500, '"db"', ''),
    ('not ', 9000, '"web"', ''), ('not ', 20000, '"web"', ''), ('not ', 60, '"web"', ''), ('not ', 41, '"db"', ''),
    ('-', 3600, '"web"', ''), ('not ', 1400, '"web" and "db"', '')]


def gen_case(rnd):
    procs = gen_table(rnd)
    names = [p[0] for p in procs]
    case = {'managed': rnd.random() < 0.75, 'procs': procs, 'formula': None}
    r = rnd.random()
    if r < 0.22: pass
    elif r < 0.24: case['formula'] = rnd.choice(['', '""', '" "'])
    elif r < 0.28: case['formula'] = rnd.choice(SYNTAX_ERRORS)
    elif r < 0.31: case['formula'] = rnd.choice(MULTI)
    elif r < 0.38: case['formula'] = rnd.choice(STATEMENTS)
    elif r < 0.46: case['formula'] = rnd.choice(IDIOMS)
    elif r < 0.475 and sys.getrecursionlimit() == 1000:
        case['formula_parts'] = list(rnd.choice(DEEP))
    else:
        e = gen_wf(rnd, names, rnd.randint(0, 4)) if rnd.random() < 0.62 else gen_hostile(rnd, names, rnd.randint(0, 4))
        try:
            case['formula'] = ast.unparse(ast.fix_missing_locations(ast.Expression(e)))
        except Exception:
            case['formula'] = '"web"'
    if rnd.random() < 0.2 and len(procs) >= 2:
        # an earlier evaluation on a different process set: some current processes did not exist yet, some others existed
        plus = [p[0] for p in procs if rnd.random() < 0.4][:len(procs) - 1]
        free = [n for n in NAMES if n not in names]
        minus = [(n, rnd.choice(STATES), None, True, rnd.random() < 0.5, rnd.choice([0, 1, 2])) for n in free if rnd.random() < 0.3]
        if plus or minus: case['earlier'] = [plus, minus]
    return case


# ---------------------------------------------------------------------------------------- judging
def evaluate_batch(chk, cases):
    """ implementation + model + judge on every case; yields (case, info, impl obs, findings, diff) """
    lines = []; keep = []
    for case in cases:
        info = {}
        head = case_line(case, info)
        obs, tb, bad = run_impl(case)
        lines.append(f'{head} | {obs}'); keep.append((case, info, head, obs, tb, bad))
    model = chk.driver('drv_c15', lines)
    for (case, info, head, obs, tb, bad), out in zip(keep, model):
        m_obs, verdict, tag = [x.strip() for x in out.split('|')]
        tag = tag[2:]; verdict = verdict[2:]
        m_cmp = ':'.join(m_obs.split(':')[:3]) if m_obs.startswith('raised:') else m_obs
        replay = dict(case, impl_observation=obs, model_observation=m_obs, driver_line=head[:600])
        findings = []; diff = None
        if m_cmp != obs:
            diff = dict(replay, note='model and implementation differ')
        for ev in sorted(set(bad)):
            findings.append((f'C15:side-effect:{ev}', f'audit event "{ev}" while loading / evaluating the formula {short(formula_of(case))}', replay))
        if obs.startswith('raised:') and not (bad and obs.endswith(':SideEffectBlocked')):
            _, site, cls = obs.split(':')
            # shape: from the model when it raises the same; else the input class a repaired defect of that site had
            shape = m_obs.split(':')[3] if m_cmp == obs and m_obs.count(':') >= 3 else REPAIRED_SHAPES.get((site, cls), 'unmodelled')
            findings.append((f'C15:{site}:{cls}:{shape}',
                             f'{cls} escapes ({site}) for operational_status={short(formula_of(case))}',
                             dict(replay, traceback=tb)))
        elif obs.startswith('ok:') and verdict != 'ok':
            # the cause tag only explains the clause it belongs to
            mine = (verdict, tag) in (('formula-major', 'call-extra-args-ignored'), ('not-a-formula', 'stmt-value-evaluated'), ('formula-major', 'beyond-interpreter-stack'))
            sig = f'C15:{verdict}' + (f':{tag}' if mine else '')
            findings.append((sig, f'clause "{verdict}" violated: operational_status={short(formula_of(case))} reported {obs}', replay))
        info['model'] = m_obs; info['verdict'] = verdict
        yield case, info, head, obs, findings, diff


REPAIRED_SHAPES = {('evaluate', 'AttributeError'): 'call-func-not-name', ('evaluate', 'IndexError'): 'call-no-positional-arg',
                   ('evaluate', 're.error'): 'invalid-regex', ('evaluate', 'OverflowError'): 'invalid-regex',
                   ('status_tree', 'AttributeError'): 'stmt-without-value'}


def short(text):
    if text is None: return 'None'
    return repr(text) if len(text) <= 80 else repr(text[:40]) + f'...({len(text)} chars)'


def subformulas(text):
    """ candidate replacements of a formula by smaller ones (sub-expressions, operands dropped) """
    try:
        tree = ast.parse(text)
    except BaseException:
        return []
    if len(tree.body) != 1 or type(tree.body[0]) is not ast.Expr: return []
    root = tree.body[0].value; out = []
    for node in ast.walk(root):
        if node is not root and isinstance(node, ast.expr) and not isinstance(node, (ast.Name, ast.Load)):
            try: out.append(ast.unparse(node))
            except Exception: pass
    if type(root) is ast.BoolOp and len(root.values) > 2:
        for k in range(len(root.values)):
            out.append(ast.unparse(ast.BoolOp(root.op, root.values[:k] + root.values[k + 1:])))
    if type(root) is ast.Call and len(root.args) > 1:
        out.append(ast.unparse(ast.Call(root.func, root.args[:2], [])))
    return sorted(set(out), key=len)


def shrink_case(chk, case, sig):
    def fails(c):
        for _, _, _, _, fs, _ in evaluate_batch(chk, [c]):
            return any(f[0] == sig for f in fs)
        return False
    cur = dict(case)
    if len(cur['procs']) >= 2:
        cur['procs'] = shrink(cur['procs'], lambda ps: fails(dict(cur, procs=ps)), max_tests=60)
    if len(cur['procs']) == 1 and fails(dict(cur, procs=[])): cur['procs'] = []
    if cur.get('formula') and not cur.get('formula_parts') and len(cur['formula']) < 400:
        progress = True; budget = 60
        while progress and budget > 0:
            progress = False
            for cand in subformulas(cur['formula']):
                budget -= 1
                if len(cand) < len(cur['formula']) and fails(dict(cur, formula=cand)):
                    cur['formula'] = cand; progress = True; break
                if budget <= 0: break
    # simplify the rows that are left
    for k in range(len(cur['procs'])):
        for field, val in ((2, None), (5, 0), (4, False), (3, True)):
            if cur['procs'][k][field] != val:
                cand = [list(p) for p in cur['procs']]; cand[k][field] = val
                if fails(dict(cur, procs=cand)): cur['procs'] = cand
    return cur


def nontrivial(case, info):
    """ the decision is reached with more than one alternative open: at least two processes, and either a formula
        with at least one operator / call node, or (no stored tree) at least one process crashed or STOPPED """
    if info['nprocs'] < 2: return False
    if info['top'] == 'STMT_VALUE' and any(d in (0, 100, 200, 1000) for d in
                                            [(fo if fo is not None else st) for _, st, fo, _, _, _ in case['procs']]):
        return True
    if info['top'] in ('EXPR', 'STMT_VALUE'):
        return any(k in info['kinds'] for k in ('BoolOp', 'UnaryOp', 'Call'))
    if info['top'] in ('NONE', 'SYNTAX', 'MULTI', 'STMT_NONE', 'STMT_NOVALUE'):
        disp = [(fo if fo is not None else st) for _, st, fo, _, _, _ in case['procs']]
        return any(d in (0, 100, 200, 1000) for d in disp)
    return False


def new_stats():
    return {'evaluations': 0, 'nontrivial': set(), 'tops': {}, 'outcomes': {}, 'raised': {}, 'verdicts': {}, 'node_kinds': {},
            'leaf_kinds': {}, 'depths': {}, 'nprocs': {}, 'app_states': {}, 'shrinks': 0, 'samples': [], 'audit_events': {}}


def run_cases(chk, cases, stats, do_shrink=True, keep_samples=0):
    for k in range(0, len(cases), 2000):
        for case, info, head, obs, findings, diff in evaluate_batch(chk, cases[k:k + 2000]):
            stats['evaluations'] += 1
            if nontrivial(case, info): stats['nontrivial'].add(head)
            bump(stats['tops'], info['top']); bump(stats['nprocs'], info['nprocs'])
            bump(stats['depths'], min(info['depth'], 7) if info['depth'] < 30 else 'deep')
            for kd, n in info['kinds'].items():
                if info['depth'] < 30: bump(stats['node_kinds'], kd, n)
            for lt in info['leaves']:
                bump(stats['leaf_kinds'], 'exact' if lt[0] == 'E' else 'regex-error' if lt[0] == 'R' else
                     'match-0' if lt == 'M-' else 'match-1' if ',' not in lt else 'match-many')
            if obs.startswith('ok:'):
                st, ma, mi = obs[3:].split('/')
                bump(stats['outcomes'], f"{info['top']}: major={ma} minor={mi}"); bump(stats['app_states'], st)
            else:
                bump(stats['outcomes'], f"{info['top']}: raised"); bump(stats['raised'], info['model'] if info['model'].startswith(obs) else obs)
            bump(stats['verdicts'], info['verdict'])
            if len(stats['samples']) < keep_samples and nontrivial(case, info):
                stats['samples'].append({'case': head[:300], 'implementation': obs})
            if diff is not None: chk.disagree('App', diff)
            for sig, what, replay in findings:
                if do_shrink and stats['shrinks'] < 10 and sig not in chk.known and sig not in chk.rejections:
                    stats['shrinks'] += 1
                    small = shrink_case(chk, case, sig)
                    for _, _, _, _, fs, _ in evaluate_batch(chk, [small]):
                        hit = next((f for f in fs if f[0] == sig), None)
                        if hit: what, replay = hit[1], hit[2]
                chk.reject(sig, what, slim(replay))
    for ev, n in AUD['seen'].items(): stats['audit_events'][ev] = n


def slim(replay):
    r = dict(replay)
    if r.get('formula_parts'): r['formula'] = None
    for k in ('driver_line',):
        if k in r and len(r[k]) > 400: r[k] = r[k][:400] + '...'
    return r


def bump(d, k, n=1):
    d[k] = d.get(k, 0) + n


# ---------------------------------------------------------------------------------------- exhaustive small scope
def exhaustive_required():
    """ every table of 1..3 processes over 8 displayed states x expected x required, managed or not, without formula;
        odd-indexed processes carry their displayed state as a forced state over a STOPPED raw state """
    rowsp = [(s, e, r) for s in STATES for e in (False, True) for r in (False, True)]
    for n in (1, 2, 3):
        for combo in itertools.product(rowsp, repeat=n):
            for managed in (False, True):
                procs = []
                for k, (s, e, r) in enumerate(combo):
                    procs.append([f'p{k}', 0 if k % 2 else s, s if k % 2 else None, e, r, k % 2])
                yield {'managed': managed, 'procs': procs, 'formula': None}


def exhaustive_formulas():
    """ every formula of the grammar up to depth 2 over the leaves p0, p1, 'p.' (both), 'nomatch', on every up/down
        vector of two processes drawn from RUNNING, FATAL, EXITED expected, EXITED unexpected """
    leaves = ['"p0"', '"p1"', '"p."', '"nomatch"']
    d1 = list(leaves) + [f'not {x}' for x in leaves] + [f'{fn}({x})' for fn in ('all', 'any') for x in leaves] + \
        [f'({x} {op} {y})' for op in ('and', 'or') for x in leaves for y in leaves]
    d2 = [f'not {x}' for x in d1] + [f'{fn}({x})' for fn in ('all', 'any') for x in d1] + \
        [f'({x} {op} {y})' for op in ('and', 'or') for x in d1 for y in d1]
    vec = [(20, True), (200, False), (100, True), (100, False)]
    for f in d1 + d2:
        for a in vec:
            for b in vec:
                yield {'managed': True, 'procs': [['p0', a[0], None, a[1], False, 1], ['p1', b[0], None, b[1], True, 1]], 'formula': f}


# ---------------------------------------------------------------------------------------- entry points
def load_corpus():
    d = os.path.join(os.path.dirname(os.path.dirname(os.path.abspath(__file__))), 'corpus', 'C15')
    cases = []
    if os.path.isdir(d):
        for f in sorted(os.listdir(d)):
            if f.endswith('.json'):
                c = json.load(open(os.path.join(d, f)))
                cases.append(to_case(c.get('replay', c)))
    return cases


def to_case(c):
    case = {'managed': bool(c.get('managed', True)), 'procs': [list(p) for p in c.get('procs', [])], 'formula': c.get('formula')}
    if c.get('formula_parts'): case['formula_parts'] = list(c['formula_parts'])
    return case


def finish_coverage(chk, stats, exhaustive_count=0):
    chk.coverage.update({
        'evaluations': stats['evaluations'], 'distinct_nontrivial': len(stats['nontrivial']),
        'rule': 'one case = process table (0-6 processes; state, forced state, expected-exit, required, start sequence) x managed flag x '
                'operational_status string (none, empty, syntax error, several statements, non-expression statement, idioms, '
                'type-directed grammar formulas, hostile AST shapes, very deep nesting); non-trivial = at least two processes and '
                'either a formula with at least one operator/call node or, without stored tree, a crashed or STOPPED process; '
                'distinct = distinct driver line (table + leaf table + S-expression)',
        'samples': stats['samples'], 'top_kinds': stats['tops'], 'outcomes': stats['outcomes'],
        'implementation_exceptions': stats['raised'], 'judge_verdicts': stats['verdicts'], 'ast_node_kinds': stats['node_kinds'],
        'leaf_kinds': stats['leaf_kinds'], 'formula_depths': stats['depths'], 'process_counts': stats['nprocs'],
        'application_states': stats['app_states'], 'audit_events_seen_during_load_and_update': stats['audit_events'],
        'traces_validated_against_impl': stats['evaluations'], 'exhaustive': bool(exhaustive_count),
        'exhaustive_small_scope_cases': exhaustive_count})
    chk.trusted += [
        'harness/c15.py (builds the real ApplicationStatus/ProcessStatus/ApplicationRules, calls the real Parser.load_status; '
        'S-expression printer of ast.parse trees; classification of the parsed string; canonical observation)',
        'Python `re` (leaf resolution table computed by the harness as re.compile("^%s$" % leaf).match(name)); CPython ast.parse',
        'lean/Supv/Drv/C15.lean (case-line and S-expression parser, printing)',
        'sys.addaudithook safety monitor: deny-list of event families (import, open, exec, compile, os.*, subprocess.*, socket.* ...); '
        'events raised from inside the `re` package are attributed to the trusted regex engine']
    chk.assumptions += [
        'ApplicationStatus.start_sequence is up to date when update() runs (update_sequences() called after the last process '
        'addition, as Context.load_processes / remove_process do)',
        f'interpreter stack: the model is given a budget of {STACK} nested evaluate frames; generated formulas are nested at most ~12 '
        'deep or (deep stream, only with the default recursion limit 1000) 1400-2200 deep (evaluate overflows), 3600-4500 '
        '(ast.parse raises RecursionError) and 9000-20000 (MemoryError); depths between those bands are not generated',
        'catastrophic regex backtracking (termination of `re`) is only guarded by the 20 s watchdog',
        'with a formula the statement only speaks of the major failure: the minor failure is compared model/implementation but not judged',
        'required-based minor failure: both readings of "are so" are accepted (crash only / also STOPPED while the application is not)']


def run(chk):
    quick = chk.tier == 'quick'
    stats = new_stats()
    chk.prove('Supv.Props.C15', extra_targets=['drv_c15'])
    if not quick:
        try: chk.leanchecker(['Supv.Props.C15', 'Supv.Lemmas.App', 'Supv.Spec.C15', 'Supv.Model.App'])
        except Exception as e: chk.notes.append(f'leanchecker not run: {e}')
    run_cases(chk, load_corpus(), stats)
    seeds = [chk.seed] if quick else derive_seeds(chk.seed, 8)
    per_seed = 6000 if quick else 20000
    for sd in seeds:
        rnd = random.Random(sd)
        run_cases(chk, [gen_case(rnd) for _ in range(per_seed)], stats, keep_samples=4)
    nex = 0
    if not quick:
        ex = list(exhaustive_required()) + list(exhaustive_formulas())
        nex = len(ex)
        run_cases(chk, ex, stats)
    if not chk.obligations_ok() or chk.disagreements:
        # search stage: more cases, judged on the implementation by the Lean specification
        for sd in derive_seeds(chk.seed + 7919, 4):
            rnd = random.Random(sd)
            run_cases(chk, [gen_case(rnd) for _ in range(6000)], stats)
        if quick:
            run_cases(chk, list(itertools.islice(exhaustive_formulas(), 0, None, 7)), stats)
    finish_coverage(chk, stats, nex)


def replay(chk, path):
    c = json.load(open(path))
    stats = new_stats()
    run_cases(chk, [to_case(c.get('replay', c))], stats, do_shrink=False, keep_samples=1)
    finish_coverage(chk, stats)
    chk.coverage['rule'] = 'replay'
