""" C20 — statistics histories: the real HostStatisticsCompiler / ProcStatisticsCompiler of supvisors/statscompiler.py
    against the Lean model `Supv.Stats`, judged by the Lean monitor `Supv.Spec.C20` (driver `drv_c20`).

    Floats are never compared as floats: every number the implementation returns is turned into the exact rational
    `fractions.Fraction(float)` and printed as num/den.  Values the code merely passes through (times on the clock
    grid, memory, disk usage) must be EQUAL to the model's; values the code computes in floating point (marked `~`)
    must lie within the relative tolerance TOL of the model's exact rational, the comparison being made in exact
    arithmetic.  Structure (lengths of every series, key sets, pids, which periods produced a point, exceptions)
    is compared exactly. """
import os, sys, re, json, math, random, itertools, traceback
from fractions import Fraction
from simenv import watchdog, Hang            # also pins the import of `supvisors` to SUPVISORS_REPO
from unittest.mock import Mock
from core import shrink, derive_seeds
from supvisors.statscompiler import HostStatisticsCompiler, ProcStatisticsCompiler

TOL = Fraction(1, 2 ** 40)      # stated relative tolerance between a float result and the exact rational of the model
NUM = re.compile(r'~(-?\d+/\d+|-?inf|nan|zerodiv)')
VERIF = os.path.dirname(os.path.dirname(os.path.abspath(__file__)))


# ---------------------------------------------------------------------------------------------- canonical printing
def fq(x):
    """ exact value of a number returned by the implementation """
    if isinstance(x, bool): x = int(x)
    if isinstance(x, int): return f'{x}/1'
    if isinstance(x, float):
        if math.isnan(x): return 'nan'
        if math.isinf(x): return 'inf' if x > 0 else '-inf'
        f = Fraction(x)
        return f'{f.numerator}/{f.denominator}'
    f = Fraction(x)
    return f'{f.numerator}/{f.denominator}'


def join(sep, items):
    items = list(items)
    return sep.join(items) if items else '_'


def dedup(l): return list(dict.fromkeys(l))


def kname(kind, k): return f'{kind}{k}'
def kidx(name): return int(re.sub(r'^[a-z]+', '', name))


def timed_lens(d):
    return join(',', (f"{k}:{len(up)}:" + ':'.join(str(len(v)) for v in vals)
                      for k, (up, vals) in sorted((kidx(n), x) for n, x in d.items())))


def host_obs(case, comp, ident, res, err):
    words = [f'res={err or "ok"}', f"cores={comp.nb_cores.get(ident, '_')}"]
    insts = comp.instance_map.get(ident) or {}
    per = dedup(case['periods'])
    for j, p in enumerate(per):
        h = insts.get(p / case['tps'])
        if h is None: continue
        fl = f'{fq(h.times[0])};{fq(h.times[-1])}' if h.times else '_;_'
        words.append(f"h{j}={len(h.times)};{join(',', (str(len(x)) for x in h.cpu))};{len(h.mem)};{timed_lens(h.net_io)};"
                     f"{timed_lens(h.disk_io)};{timed_lens(h.disk_usage)};{fl}")
    for r in (res or []):
        j = per.index(round(r['target_period'] * case['tps']))
        rates = lambda d: join(',', (f"{k}:" + ':'.join('~' + fq(v) for v in vs) for k, vs in sorted((kidx(n), x) for n, x in d.items())))
        words.append(f"p{j}={fq(r['period'][0])};{fq(r['period'][1])};{join(',', ('~' + fq(v) for v in r['cpu']))};{fq(r['mem'])};"
                     f"{rates(r['net_io'])};{rates(r['disk_io'])};"
                     + join(',', (f'{k}:{fq(v)}' for k, v in sorted((kidx(n), x) for n, x in r['disk_usage'].items()))))
    return ' '.join(words)


def proc_obs(case, comp, ident, ns, res, err):
    holder = comp.holder_map.get(f'ns{ns}')
    words = [f'res={err or "ok"}', f"cores={comp.nb_cores.get(ident, '_')}", f'holder={int(holder is not None)}']
    per = dedup(case['periods'])
    if holder is not None:
        for i, (pid, insts) in sorted((kidx(n), x) for n, x in holder.instance_map.items()):
            cells = []
            for p in per:
                x = insts.get(p / case['tps'])
                if x is None: continue
                fl = f'{fq(x.times[0])}:{fq(x.times[-1])}' if x.times else '_:_'
                cells.append(f'{len(x.times)}:{len(x.cpu)}:{len(x.mem)}:{fl}')
            words.append(f"e{i}={pid};{join(',', cells)}")
    for r in (res or []):
        j = per.index(round(r['target_period'] * case['tps']))
        words.append(f"p{j}={r['pid']};{fq(r['period'][0])};{fq(r['period'][1])};~{fq(r['cpu'])};{fq(r['mem'])}")
    return ' '.join(words)


def plus(vals, approx=False): return join('+', (('~' if approx else '') + fq(v) for v in vals))


def timed_full(d, approx):
    return join(',', (f"{k}:{plus(up)}:" + ':'.join(plus(v, approx) for v in vals)
                      for k, (up, vals) in sorted((kidx(n), x) for n, x in d.items())))


def host_dump(h):
    if h is None: return 'res=none'
    return (f"res=ok times={plus(h.times)} mem={plus(h.mem)} cpu={join(';', (plus(l, True) for l in h.cpu))}"
            f" net={timed_full(h.net_io, True)} disk={timed_full(h.disk_io, True)} usage={timed_full(h.disk_usage, False)}")


def proc_dump(v):
    if v is None: return 'res=none'
    return f"res=ok times={plus(v.times)} mem={plus(v.mem)} cpu={plus(v.cpu, True)}"


# ---------------------------------------------------------------------------------------------- op lines (model input)
def scale_of(case):
    """ value scale `vs`: smallest power of two making every float input of the case an integer number of units """
    den = 1
    for op in case['ops']:
        if op[0] == 'h':
            vals = [x for c in op[3] for x in c] + [op[4]] + [v for _, v in op[7]]
        elif op[0] == 'p':
            vals = [op[5], op[6]]
        else:
            continue
        for v in vals:
            den = max(den, Fraction(v).denominator)
    return den


def units(v, vs):
    f = Fraction(v) * vs
    assert f.denominator == 1, (v, vs)
    return f.numerator


def csv(items):
    items = [str(x) for x in items]
    return ','.join(items) if items else '_'


def op_line(case, vs, op):
    k = op[0]
    if k == 'h':
        _, ident, now, cpu, mem, net, disk, usage = op
        return (f"hpush {ident} {now} {csv(units(x, vs) for c in cpu for x in c)} {units(mem, vs)}"
                f" {csv(x for e in net for x in e)} {csv(x for e in disk for x in e)}"
                f" {csv(x for kk, v in usage for x in (kk, units(v, vs)))}")
    if k == 'p':
        _, ident, ns, pid, now, work, mem, nb = op
        return f"ppush {ident} {ns} {pid} {now} {units(work, vs)} {units(mem, vs)} {'_' if nb is None else nb}"
    if k == 'hget': return f'hget {op[1]} {op[2]}'
    if k == 'pget': return f'pget {op[1]} {op[2]} {op[3]}'
    raise ValueError(k)


def new_line(case, vs):
    judged = int(case.get('stream', 'main') == 'main')
    return f"new {case['tps']} {vs} {case['depth']} {int(case['irix'])} {judged} {csv(case['periods'])}"


# ---------------------------------------------------------------------------------------------- the implementation
class Impl:
    """ the real compilers, built the way supvisors/listener.py builds them """
    def __init__(self, case):
        tps = case['tps']
        sup = Mock()
        sup.options.stats_periods = [p / tps for p in case['periods']]
        sup.options.stats_histo = case['depth']
        sup.options.stats_irix_mode = bool(case['irix'])
        self.case, self.sup = case, sup
        self.host = HostStatisticsCompiler(sup)
        self.proc = ProcStatisticsCompiler(sup.options, sup.logger)

    def host_payload(self, op):
        _, ident, now, cpu, mem, net, disk, usage = op
        return {'now': now / self.case['tps'], 'cpu': [tuple(c) for c in cpu], 'mem': mem,
                'net_io': {kname('eth', k): (a, b) for k, a, b in net},
                'disk_io': {kname('sd', k): (a, b) for k, a, b in disk},
                'disk_usage': {kname('part', k): v for k, v in usage}}

    def proc_payload(self, op):
        _, ident, ns, pid, now, work, mem, nb = op
        d = {'namespec': f'ns{ns}', 'pid': pid, 'now': now / self.case['tps']}
        if pid != 0:
            d['proc_work'] = work; d['proc_memory'] = mem
        if nb is not None: d['nb_cores'] = nb
        return d

    def apply(self, op, stats):
        """ one operation; returns (observation, monitor flags) """
        case = self.case; k = op[0]; flags = set()
        per = dedup(case['periods'])
        if k == 'h':
            ident = f'id{op[1]}'
            before = self.host.instance_map.get(ident)
            snap = {p: (len(h.times), set(h.net_io) | set(h.disk_io) | set(h.disk_usage), bool(h.ref_stats))
                    for p, h in (before or {}).items()}
            if not before: stats['branches']['host:unknown-identifier'] += 1
            res = err = None
            try:
                res = self.host.push_statistics(ident, self.host_payload(op))
            except Hang: raise
            except Exception as e:
                err = type(e).__name__; stats['impl_errors'][err] = stats['impl_errors'].get(err, 0) + 1
            for r in (res or []):
                for v in r['cpu']:
                    if not (math.isfinite(v) and 0.0 <= v <= 100.0): flags.add('cpu')
                for d in (r['net_io'], r['disk_io']):
                    for vs_ in d.values():
                        for v in vs_:
                            if not (math.isfinite(v) and v >= 0.0): flags.add('io')
            # branch accounting (generator quality)
            after = self.host.instance_map.get(ident) or {}
            got = {r['target_period'] for r in (res or [])}
            for p, h in after.items():
                was = snap.get(p)
                if was is None or not was[2]: stats['branches']['host:first-measure'] += 1; continue
                if p in got:
                    stats['branches']['host:point'] += 1
                    if was[0] == case['depth'] and was[0] > 0: stats['branches']['host:truncation'] += 1; stats['_disturb'] = True
                    keys = set(h.net_io) | set(h.disk_io) | set(h.disk_usage)
                    if was[1] - keys: stats['branches']['host:entry-obsolete'] += 1; stats['_disturb'] |= was[0] > 0
                    if keys - was[1]: stats['branches']['host:entry-new'] += 1; stats['_disturb'] |= was[0] > 0
                elif not err: stats['branches']['host:gated-out'] += 1
            if res: stats['points'] += len(res)
            return host_obs(case, self.host, ident, res, err), flags
        if k == 'p':
            ident = f'id{op[1]}'; ns = op[2]; pid = op[3]
            holder = self.proc.holder_map.get(f'ns{ns}')
            old = holder.instance_map.get(ident) if holder else None
            had = bool(old and any(x.times for x in old[1].values()))
            res = err = None
            try:
                res = self.proc.push_statistics(ident, self.proc_payload(op))
            except Hang: raise
            except Exception as e:
                err = type(e).__name__; stats['impl_errors'][err] = stats['impl_errors'].get(err, 0) + 1
            for r in (res or []):
                # only meaningful when the counter did not decrease; the generator of the judged stream guarantees it
                if not (math.isfinite(r['cpu']) and r['cpu'] >= 0.0): flags.add('pcpu')
            b = stats['branches']
            if pid == 0:
                b['proc:stop-known' if old else 'proc:stop-unknown'] += 1
                if had: b['proc:stop-drops-history'] += 1; stats['_disturb'] = True
            elif old is None: b['proc:start'] += 1
            elif old[0] != pid:
                b['proc:pid-change'] += 1
                if had: b['proc:pid-change-drops-history'] += 1; stats['_disturb'] = True
            elif res:
                b['proc:point'] += 1
                if any(len(x.times) == case['depth'] for x in old[1].values()): b['proc:truncation'] += 1
            else: b['proc:gated-out'] += 1
            if res: stats['points'] += len(res)
            return proc_obs(case, self.proc, ident, ns, res, err), flags
        if k == 'hget':
            p = per[op[2]] / case['tps'] if op[2] < len(per) else None
            return host_dump(self.host.get_stats(f'id{op[1]}', p)), flags
        if k == 'pget':
            p = per[op[3]] / case['tps'] if op[3] < len(per) else None
            try:
                return proc_dump(self.proc.get_stats(f'ns{op[1]}', f'id{op[2]}', p)), flags
            except Hang: raise
            except Exception as e:
                err = type(e).__name__; stats['impl_errors'][err] = stats['impl_errors'].get(err, 0) + 1
                return f'res={err}', flags
        raise ValueError(k)


def new_stats():
    from collections import Counter
    return {'evaluations': 0, 'ops': 0, 'points': 0, 'op_kinds': Counter(), 'branches': Counter(), 'impl_errors': {},
            'streams': Counter(), 'nontrivial': set(), 'shrinks': 0, 'monitor_flags': Counter(), 'judge_clauses': Counter(),
            'approx_values': 0, 'max_rel_err': Fraction(0), 'max_rel_err_stream': {}, '_disturb': False}


def run_impl(case, stats):
    """ returns (driver lines, impl observations, monitor flags per op) """
    vs = scale_of(case)
    lines = [new_line(case, vs) + ' | -']; obs = ['new']; flags = [set()]
    impl = Impl(case)
    stats['_disturb'] = False
    p0 = stats['points']
    for op in case['ops']:
        if stats.get('hung', 0) >= 2: break      # the implementation hangs: reported once, the rest of the run is skipped
        try:
            with watchdog(20):
                o, fl = impl.apply(op, stats)
        except Hang:
            o, fl = 'res=Hang', set()
            stats['hung'] = stats.get('hung', 0) + 1
            stats['impl_errors']['Hang'] = stats['impl_errors'].get('Hang', 0) + 1
        lines.append(f'{op_line(case, vs, op)} | {o}'); obs.append(o); flags.append(fl)
        if o == 'res=Hang': break
    nontrivial = stats['_disturb'] and stats['points'] > p0
    return lines, obs, flags, nontrivial


def same(model, impl, stats=None, stream='main'):
    """ structural equality + numeric closeness (exact arithmetic) of two observations """
    if model == impl: return True
    ms, is_ = NUM.split(model), NUM.split(impl)
    if len(ms) != len(is_): return False
    for k, (a, b) in enumerate(zip(ms, is_)):
        if a == b: continue
        if k % 2 == 0: return False
        try: fa, fb = Fraction(a), Fraction(b)
        except (ValueError, ZeroDivisionError): return False
        if abs(fa - fb) > abs(fa) * TOL: return False
        if stats is not None and fa:
            e = abs(fa - fb) / abs(fa)
            stats['max_rel_err'] = max(stats['max_rel_err'], e)
            stats['max_rel_err_stream'][stream] = max(stats['max_rel_err_stream'].get(stream, 0), e)
    return True


CLAUSE_FAMILY = {'cpu-above-100': 'cpu', 'cpu-below-0': 'cpu', 'cpu-not-finite': 'cpu', 'io-negative': 'io',
                 'io-not-finite': 'io', 'proc-cpu-negative': 'pcpu', 'proc-cpu-not-finite': 'pcpu'}


def judge_batch(chk, cases, stats):
    """ runs implementation and model on every case; yields (case, obs, findings, diffs, nontrivial) with
        findings = [(signature, what, replay)] (the first rejection of each signature in the case) """
    all_lines = []; spans = []
    for case in cases:
        lines, obs, flags, nt = run_impl(case, stats)
        spans.append((len(all_lines), len(lines), case, obs, flags, nt)); all_lines += lines
    model = chk.driver('drv_c20', all_lines)
    for start, ln, case, obs, flags, nt in spans:
        findings = []; diffs = []
        judged = case.get('stream', 'main') == 'main'
        for k in range(1, ln):
            m_obs, verdict = [x.strip() for x in model[start + k].split('|')]
            i_obs = obs[k]; op = case['ops'][k - 1]
            replay = dict(case, ops=case['ops'][:k], failing_op_index=k - 1, impl_observation=i_obs, model_observation=m_obs)
            stats['approx_values'] += i_obs.count('~')
            if i_obs == 'res=Hang':
                findings.append(('C20:hang', f'the implementation did not return from {op[0]} within 20 s', replay)); break
            if verdict == 'J:unparsable':
                diffs.append(dict(replay, note='driver could not parse the implementation observation')); break
            clauses = [] if verdict in ('J:ok', 'J:skip') else verdict[2:].split(',')
            # the Python float monitor and the Lean judge (exact rationals) must tell the same story
            if judged:
                fam = {CLAUSE_FAMILY[c.split('@')[0].split(':')[0]] for c in clauses if c.split('@')[0].split(':')[0] in CLAUSE_FAMILY}
                for f in flags[k]: stats['monitor_flags'][f] += 1
                if flags[k] != fam:
                    diffs.append(dict(replay, note=f'float monitor flagged {sorted(flags[k])}, judge said {verdict}'))
            for c in clauses:
                name = c.split('@')[0]
                if any(f[0] == f'C20:{name}' for f in findings): continue
                stats['judge_clauses'][name] += 1
                findings.append((f'C20:{name}', f'clause "{name}" violated ({c.split("@", 1)[1] if "@" in c else ""}) after '
                                 f'{op_line(case, scale_of(case), op)[:160]}: implementation reported {i_obs[:300]}',
                                 dict(replay, clause=name, all_clauses=clauses)))
            if not same(m_obs, i_obs, stats, case.get('stream', 'main')):
                diffs.append(replay); break
        yield case, obs, findings, diffs, nt


def run_cases(chk, cases, stats, do_shrink=True):
    for case, obs, findings, diffs, nt in judge_batch(chk, cases, stats):
        stats['evaluations'] += 1; stats['ops'] += len(case['ops']); stats['streams'][case.get('stream', 'main')] += 1
        for op in case['ops']: stats['op_kinds'][op[0]] += 1
        if nt: stats['nontrivial'].add(json.dumps(case['ops']))
        for d in diffs: chk.disagree('Stats', d)
        for f in findings:
            base = f[0]; small = f[2]['ops']
            if do_shrink and stats['shrinks'] < 12 and base not in chk.known and base not in chk.rejections and base != 'C20:hang':
                stats['shrinks'] += 1
                scratch = new_stats()
                def still(cand):
                    for _, _, fs, _, _ in judge_batch(chk, [dict(case, ops=cand)], scratch):
                        return any(x[0] == base for x in fs)
                    return False
                small = shrink(list(small), still)
                for _, _, fs, _, _ in judge_batch(chk, [dict(case, ops=small)], scratch):
                    f = next((x for x in fs if x[0] == base), f)
            chk.reject(f[0], f[1], f[2])


# ---------------------------------------------------------------------------------------------- generators
def gen_case(rnd, stream='main'):
    """ a stream of host and process measures from up to 3 identifiers.
        main   : the variations listed by the statement (interfaces / disks / partitions appearing or vanishing, counters
                 wrapping, processes restarting under new pids or stopping, identifiers never seen before, stale and
                 duplicate time stamps), valid settings, non-decreasing CPU counters (ints, dyadic or 2-decimal floats)
        cores  : + the number of CPU cores changes within the stream (outside C20 by the stated reading; not judged)
        domain : out-of-domain settings and inputs (period <= 0, depth 0, no period, negative pids, nb_cores <= 0, clock
                 going backwards, decreasing CPU counters, no CPU entry): correspondence only, not judged """
    dom = stream == 'domain'
    tps = rnd.choice([1024, 1024, 1024, 16, 1])
    secs = [s for s in (1, 2, 2.5, 5, 7.25, 10, 30) if float(s * tps).is_integer()]
    periods = sorted(int(s * tps) for s in rnd.sample(secs, rnd.randint(1, 3)))
    if rnd.random() < 0.1: periods = sorted(periods + [periods[0]])          # duplicate period in the option
    depth = rnd.choice([1, 2, 3, 3, 5, 10, 12])
    regime = rnd.choice(['int', 'dyadic', 'decimal', 'decimal'])
    if stream != 'main':
        # exact float arithmetic up to the final division (values k/64): counters that decrease or belong to another core
        # make `work + idle` cancel, which would amplify the rounding of two-decimal inputs beyond any fixed tolerance
        regime = rnd.choice(['int', 'dyadic'])
    if dom:
        r = rnd.random()
        if r < 0.3: periods = sorted(rnd.choice([0, 0, -tps, -3 * tps]) for _ in range(rnd.randint(1, 2)))
        elif r < 0.4: periods = []
        if rnd.random() < 0.3: depth = 0

    def val(lo, hi):
        if regime == 'int': return float(rnd.randint(lo, hi))
        if regime == 'dyadic': return rnd.randint(lo * 64, hi * 64) / 64
        return round(rnd.uniform(lo, hi), 2)

    nid = rnd.randint(1, 3); nns = rnd.randint(1, 4)
    case = {'stream': stream, 'tps': tps, 'depth': depth, 'irix': rnd.random() < 0.4, 'periods': periods, 'ops': []}
    maxp = max(periods) if periods else tps
    hosts = {}; procs = {}; clock = {i: rnd.randint(0, 100) * tps for i in range(nid)}
    big = rnd.random() < 0.2         # byte counters near 2^32 / 2^64
    next_pid = [100]

    def tick(i):
        r = rnd.random()
        if r < 0.08: dt = 0
        elif r < 0.45: dt = rnd.randint(1, max(1, maxp // 2))
        elif r < 0.8: dt = rnd.choice(periods) if periods and max(periods) > 0 else tps
        else: dt = rnd.randint(1, 3 * max(maxp, 1))
        if dom and rnd.random() < 0.1: dt = -rnd.randint(1, max(1, maxp))
        clock[i] += dt
        return clock[i]

    def counter():
        if big: return rnd.choice([2 ** 32, 2 ** 64]) - rnd.randint(1, 5000)
        return rnd.randint(0, 10 ** 6)

    def evolve_io(d, nkeys):
        for k in list(d):
            r = rnd.random()
            if r < 0.08: del d[k]                                               # vanishing
            elif r < 0.16: d[k] = [rnd.randint(0, 50), rnd.randint(0, 50)]        # both counters wrap
            elif r < 0.20: d[k][rnd.randrange(2)] = rnd.randint(0, 50)           # one counter wraps
            else:
                d[k][0] += rnd.choice([0, rnd.randint(0, 10 ** 5)]); d[k][1] += rnd.choice([0, rnd.randint(0, 10 ** 7)])
        if rnd.random() < 0.15:
            k = rnd.randrange(nkeys)
            if k not in d: d[k] = [counter(), counter()]                         # appearing
        if rnd.random() < 0.05:                                                  # dict order changes
            items = list(d.items()); rnd.shuffle(items); d.clear(); d.update(items)

    nops = rnd.randint(4, 60)
    for _ in range(nops):
        i = rnd.randrange(nid); r = rnd.random()
        if r < 0.5:
            h = hosts.get(i)
            if h is None:
                nc = rnd.randint(1, 4)
                if dom and rnd.random() < 0.1: nc = 0
                h = hosts[i] = {'cpu': [[val(0, 5000), val(0, 5000)] for _ in range(nc)],
                                'net': {k: [counter(), counter()] for k in rnd.sample(range(5), rnd.randint(0, 3))},
                                'disk': {k: [counter(), counter()] for k in rnd.sample(range(4), rnd.randint(0, 2))},
                                'usage': {k: val(0, 100) for k in rnd.sample(range(4), rnd.randint(0, 2))}}
                if rnd.random() < 0.3: h['cpu'] = [[0.0, 0.0] for _ in range(nc)]  # counters starting from zero
            else:
                busy = rnd.random() < 0.25          # a fully busy interval: no idle time on some cores
                for c in h['cpu']:
                    c[0] += rnd.choice([0.0, val(0, 50), val(0, 50)])
                    c[1] += 0.0 if busy and rnd.random() < 0.7 else rnd.choice([0.0, val(0, 50), val(0, 200)])
                    if dom and rnd.random() < 0.08: c[rnd.randrange(2)] -= val(0, 30)
                if stream == 'cores' and rnd.random() < 0.2:
                    if rnd.random() < 0.6 and len(h['cpu']) > 0: h['cpu'].pop()
                    else: h['cpu'].append([val(0, 5000), val(0, 5000)])
                evolve_io(h['net'], 5); evolve_io(h['disk'], 4)
                if rnd.random() < 0.1 and h['usage']: del h['usage'][rnd.choice(list(h['usage']))]
                if rnd.random() < 0.12: h['usage'][rnd.randrange(4)] = val(0, 100)
                for k in h['usage']:
                    if rnd.random() < 0.3: h['usage'][k] = val(0, 100)
            case['ops'].append(['h', i, tick(i), [list(c) for c in h['cpu']], val(0, 100),
                                [[k, a, b] for k, (a, b) in h['net'].items()], [[k, a, b] for k, (a, b) in h['disk'].items()],
                                [[k, v] for k, v in h['usage'].items()]])
        elif r < 0.9:
            ns = rnd.randrange(nns)
            p = procs.get((ns, i))
            r2 = rnd.random()
            if p is None or p['pid'] == 0:
                if r2 < 0.15: pid = 0                                           # stopped process never seen / still stopped
                else:
                    next_pid[0] += rnd.randint(1, 9); pid = next_pid[0]
                p = procs[(ns, i)] = {'pid': pid, 'work': val(0, 5), 'nb': rnd.randint(1, 4)}
            elif r2 < 0.08: p['pid'] = 0                                        # stops
            elif r2 < 0.18:
                next_pid[0] += rnd.randint(1, 9); p['pid'] = next_pid[0]; p['work'] = val(0, 2)    # restarted under a new pid
            else:
                p['work'] += rnd.choice([0.0, val(0, 3), val(0, 40)])
                if dom and rnd.random() < 0.08: p['work'] -= val(0, 2)
            pid = p['pid']
            if dom and rnd.random() < 0.06: pid = -rnd.randint(1, 50)
            nb = p['nb'] if ns == 0 else None                                   # only the supervisord payload carries nb_cores
            if dom and nb is not None and rnd.random() < 0.3: nb = rnd.choice([0, 0, -2])
            case['ops'].append(['p', i, ns, pid, tick(i), p['work'] if pid else 0.0, val(0, 100) if pid else 0.0, nb])
        elif r < 0.95:
            case['ops'].append(['hget', rnd.randrange(nid + 1), rnd.randrange(len(dedup(periods)) + 1)])
        else:
            case['ops'].append(['pget', rnd.randrange(4), rnd.randrange(nid + 1), rnd.randrange(len(dedup(periods)) + 1)])
    # final dumps: the whole content of every history is compared at the end of the case
    for i in range(nid):
        for j in range(len(dedup(periods))):
            case['ops'].append(['hget', i, j])
            for ns in range(4):
                if (ns, i) in procs: case['ops'].append(['pget', ns, i, j])
    return case


def pick_stream(rnd):
    r = rnd.random()
    return 'main' if r < 0.8 else 'cores' if r < 0.88 else 'domain'


def exhaustive_cases(max_len):
    """ every stream up to max_len measures over a small alphabet: one identifier, one process, one interface,
        period 2 s, depth 2, clock steps of 1 or 2 s; host measures with the interface present / absent / wrapped and
        a busy or half-idle CPU; process measures with pid 0 / 7 / 8 """
    alphabet = [('h', dt, net, busy) for dt in (1, 2) for net in ('up', 'absent', 'wrap') for busy in (0, 1)] \
        + [('p', dt, pid) for dt in (1, 2) for pid in (0, 7, 8)]
    for L in range(1, max_len + 1):
        for combo in itertools.product(alphabet, repeat=L):
            now = 0; w = 0.0; idle = 0.0; rx = 1000; pw = 0.0
            ops = []
            for a in combo:
                now += a[1]
                if a[0] == 'h':
                    w += 3.0; idle += 0.0 if a[3] else 3.0
                    if a[2] == 'wrap': rx = 5
                    else: rx += 700
                    ops.append(['h', 0, now, [[w, idle]], 40.0, [] if a[2] == 'absent' else [[0, rx, rx]], [], [[0, 55.0]]])
                else:
                    pw += 0.5
                    ops.append(['p', 0, 1, a[2], now, pw if a[2] else 0.0, 1.0 if a[2] else 0.0, None])
            ops += [['hget', 0, 0], ['pget', 1, 0, 0]]
            yield {'stream': 'main', 'tps': 1, 'depth': 2, 'irix': True, 'periods': [2], 'ops': ops}


# ---------------------------------------------------------------------------------------------- entry points
def load_corpus(prop='C20'):
    d = os.path.join(VERIF, 'corpus', prop)
    cases = []
    if os.path.isdir(d):
        for f in sorted(os.listdir(d)):
            if f.endswith('.json'):
                c = json.load(open(os.path.join(d, f)))
                cases.append(c.get('replay', c))
    return cases


def finish_coverage(chk, stats, samples, exhaustive_n=0):
    chk.coverage.update({
        'evaluations': stats['evaluations'], 'distinct_nontrivial': len(stats['nontrivial']),
        'rule': 'generated streams of host and process measures pushed into the real HostStatisticsCompiler / '
                'ProcStatisticsCompiler (1-3 identifiers, 4 namespecs, 1-3 periods, depth 1-12; interfaces, disks, partitions '
                'appearing / vanishing, counter wraps, pid changes, stops, unknown identifiers, float counters); non-trivial = '
                'the case produced at least one point AND a non-empty history was truncated at depth, lost or gained an '
                'interface/disk/partition, or was dropped by a stop / pid change; distinct = distinct op list',
        'samples': samples, 'operations': stats['ops'], 'points_produced_by_impl': stats['points'],
        'op_kinds': dict(stats['op_kinds']), 'streams': dict(stats['streams']), 'branches': dict(stats['branches']),
        'implementation_exceptions': stats['impl_errors'], 'judge_clauses_rejected': dict(stats['judge_clauses']),
        'float_monitor_flags': dict(stats['monitor_flags']),
        'float_values_compared_as_exact_rationals': stats['approx_values'],
        'relative_tolerance': '2^-40', 'max_relative_error_seen': float(stats['max_rel_err']),
        'max_relative_error_seen_by_stream': {k: float(v) for k, v in sorted(stats['max_rel_err_stream'].items())},
        'traces_validated_against_impl': stats['evaluations'], 'exhaustive': False,
        'exhaustive_small_scope_cases': exhaustive_n})
    chk.trusted += ['harness/c20.py (drives the real compilers; canonical printer; Fraction(float) conversion; tolerance compare)',
                    'lean/Supv/Drv/C20.lean (op-line and observation parsers, fraction normalisation)',
                    'modelled, not verified: IEEE-754 rounding (the theorems are about exact arithmetic; the float results '
                    'are monitored on the implementation by the judge)']
    chk.assumptions += ['time stamps lie on a binary grid (1/tps s, tps a power of two), so float subtraction and the period '
                        'comparison are exact; off-grid time stamps are not generated',
                        'payloads have the shape produced by statscollector.py (pid-0 payloads carry no counters)',
                        'a change of the number of CPU cores within a stream, periods <= 0, depth 0, negative pids, '
                        'nb_cores <= 0 are generated in separate labelled streams, compared with the model, not judged',
                        'valid settings: stats_periods in [1,3600] s, stats_histo >= 1 (options.py enforces [10,1500])']


def run(chk):
    quick = chk.tier == 'quick'
    stats = new_stats()
    ok = chk.prove('Supv.Props.C20', extra_targets=['drv_c20'])
    if ok and not quick:
        chk.leanchecker(['Supv.Model.Stats', 'Supv.Lemmas.Stats', 'Supv.Props.C20'])
    run_cases(chk, load_corpus(), stats)
    seeds = [chk.seed] if quick else derive_seeds(chk.seed, 8)
    per_seed = 1500 if quick else 5000
    samples = []
    for sd in seeds:
        rnd = random.Random(sd)
        cases = [gen_case(rnd, pick_stream(rnd)) for _ in range(per_seed)]
        if not samples:
            samples = [{'settings': {k: v for k, v in c.items() if k != 'ops'},
                        'ops': [op_line(c, scale_of(c), o)[:200] for o in c['ops'][:6]]} for c in cases[:2]]
        for k in range(0, len(cases), 500):
            run_cases(chk, cases[k:k + 500], stats)
    nex = 0
    if not quick:
        ex = list(exhaustive_cases(4))
        nex = len(ex)
        for k in range(0, len(ex), 2000):
            run_cases(chk, ex[k:k + 2000], stats)
    if not chk.obligations_ok() or chk.disagreements:
        # search stage: more streams, judged on the implementation by the Lean monitor
        for sd in derive_seeds(chk.seed + 7919, 4):
            rnd = random.Random(sd)
            run_cases(chk, [gen_case(rnd, 'main') for _ in range(1500)], stats)
        ex = list(exhaustive_cases(3))
        run_cases(chk, ex, stats)
    finish_coverage(chk, stats, samples, nex)
    if not quick:
        chk.coverage['anchor_code_coverage'] = coverage_of_anchor(chk.seed)


def coverage_of_anchor(seed, n=400):
    """ thorough tier: line / branch coverage of supvisors/statscompiler.py when the generated cases are run on the
        implementation (a separate process under coverage.py, so that the module's import is measured too) """
    import subprocess, tempfile
    repo = os.environ.get('SUPVISORS_REPO', '/repo')
    target = os.path.join(repo, 'supvisors', 'statscompiler.py')
    with tempfile.TemporaryDirectory(dir='/var/tmp') as d:
        env = dict(os.environ, COVERAGE_FILE=os.path.join(d, 'cov'))
        r = subprocess.run([sys.executable, '-m', 'coverage', 'run', '--branch', f'--include={target}', os.path.abspath(__file__),
                            '--cov-probe', str(seed), str(n)], env=env, capture_output=True, text=True, timeout=900,
                           cwd=os.path.dirname(os.path.abspath(__file__)))
        if r.returncode: return {'error': (r.stdout + r.stderr)[-400:]}
        out = os.path.join(d, 'cov.json')
        r = subprocess.run([sys.executable, '-m', 'coverage', 'json', '-o', out], env=env, capture_output=True, text=True, timeout=300)
        if r.returncode: return {'error': (r.stdout + r.stderr)[-400:]}
        f = next(iter(json.load(open(out))['files'].values()))
        s = f['summary']
        return {'file': 'supvisors/statscompiler.py', 'cases': n, 'statements': s['num_statements'], 'missing_lines': f['missing_lines'],
                'branches': s.get('num_branches'), 'covered_branches': s.get('covered_branches'),
                'percent_covered': round(s['percent_covered'], 1)}


def replay(chk, path):
    """ re-runs one stored case on the real code (and on the model), prints what the implementation answered """
    c = json.load(open(path))
    case = c.get('replay', c)
    case = {k: case[k] for k in ('stream', 'tps', 'depth', 'irix', 'periods', 'ops') if k in case}
    stats = new_stats()
    vs = scale_of(case)
    _, obs, _, _ = run_impl(case, new_stats())
    for o, i_obs in list(zip(case['ops'], obs[1:]))[-4:]:
        print('  op  :', op_line(case, vs, o)[:220]); print('  impl:', i_obs[:400])
        for m in re.finditer(r'~(-?\d+)/(\d+)', i_obs):
            v = Fraction(int(m.group(1)), int(m.group(2)))
            if v > 100 or v < 0: print(f'        value {float(v)!r} = {m.group(0)[1:]}')
    run_cases(chk, [case], stats, do_shrink=False)
    finish_coverage(chk, stats, [{'settings': {k: v for k, v in case.items() if k != 'ops'}, 'ops': len(case['ops'])}])
    chk.coverage['rule'] = 'replay'


if __name__ == '__main__' and len(sys.argv) == 4 and sys.argv[1] == '--cov-probe':
    _rnd = random.Random(int(sys.argv[2])); _st = new_stats()
    for _ in range(int(sys.argv[3])):
        run_impl(gen_case(_rnd, pick_stream(_rnd)), _st)
