""" C16, free-running stage: a closed-loop simulation of a cluster of REAL Supvisors instances (no Lean model in the loop).

    run_free(seed, **kwargs) -> {'findings': [(signature, what)], 'stats': {...}, 'seed': seed, 'harness_errors': [(where, traceback)]}
    replay_free(seed, **kwargs) -> same, verbose (prints the configuration, the operation log, the findings with tracebacks)
    CLI: `python c16free.py SEED` (replay) / `python c16free.py S0 S1 ['{"kw": ...}' [out.json]]` (aggregate)

    What is real: every Supvisors class of /repo (through simenv) - listener, FSM, context, commander, strategies,
    RPCInterface, SupervisorProxyThread / SupervisorProxyServer, Parser (on a generated rules file), SupervisorData,
    SupervisorUpdater, SupvisorsServerOptions, statistics compilers - and, for the "fake Supervisor" of each instance, the
    Supervisor classes themselves: `supervisor.options.ServerOptions` realized on a generated supervisord.conf,
    `supervisor.supervisord.Supervisor`, `supervisor.process.Subprocess` / `ProcessGroup`,
    `supervisor.rpcinterface.SupervisorNamespaceRPCInterface` (patched by Supvisors' own `patch_591`), the dispatcher
    `supervisor.xmlrpc.traverse` and the XML-RPC marshalling.
    What is simulated: the operating system below Supervisor (fork / kill / waitpid: scripted children with the behaviours
    ok, slow, fatal (BACKOFF then FATAL), flaky, exit (expected or not), crash, stuck (never dies: STOPPING for ever),
    slowstop (SIGKILL needed), never (start request swallowed), nofile, forkfail), the HTTP transport (the call reaches the
    real interfaces of the target or fails atomically), the threads (proxy queues stepped by the scheduler), the clock,
    the statistics collector process.  Process state sequences are computed by Supervisor's own state machine.

    Judged, and nothing else:
      C16:traceback:<tb_signature>            a critical log record carrying a traceback (last-resort guard needed)
      C16:rpc-exception:<method>:<ExcClass>   an exception other than RPCError leaves an XML-RPC method (or its deferred
                                              `onwait` part): the caller gets HTTP 500.  A TypeError is answered by
                                              Supervisor's dispatcher with the documented fault INCORRECT_PARAMETERS: it is
                                              a finding only when every parameter had its documented type (the internal
                                              error is then masked, see `World.dispatch`); `marshal`: unmarshallable result
      C16:escaped:<tb_signature>              an exception escapes a listener entry point, a proxy step, a delivery, or the
                                              code that Supvisors patches into supervisord's main loop
      C16:hang:<where>                        an operation does not return within the watchdog
      C16:tick-stopped                        the tick that follows a traceback does not publish its TICK / re-evaluate
    Exceptions raised by the harness' own fakes go to `harness_errors`, never to `findings`.

    kwargs: verbose; max_ticks (45); max_ops (6000); rpc_rate / fault_rate (1.0); faults / manual (True);
            forged: 'benign' (default) | 'all' | 'none' (see `forged_event`); new_programs (0.15: share of the schedules in
            which the administrator may add a program unknown at start-up with `supervisorctl update`);
            typeerror_is_fault (True; False: every TypeError leaving an XML-RPC method is a finding); watchdog (10 s);
            keep (keep the temporary directory); tmpdir.
"""
import sys, os, json, random, shutil, tempfile, traceback, errno, signal as _signal, collections, types
sys.path.insert(0, os.path.dirname(os.path.abspath(__file__)))
from simenv import *
from supervisor import events as sevents
from supervisor.options import ServerOptions, make_namespec, split_namespec
from supervisor.supervisord import Supervisor
from supervisor.rpcinterface import SupervisorNamespaceRPCInterface
from supervisor.states import ProcessStates, SupervisorStates, RUNNING_STATES, STOPPED_STATES, getProcessStateDescription
from supervisor.xmlrpc import Faults
from supervisor import xmlrpc as sxmlrpc
from supervisor.http import NOT_DONE_YET
from supervisor.compat import xmlrpclib
from supvisors.options import SupvisorsServerOptions
from supvisors.supervisorupdater import SupervisorUpdater
from supvisors.sparser import Parser
from supvisors.statscompiler import HostStatisticsCompiler, ProcStatisticsCompiler
from supvisors.plugin import patch_591, expand_faults

# what the Supvisors plugin does to Supervisor when it is loaded (startProcess refuses disabled programs, spawn skips
# disabled / obsolete processes, Supvisors fault codes)
expand_faults()
patch_591()

PERIOD = 5 * UNIT
ACTIVE = [None]          # the instance whose Supervisor is executing (target of ProcessGroup events)
PID0 = 5_000_000         # simulated pids are above any possible pid_max: a leaked os.kill could only fail


def _now_units(t): return int(round((t - 1.0e6) * UNIT))


# ---------------------------------------------------------------------------------------------------------------------
# 1. the fake Supervisor: real Supervisor classes above a simulated operating system
class _NullLogger:
    level = 50; handlers = []
    def _drop(self, *a, **k): pass
    critical = error = warn = info = debug = trace = blather = log = close = _drop


class _HttpServer:
    """ what SupervisorData reads from the Supervisor HTTP server: the handler list and the socket """
    def __init__(self):
        self.handlers = [Mock(name='xmlrpc'), Mock(name='tail'), Mock(name='maintail'), Mock(name='ui'), Mock(name='default')]
        self.socket = Mock(); self.closed = False
    def close(self): self.closed = True


class _Forbidden(Exception):
    """ a real OS primitive was about to be used by the harness (harness bug) """


class SimOptions(ServerOptions):
    """ supervisord's own options object, realized on the generated configuration file; the OS layer is simulated """
    def __init__(self, sup):
        ServerOptions.__init__(self); self.sup = sup; self.owner = sup.sim

    def fork(self):
        proc = sys._getframe(1).f_locals.get('self')
        return self.sup.os_fork(proc)

    def kill(self, pid, sig): return self.sup.os_kill(pid, sig)
    def waitpid(self): return self.sup.os_waitpid()
    def make_pipes(self, stderr=True):
        return {k: None for k in ('child_stdin', 'stdin', 'stdout', 'child_stdout', 'stderr', 'child_stderr')}
    def close_parent_pipes(self, pipes): pass
    def close_child_pipes(self, pipes): pass
    def close_httpservers(self):
        for _, hs in self.httpservers: hs.close()
    def stat(self, filename):
        if filename.startswith('/sim/'):
            if 'missing' in filename: raise OSError(errno.ENOENT, filename)
            return os.stat('/bin/sh')
        return os.stat(filename)
    def check_execv_args(self, filename, argv, st):
        if filename.startswith('/sim/'):
            from supervisor.options import NotFound
            if st is None: raise NotFound("can't find command %r" % filename)
            return
        return ServerOptions.check_execv_args(self, filename, argv, st)
    def _nope(self, *a, **k): raise _Forbidden('real OS primitive')
    setpgrp = dup2 = close_fd = execve = _exit = daemonize = openhttpservers = setuid = drop_privileges = chdir = _nope


class FakeSup:
    """ one Supervisor daemon: real `Supervisor` + real `SupervisorNamespaceRPCInterface`; children are scripted """
    def __init__(self, sim, conf, behaviours, rnd):
        self.sim, self.rnd, self.beh = sim, rnd, behaviours
        self.options = SimOptions(self)
        self.options.realize(['-c', conf])
        self.options.logger = _NullLogger()
        self.http = _HttpServer()
        self.options.httpservers = [(c, self.http) for c in self.options.server_configs if c['family'] == 2][:1]
        self.supervisord = Supervisor(self.options)
        # the groups are created before the Supvisors plugin exists: their ProcessGroupAddedEvent is never heard
        for config in self.options.process_group_configs:
            config.after_setuid()
            self.supervisord.process_groups[config.name] = config.make_group()
        self.rpc = SupervisorNamespaceRPCInterface(self.supervisord)
        self.children = {}; self.next_pid = PID0 + sim.k * 100_000
        self.wake = 0; self.spawned = collections.Counter()
        self.served = collections.Counter()

    # -- the simulated operating system
    def behaviour(self, proc):
        sc = getattr(proc, 'supvisors_config', None)
        name = sc.program_config.name if sc is not None else proc.config.name
        return self.beh.get(name, 'ok')

    def os_fork(self, proc):
        rnd = self.rnd; beh = self.behaviour(proc); now = T[0]
        self.spawned[beh] += 1
        nth = self.spawned[(proc.config.name, 'n')] = self.spawned[(proc.config.name, 'n')] + 1
        if beh == 'forkfail' and rnd.random() < 0.6:
            raise OSError(errno.EAGAIN, 'sim: process table full')
        self.next_pid += 1; pid = self.next_pid
        start = int(proc.config.startsecs) * UNIT
        c = {'pid': pid, 'die_at': None, 'sts': 0, 'term': rnd.randint(1, max(2, int(proc.config.stopwaitsecs) * UNIT // 2)),
             'unkillable': False, 'ignore_term': rnd.random() < 0.1, 'reaped': False, 'name': proc.config.name}
        if beh == 'fatal' or (beh == 'flaky' and nth % 3 != 0):
            c['die_at'] = now + rnd.randint(1, max(2, start * 3 // 4 if start else 2)); c['sts'] = rnd.choice([1, 2]) << 8
        elif beh == 'exit':
            c['die_at'] = now + start + rnd.randint(UNIT // 4, 8 * UNIT); c['sts'] = rnd.choice([0, 0, 1 << 8])
        elif beh == 'crash':
            c['die_at'] = now + start + rnd.randint(UNIT, 60 * UNIT); c['sts'] = rnd.choice([1 << 8, 3 << 8, 11, 9, 6])
        elif beh == 'stuck':
            c['unkillable'] = True
        elif beh == 'slowstop':
            c['ignore_term'] = True
        self.children[pid] = c
        self.wake = 0
        return pid

    def os_kill(self, pid, sig):
        c = self.children.get(abs(pid))
        if c is None or c['reaped']: raise OSError(errno.ESRCH, 'sim: no such process')
        if c['unkillable']: return
        now = T[0]
        if c['die_at'] is not None and c['die_at'] <= now: return   # already a zombie
        if sig == _signal.SIGKILL:
            t, sts = now + self.rnd.randint(1, 30), 9
        elif c['ignore_term']:
            return
        else:
            t, sts = now + c['term'], self.rnd.choice([0, int(sig), int(sig)])
        if c['die_at'] is None or t < c['die_at']: c['die_at'], c['sts'] = t, sts
        self.wake = 0

    def os_waitpid(self):
        now = T[0]
        due = [c for c in self.children.values() if not c['reaped'] and c['die_at'] is not None and c['die_at'] <= now]
        if not due: return None, None
        c = min(due, key=lambda x: (x['die_at'], x['pid'])); c['reaped'] = True
        del self.children[c['pid']]
        return c['pid'], c['sts']

    def crash_child(self, proc, sts):
        c = self.children.get(proc.pid)
        if c and not c['reaped'] and (c['die_at'] is None or c['die_at'] > T[0]):
            c['die_at'], c['sts'] = T[0], sts; self.wake = 0; return True
        return False

    # -- one iteration of supervisord's main loop (runforever without the sockets)
    def processes(self):
        return [(g, p) for g in self.supervisord.process_groups.values() for p in g.processes.values()]

    def pump(self):
        groups = list(self.supervisord.process_groups.values()); groups.sort()
        for group in groups: group.transition()
        self.supervisord.reap()
        self.wake = self.next_wake()

    def next_wake(self):
        nxt = None
        def upd(t):
            nonlocal nxt
            if nxt is None or t < nxt: nxt = t
        for c in self.children.values():
            if c['die_at'] is not None and not c['reaped']: upd(c['die_at'])
        for _, p in self.processes():
            st = p.state
            if st == ProcessStates.STARTING: upd(_now_units(p.laststart + p.config.startsecs) + 1)
            elif st == ProcessStates.BACKOFF: upd(_now_units(p.delay) + 1)
            elif st == ProcessStates.STOPPING: upd(_now_units(p.delay))
            elif st == ProcessStates.EXITED and p.config.autorestart and not getattr(p, 'obsolete', False) \
                    and not self.disabled(p):
                from supervisor.datatypes import RestartUnconditionally
                if p.config.autorestart is RestartUnconditionally or p.exitstatus not in p.config.exitcodes: upd(T[0] + 1)
            elif st == ProcessStates.STOPPED and not p.laststart and p.config.autostart and not self.disabled(p): upd(T[0] + 1)
        if nxt is None: return 1 << 60
        return max(nxt, T[0] + 1) + self.rnd.randint(0, 50)

    @staticmethod
    def disabled(p):
        sc = getattr(p, 'supvisors_config', None)
        return bool(sc is not None and sc.program_config.disabled)

    def table(self):
        return {make_namespec(g.config.name, p.config.name): p for g, p in self.processes()}


# ---------------------------------------------------------------------------------------------------------------------
# 2. the transport: XML-RPC between instances
class FreeServerProxy(FakeServerProxy):
    """ the call reaches the REAL interfaces of the target (`supvisors.*`: RPCInterface; `supervisor.*`: Supervisor's
        own namespace on the fake Supervisor) through `World.dispatch`, or fails atomically """
    def _check(self, name=''):
        tgt = self.net.instances.get(self.dst)
        if tgt is None or tgt.dead: raise ConnectionRefusedError('sim: nobody listens there')
        FakeServerProxy._check(self, name)

    def _supervisor(self, name, *args):
        self._check(name + ':' + (str(args[0])[:24] if args else '')); tgt = self.net.instances[self.dst]
        w = tgt.world; w.stats['served'][f'supervisor.{name}'] += 1
        if name == 'sendRemoteCommEvent':
            tgt.inbox.append((args[0], args[1])); return True
        if name not in ('stopProcess', 'restart', 'shutdown'): raise NotImplementedError(name)
        if name == 'stopProcess': w.stats['requests']['stop'] += 1
        return w.serve(tgt, f'supervisor.{name}', args)

    def _supvisors(self, name, *args):
        self._check(name); tgt = self.net.instances[self.dst]
        w = tgt.world; w.stats['served'][f'supvisors.{name}'] += 1
        if name == 'start_args':
            w.stats['requests']['start'] += 1
            ns = args[0]
            if w.blackhole(tgt, ns): return True     # behaviour 'never': the request is lost inside the target
        return w.serve(tgt, f'supvisors.{name}', args)


class FreeProxy(SimProxy):
    @property
    def proxy(self): return FreeServerProxy(self.net, self.supvisors.mapper.local_identifier, self.status.identifier)


class FreeProxyServer(SimProxyServer):
    klass = FreeProxy


# ---------------------------------------------------------------------------------------------------------------------
# 3. one instance
class FakeCollector:
    """ the statistics collector process, as seen through its pipes: plausible monotone counters """
    def __init__(self, sim, rnd):
        self.sim, self.rnd = sim, rnd; self.pids = {}; self.host_on = self.proc_on = True; self.period = 5.0
        self.last_host = self.last_proc = 0.0; self.work = [100.0, 90.0, 110.0]; self.idle = [1000.0, 1000.0, 1000.0]
        self.io = [1000, 2000]; self.pw = collections.Counter(); self.node_info = Mock(); self.calls = collections.Counter()
    def start(self): self.calls['start'] += 1
    def stop(self): self.calls['stop'] += 1
    def alive(self): self.calls['alive'] += 1
    def enable_host_statistics(self, e): self.host_on = bool(e)
    def enable_process_statistics(self, e): self.proc_on = bool(e)
    def update_collecting_period(self, p): self.period = p
    def send_pid(self, namespec, pid):
        self.calls['send_pid'] += 1
        if pid: self.pids[namespec] = pid
        elif namespec in self.pids: self.pids[namespec] = 0
    def get_host_stats(self):
        now = T[0] / UNIT
        if not self.host_on or not isinstance(self.period, (int, float)) or now - self.last_host < self.period: return
        self.last_host = now; r = self.rnd
        for i in range(3):
            self.work[i] += r.random() * 5; self.idle[i] += r.random() * 5 * r.choice([0, 1, 1])
        self.io[0] += r.randint(0, 5000); self.io[1] += r.randint(0, 5000)
        cpu = [(sum(self.work[1:]) / 2, sum(self.idle[1:]) / 2), (self.work[1], self.idle[1]), (self.work[2], self.idle[2])]
        self.sim.world.stats['ops']['host-statistics'] += 1
        yield {'now': now, 'cpu': cpu, 'mem': r.random() * 100, 'net_io': {'eth0': (self.io[0], self.io[1])},
               'disk_usage': {'/': 42.0}, 'disk_io': {'sda': (self.io[1], self.io[0])}}
    def get_process_stats(self):
        now = T[0] / UNIT
        if not self.proc_on or not isinstance(self.period, (int, float)) or now - self.last_proc < self.period: return
        self.last_proc = now
        for ns, pid in list(self.pids.items()):
            self.sim.world.stats['ops']['process-statistics'] += 1
            if pid == 0:
                del self.pids[ns]; yield {'namespec': ns, 'pid': 0, 'now': now}
            else:
                self.pw[ns] += self.rnd.random()
                yield {'namespec': ns, 'pid': pid, 'now': now, 'proc_work': self.pw[ns], 'proc_memory': self.rnd.random() * 10}


class acting:
    """ every operation of an instance runs with the host-dependent look-ups answering for its node """
    def __init__(self, sim): self.sim = sim
    def __enter__(self):
        self.old = (ACTIVE[0], CUR[0]); ACTIVE[0] = self.sim; CUR[0] = self.sim.node
    def __exit__(self, *exc):
        ACTIVE[0], CUR[0] = self.old; return False


class FreeSim(Sim):
    """ one complete Supvisors instance (the construction order is the one of supvisors.initializer.Supvisors) above
        its fake Supervisor """
    def __init__(self, world, k):
        cfg = world.cfg; inst = cfg['instances'][k]
        self.world = world; self.k = k; self.net = world.net; self.n = cfg['n']; self.node = inst['node']
        self.dead = False; self.started = False
        CUR[0] = self.node
        self.logger = RecLogger()
        self.fakesup = FakeSup(self, inst['conf'], inst['behaviours'], world.rnd)
        supervisord = self.supervisord = self.fakesup.supervisord
        self.options = SupvisorsOptions(supervisord, self.logger, **inst['opts'])
        self.server_options = SupvisorsServerOptions(self)
        for prim in ('fork', 'kill', 'waitpid', 'make_pipes', 'execve', 'setpgrp', 'dup2', 'daemonize'):
            setattr(self.server_options, prim, self._forbidden)
        self.server_options.realize(['-c', inst['conf']])
        self.supervisor_data = SupervisorData(self, supervisord); supervisord.supvisors = self
        self.supervisor_data._supervisor_rpc_interface = self.fakesup.rpc
        self.supervisor_data._system_rpc_interface = Mock(name='system_rpc')
        self.supervisor_updater = SupervisorUpdater(self)
        self.mapper = SupvisorsMapper(self)
        self.mapper.configure(self.options.supvisors_list, self.options.stereotypes, self.options.core_identifiers)
        self.stats_collector = FakeCollector(self, world.rnd) if inst['stats'] else None
        self.host_compiler = HostStatisticsCompiler(self); self.process_compiler = ProcStatisticsCompiler(self.options, self.logger)
        self.discovery_handler = None; self.external_publisher = None
        self.state_modes = SupvisorsStateModes(self); self.context = Context(self)
        self.starter = Starter(self); self.stopper = Stopper(self); self.starter_model = StarterModel(self)
        self.failure_handler = RunningFailureHandler(self)
        try:
            self.parser = Parser(self)
        except Exception:
            self.parser = None           # initializer: "cannot parse rules files"
        self.listener = SupervisorListener(self); self.fsm = FiniteStateMachine(self)
        self.rpc_handler = RpcHandler(self); self.rpc_handler.proxy_server = FreeProxyServer(self, self.net)
        self.sessions = Mock(); self.rpc = RPCInterface(self)
        self.supervisor_data._supvisors_rpc_interface = self.rpc
        self.root = types.SimpleNamespace(supvisors=self.rpc, supervisor=self.fakesup.rpc)
        self.inbox = []; self.orders = []; self.fake = None
        self.identifier = self.mapper.local_identifier
        self.ids = list(self.mapper.instances)
        self.idx = {ident: i for i, ident in enumerate(self.mapper.instances)}
        self.net.instances[self.identifier] = self
        self.listener.counter = 0
        # observation points of clause 5 (the periodic evaluation keeps running)
        self.tick_pubs = 0; self.evals = 0; self.tb_before = False; self.forged = 0; self.tainted = False
        h = self.rpc_handler; orig_tick = h.send_tick_event
        def send_tick(payload): self.tick_pubs += 1; return orig_tick(payload)
        h.send_tick_event = send_tick
        orig_timer = self.fsm.on_timer_event
        def on_timer(event): r = orig_timer(event); self.evals += 1; return r
        self.fsm.on_timer_event = on_timer
        _install_router()

    @staticmethod
    def _forbidden(*a, **k): raise _Forbidden('real OS primitive through SupvisorsServerOptions')

    def acting(self): return acting(self)


def _route(event):
    """ supervisor.events.notify, restricted to the subscriptions of the listener of the instance that owns the process
        (N Supervisors share this interpreter) """
    proc = getattr(event, 'process', None)
    owner = getattr(proc.config.options, 'owner', None) if proc is not None and hasattr(proc, 'config') else ACTIVE[0]
    if owner is None or owner.dead: return
    for cls, callback in list(sevents.callbacks):
        if isinstance(event, cls) and getattr(callback, '__self__', None) is owner.listener:
            owner.world.listener_entry(owner, callback.__name__, event)


import supvisors.supervisordata as _sd
_ORIG_NOTIFY = (sevents.notify, _sd.notify)


def _install_router():
    sevents.notify = _route; _sd.notify = _route


def _remove_router():
    sevents.notify, _sd.notify = _ORIG_NOTIFY


def _drop_subscriptions(sim):
    sevents.callbacks[:] = [(t, c) for t, c in sevents.callbacks if getattr(c, '__self__', None) is not sim.listener]


# ---------------------------------------------------------------------------------------------------------------------
# 4. generated configuration: instances / nodes, Supvisors options, Supervisor configurations, rules file
SYNC_CHOICES = ['LIST', 'STRICT', 'TIMEOUT', 'STRICT,TIMEOUT,CORE', 'CORE', 'USER', 'LIST,USER', 'TIMEOUT,CORE', 'LIST,TIMEOUT']
BEHAVIOURS = ['ok'] * 12 + ['slow', 'slow', 'fatal', 'fatal', 'flaky', 'flaky', 'exit', 'exit', 'exit', 'crash', 'crash', 'crash', 'stuck',
                            'slowstop', 'slowstop', 'never', 'nofile', 'forkfail']
FORMULAS = ['all("{p}.*")', 'any("{p}.*")', '"{a}" and "{b}"', '"{a}" or not "{b}"', 'all("{p}.*") and "{a}"', 'any("nothing")',
            '"{a}"', 'not "{a}"', 'any("{p}.*") or all(".*")', 'all(".*")', '"{a}" and', 'os.system("x")', 'all()', '"("', '1 + 1',
            'any("{a}", "{b}")', 'import os']


def gen_config(rnd, workdir):
    n = rnd.randint(2, 4); m = rnd.randint(1, min(3, n))
    node = {k: rnd.randint(1, m) for k in range(1, n + 1)}
    use_nick = rnd.random() < 0.6
    ident = {k: f'10.0.0.{node[k]}:{25000 + k}' for k in node}
    nick = {k: (f'sv{k}' if use_nick else ident[k]) for k in node}
    item = {k: (f'<{nick[k]}>{ident[k]}' if use_nick else ident[k]) for k in node}
    stereo = {k: (rnd.choice(['blue', 'red', 'blue,red', '']) if rnd.random() < 0.4 else '') for k in node}
    so = rnd.choice(SYNC_CHOICES)
    core = ','.join(nick[k] for k in sorted(rnd.sample(sorted(node), rnd.randint(1, n)))) if 'CORE' in so or rnd.random() < 0.3 else ''
    base = {'supvisors_list': ','.join(item[k] for k in sorted(node)), 'rules_files': os.path.join(workdir, 'rules.xml'),
            'synchro_options': so, 'synchro_timeout': str(rnd.choice([15, 20, 30])), 'inactivity_ticks': str(rnd.choice([2, 2, 3])),
            'core_identifiers': core, 'auto_fence': rnd.choice(['false', 'true']),
            'starting_strategy': rnd.choice([s.name for s in StartingStrategies]),
            'conciliation_strategy': rnd.choice([s.name for s in ConciliationStrategies]),
            'supvisors_failure_strategy': rnd.choice(['CONTINUE', 'CONTINUE', 'RESYNC', 'SHUTDOWN']),
            'stats_enabled': 'false', 'stats_collecting_period': '5', 'stats_periods': '5,15', 'stats_histo': '10'}
    stats = rnd.random() < 0.25
    if stats: base['stats_enabled'] = rnd.choice(['true', 'host', 'process', 'all'])
    # programs: managed applications app_1.., one unmanaged group, sometimes a program outside any group
    programs = {}; groups = {}
    napps = rnd.randint(1, 3)
    def mkprog(name, group):
        multi = rnd.random() < 0.3
        programs[name] = {'group': group, 'numprocs': rnd.randint(2, 3) if multi else 1, 'multi': multi,
                          'autostart': rnd.random() < 0.12, 'autorestart': rnd.choice(['false', 'false', 'unexpected', 'true']),
                          'startsecs': rnd.choice([0, 1, 1, 2, 5]), 'stopwaitsecs': rnd.choice([1, 2, 5]),
                          'startretries': rnd.choice([0, 1, 2]), 'slowsecs': rnd.choice([8, 12])}
        if group: groups.setdefault(group, []).append(name)
    for a in range(1, napps + 1):
        for j in range(rnd.randint(1, 3)): mkprog(f'a{a}p{j}', f'app_{a}')
    for j in range(rnd.randint(1, 2)): mkprog(f'up{j}', 'umg')
    if rnd.random() < 0.4: mkprog('solo', None)
    def procnames(name, numprocs=None):
        p = programs[name]; np_ = numprocs or p['numprocs']
        return [f'{name}_{i:02d}' for i in range(np_)] if p['multi'] else [name]
    # per instance: known programs, disabled programs, behaviours, numprocs deviations
    instances = {}
    for k in sorted(node):
        known = [p for p in programs if rnd.random() < 0.8]
        if not known and rnd.random() < 0.8: known = [rnd.choice(sorted(programs))]
        disabled = {p: True for p in known if rnd.random() < 0.08}
        beh = {p: rnd.choice(BEHAVIOURS) for p in known}
        nump = {p: (rnd.randint(1, 3) if programs[p]['multi'] and rnd.random() < 0.2 else programs[p]['numprocs']) for p in known}
        opts = dict(base); opts['stereotypes'] = stereo[k]
        opts['disabilities_file'] = os.path.join(workdir, f'dis{k}.json')
        if rnd.random() < 0.04:       # an instance configured differently: refused at the handshake
            which = rnd.choice(['auto_fence', 'starting_strategy', 'conciliation_strategy', 'supvisors_failure_strategy'])
            alt = {'auto_fence': ['false', 'true'], 'starting_strategy': ['CONFIG', 'LESS_LOADED', 'LOCAL'],
                   'conciliation_strategy': ['USER', 'STOP', 'SENICIDE'], 'supvisors_failure_strategy': ['CONTINUE', 'RESYNC', 'SHUTDOWN']}[which]
            opts[which] = rnd.choice([x for x in alt if x != base[which]] or alt)
        conf = os.path.join(workdir, f'supervisord{k}.conf')
        instances[k] = {'node': node[k], 'ident': ident[k], 'nick': nick[k], 'item': item[k], 'opts': opts, 'conf': conf,
                        'known': known, 'disabled': disabled, 'behaviours': beh, 'numprocs': nump, 'stats': stats,
                        'port': 25000 + k, 'extra_groups': []}
        with open(opts['disabilities_file'], 'w') as f: json.dump(disabled, f)
        write_supervisord_conf(workdir, k, instances[k], programs, groups)
    # rules file
    names = sorted(set(nick.values())) + ['blue', 'red']
    def idlist(allow_sign):
        r = rnd.random()
        if r < 0.35: return '*'
        if r < 0.5 and allow_sign: return rnd.choice(['#', '#,' + ','.join(rnd.sample(sorted(set(nick.values())), rnd.randint(1, n))), '@,blue', '#,*'])
        if r < 0.58: return 'al1'
        if r < 0.62: return 'nowhere'
        return ','.join(rnd.sample(names, rnd.randint(1, min(3, len(names)))))
    xml = ['<?xml version="1.0" encoding="UTF-8" standalone="no"?>', '<root>']
    xml.append(f'<alias name="al1">{",".join(rnd.sample(sorted(set(nick.values())), rnd.randint(1, n)))}</alias>')
    rfs = [s.name for s in RunningFailureStrategies]; rfs_w = rfs[:4] * 4 + rfs
    xml.append(f'<model name="m1"><start_sequence>{rnd.randint(0, 2)}</start_sequence><required>{rnd.choice(["true", "false"])}</required>'
               f'<expected_loading>{rnd.choice([0, 10, 40])}</expected_loading><running_failure_strategy>{rnd.choice(rfs_w)}</running_failure_strategy></model>')
    xml.append('<model name="m2"><reference>m1</reference><identifiers>*</identifiers><wait_exit>true</wait_exit></model>')
    rules_apps = {}
    managed = [f'app_{a}' for a in range(1, napps + 1)] + (['solo'] if 'solo' in programs and rnd.random() < 0.5 else [])
    for an in managed:
        progs = groups.get(an, ['solo'] if an == 'solo' else [])
        parts = []
        def opt(p, s):
            if rnd.random() < p: parts.append(s)
        opt(0.5, f'<distribution>{rnd.choice([d.name for d in DistributionRules])}</distribution>')
        opt(0.4, f'<identifiers>{idlist(True)}</identifiers>')
        opt(0.85, f'<start_sequence>{rnd.choice([0, 1, 1, 2, 3])}</start_sequence>')
        opt(0.5, f'<stop_sequence>{rnd.choice([0, 1, 2])}</stop_sequence>')
        opt(0.5, f'<starting_strategy>{rnd.choice([s.name for s in StartingStrategies])}</starting_strategy>')
        opt(0.5, f'<starting_failure_strategy>{rnd.choice([s.name for s in StartingFailureStrategies])}</starting_failure_strategy>')
        opt(0.5, f'<running_failure_strategy>{rnd.choice(rfs_w)}</running_failure_strategy>')
        if rnd.random() < 0.35 and progs:
            f = rnd.choice(FORMULAS).format(p=progs[0][:3], a=procnames(progs[0])[0], b=procnames(progs[-1])[-1])
            parts.append('<operational_status>' + f.replace('&', '&amp;').replace('<', '&lt;') + '</operational_status>')
        pp = []
        for pn in progs:
            if rnd.random() < 0.1: continue          # a program without rules
            q = []
            def popt(p, s):
                if rnd.random() < p: q.append(s)
            pat = programs[pn]['multi'] or rnd.random() < 0.15
            popt(0.15, f'<reference>{rnd.choice(["m1", "m2", "m3"])}</reference>')
            popt(0.6, f'<identifiers>{idlist(pat)}</identifiers>')
            popt(0.8, f'<start_sequence>{rnd.choice([0, 1, 1, 2, 2, 3])}</start_sequence>')
            popt(0.5, f'<stop_sequence>{rnd.choice([0, 1, 2, 3])}</stop_sequence>')
            popt(0.6, f'<required>{rnd.choice(["true", "false"])}</required>')
            popt(0.2, f'<wait_exit>{rnd.choice(["true", "false"])}</wait_exit>')
            popt(0.7, f'<expected_loading>{rnd.choice([0, 5, 10, 30, 50, 70, 100])}</expected_loading>')
            popt(0.3, f'<starting_failure_strategy>{rnd.choice([s.name for s in StartingFailureStrategies])}</starting_failure_strategy>')
            popt(0.6, f'<running_failure_strategy>{rnd.choice(rfs_w)}</running_failure_strategy>')
            rnd.shuffle(q)
            attr = f'pattern="{pn}"' if pat else f'name="{pn}"'
            pp.append(f'<program {attr}>{"".join(q)}</program>')
        parts.append(f'<programs>{"".join(pp)}</programs>')
        rnd.shuffle(parts)
        attr = f'pattern="{an[:-1]}"' if rnd.random() < 0.1 else f'name="{an}"'
        xml.append(f'<application {attr}>{"".join(parts)}</application>')
        rules_apps[an] = progs
    xml.append('</root>')
    if rnd.random() < 0.02: xml.insert(2, '<bogus/>')     # refused by the XSD: Supvisors runs without rules
    with open(base['rules_files'], 'w') as f: f.write('\n'.join(xml))
    return {'n': n, 'nodes': m, 'instances': instances, 'programs': programs, 'groups': groups, 'managed': managed,
            'base': base, 'procnames': {p: procnames(p) for p in programs}, 'rules': '\n'.join(xml), 'workdir': workdir}


def write_supervisord_conf(workdir, k, inst, programs, groups):
    c = [f'[inet_http_server]\nport=10.0.0.{inst["node"]}:{inst["port"]}\n',
         f'[supervisord]\nlogfile={workdir}/supervisord{k}.log\npidfile={workdir}/supervisord{k}.pid\nchildlogdir={workdir}\n'
         f'nodaemon=true\nidentifier={inst["nick"] if ":" not in inst["nick"] else "supervisor"}\n']
    for name in inst['known']:
        p = programs[name]; beh = inst['behaviours'][name]
        cmd = '/sim/missing/prog' if beh == 'nofile' else f'/sim/bin/{name} --serve'
        c.append(f'[program:{name}]\ncommand={cmd}\nautostart={str(p["autostart"]).lower()}\nautorestart={p["autorestart"]}\n'
                 f'startsecs={p["slowsecs"] if beh == "slow" else p["startsecs"]}\nstopwaitsecs={p["stopwaitsecs"]}\n'
                 f'startretries={p["startretries"]}\nstdout_logfile=NONE\nstderr_logfile=NONE\n'
                 + (f'process_name=%(program_name)s_%(process_num)02d\nnumprocs={inst["numprocs"][name]}\n' if p['multi'] else ''))
    for g, members in groups.items():
        mine = [x for x in members if x in inst['known']]
        if mine: c.append(f'[group:{g}]\nprograms={",".join(mine)}\n')
    for extra in inst['extra_groups']: c.append(extra)
    with open(inst['conf'], 'w') as f: f.write('\n'.join(c))


# ---------------------------------------------------------------------------------------------------------------------
# 5. the world: scheduler, actions, faults, judge
class _Unmarshallable(Exception):
    """ the value returned by an XML-RPC method cannot be marshalled by Supervisor's handler (HTTP 500) """


class _MaskedTypeError(Exception):
    """ a TypeError left an XML-RPC method called with well-typed parameters (Supervisor answers INCORRECT_PARAMETERS) """


class _Http500(xmlrpclib.ProtocolError):
    """ the answer of Supervisor's XML-RPC handler when the method raised anything else than RPCError """


class _Abort(BaseException):
    """ the schedule cannot go on (an operation hung: the state of the real objects is undefined; or one internal error
        repeats at every operation) """


GARBAGE_STR = ['', 'nope', '*', ':', 'a:b:c', 'app_1:', ':x', 'app_9:zz', '10.0.0.9:25000', '(', '[', 'app_1:*:*', ' ', '#', '@']
GARBAGE_ANY = [0, -1, 17, 2.5, True, [], ['app_1'], {}, {'a': 1}, [1, 2]]


class World:
    def __init__(self, seed, rnd, cfg, kw):
        self.seed, self.rnd, self.cfg, self.kw = seed, rnd, cfg, kw
        self.net = Net(); self.sims = {}
        self.findings = []; self.sigs = {}; self.harness_errors = []
        self.log = collections.deque(maxlen=60); self.verbose = kw.get('verbose', False)
        self.deferred = []; self.held = {}; self.history = {k: [] for k in cfg['instances']}
        self.next_tick = {}; self.reboot_at = {}; self.wd = kw.get('watchdog', 10)
        self.allow_new_programs = rnd.random() < kw.get('new_programs', 0.15)
        C = collections.Counter
        self.stats = {'ops': C(), 'rpc': C(), 'rpc_outcome': C(), 'pev': C(), 'listener': C(), 'served': C(), 'requests': C(),
                      'fsm': C(), 'faults': C(), 'manual': C(), 'deferred': C(), 'tracebacks': 0, 'forged': C(), 'served_outcome': C(),
                      'instance_states': C(), 'app_states': C(), 'typeerror': C()}

    # ---- findings
    def note(self, txt):
        self.log.append(f't={T[0] / UNIT:.2f} {txt}')
        if self.verbose: print(self.log[-1])

    def finding(self, sig, what):
        self.stats['ops']['finding'] += 1
        if sig in self.sigs:
            self.sigs[sig] += 1
            if self.sigs[sig] > 400: raise _Abort()
            return
        self.sigs[sig] = 1
        ctx = ' | '.join(list(self.log)[-12:])
        self.findings.append((sig, f'{what}\n   last operations: {ctx}'))
        if self.verbose: print('FINDING', sig, what)

    def harness_error(self, where, exc_text):
        if len(self.harness_errors) < 20: self.harness_errors.append((where, exc_text))
        if self.verbose: print('HARNESS ERROR', where, exc_text)

    def collect(self, where):
        """ clause 1: critical records carrying a traceback, on any instance """
        for s in list(self.sims.values()):
            for tb in s.take_tracebacks():
                if _harness_frame_innermost(tb):
                    self.harness_error(f'logged by instance {s.k} during {where}', tb); continue
                self.stats['tracebacks'] += 1; s.tb_before = True
                tail = '\n'.join(tb.strip().split('\n')[-7:])
                taint = ' [TAINTED: a listener event contradicting the Supervisor state was forged earlier in this schedule]' \
                    if any(x.tainted for x in self.sims.values()) else ''
                self.finding(f'C16:traceback:{tb_signature(tb)}',
                             f'instance {s.k} ({where}; forged listener events so far on it: {s.forged}){taint}: {tail}')
            del s.logger.crit[:]; del s.logger.errors[:]

    def guarded(self, sim, where, fn, *args, kind='escaped'):
        """ run one implementation operation of `sim`; returns (ok, result) """
        self.stats['ops'][where.split()[0]] += 1
        try:
            with watchdog(self.wd), sim.acting():
                return True, fn(*args)
        except Hang:
            self.finding(f'C16:hang:{where.split()[0]}', f'instance {sim.k}: {where} did not return within {self.wd}s')
            raise _Abort()
        except (_Forbidden, NotImplementedError) as e:
            self.harness_error(where, traceback.format_exc()); return False, None
        except _Http500 as e:
            self.finding('C16:escaped:ProtocolError@xml_rpc', f'instance {sim.k}: {where}: SupervisorProxy.xml_rpc does not catch xmlrpc ProtocolError: '
                         f'{e.errmsg} - consequence of the rpc-exception finding on the target: the proxy thread of instance {sim.k} dies')
            return False, None
        except Exception as e:
            tb = traceback.format_exc()
            if _harness_frame_innermost(tb): self.harness_error(where, tb)
            else: self.finding(f'C16:{kind}:{tb_signature(tb)}', f'instance {sim.k}: exception out of {where}: ' + '\n'.join(tb.strip().split('\n')[-7:]))
            return False, None
        finally:
            self.collect(where)
            T[0] += 1          # an operation takes time: two operations never carry the same time stamp

    def listener_entry(self, sim, entry, event):
        """ a Supervisor event reaches a listener entry point (possibly nested in another operation) """
        self.stats['listener'][entry] += 1
        if entry == 'on_process_state':
            name = getProcessStateDescription(event.process.state) if isinstance(event.process.state, int) else str(event.process.state)
            self.stats['pev'][name] += 1
            self.note(f'  [{sim.k}] pev {event.process.config.name} -> {name}')
        else:
            self.note(f'  [{sim.k}] {entry} {getattr(event, "group", None) or event.process.config.name}')
        try:
            with sim.acting(): getattr(sim.listener, entry)(event)
        except Exception:
            tb = traceback.format_exc()
            self.finding(f'C16:escaped:{tb_signature(tb)}', f'instance {sim.k}: exception out of listener.{entry}: ' + '\n'.join(tb.strip().split('\n')[-7:]))

    # ---- XML-RPC: what Supervisor's HTTP / XML-RPC handler does with a request
    def dispatch(self, tgt, dotted, params):
        """ parameters and result go through the real XML-RPC marshalling; the method is reached through the real
            `supervisor.xmlrpc.traverse` (unknown / private methods refused; a TypeError leaving the method is answered
            with the documented fault INCORRECT_PARAMETERS).  That answer is only accepted as such when a parameter does
            not have its documented type; with well-typed parameters the TypeError is an internal error that the
            dispatcher masks: it is re-raised as `_MaskedTypeError` (a finding).
            Returns ('value', v) or ('deferred', callable); raises RPCError (a Fault for the caller) or whatever else left
            the method (HTTP 500 for the caller). """
        params = xmlrpclib.loads(xmlrpclib.dumps(tuple(params)))[0]
        with tgt.acting():
            try:
                value = sxmlrpc.traverse(tgt.root, dotted, params)
            except RPCError as e:
                cause = e.__context__
                if e.code == Faults.INCORRECT_PARAMETERS and isinstance(cause, TypeError):
                    tb = ''.join(traceback.format_exception(type(cause), cause, cause.__traceback__))
                    self.stats['typeerror'][f'{dotted}:{"well-typed" if well_typed(dotted, params) else "ill-typed"}:{tb_signature(tb)}'] += 1
                    if well_typed(dotted, params) or not self.kw.get('typeerror_is_fault', True):
                        raise _MaskedTypeError(tb)
                raise
        if isinstance(value, types.FunctionType): return 'deferred', value
        try:
            body = sxmlrpc.xmlrpc_marshal(value)
        except Exception as e:
            raise _Unmarshallable(f'{type(e).__name__}: {e}; value={value!r:.300}')
        return 'value', xmlrpclib.loads(body)[0][0]

    def serve(self, tgt, name, args):
        """ an XML-RPC sent by the proxy of a peer (or of the instance itself) """
        try:
            kind, res = self.dispatch(tgt, name, args)
        except RPCError as e:
            self.stats['served_outcome'][f'{name}:fault:{e.code}'] += 1
            tgt.fakesup.wake = 0
            raise
        except Hang: raise
        except _MaskedTypeError as e:
            tb = str(e)
            self.finding(f'C16:rpc-exception:{name.split(".")[1]}:TypeError',
                         f'instance {tgt.k} serving {name}{tuple(args)} (well-typed parameters) to a peer; Supervisor answers '
                         'INCORRECT_PARAMETERS: ' + '\n'.join(tb.strip().split('\n')[-7:]))
            self.stats['served_outcome'][f'{name}:exception:TypeError'] += 1
            raise RPCError(Faults.INCORRECT_PARAMETERS)
        except Exception as e:
            tb = traceback.format_exc()
            if name.startswith('supvisors.') and (isinstance(e, _Unmarshallable) or not _harness_frame_innermost(tb)):
                cls = 'marshal' if isinstance(e, _Unmarshallable) else type(e).__name__
                self.finding(f'C16:rpc-exception:{name.split(".")[1]}:{cls}',
                             f'instance {tgt.k} serving {name}{tuple(args)} to a peer: ' + '\n'.join(tb.strip().split('\n')[-7:]))
                self.stats['served_outcome'][f'{name}:exception:{cls}'] += 1
                # what the caller gets from Supervisor's XML-RPC handler is HTTP 500, which xmlrpc turns into ProtocolError
                raise _Http500(f'10.0.0.{tgt.node}:{tgt.cfgport}/RPC2', 500, f'Internal Server Error ({name} raised {cls} on instance {tgt.k})', {})
            self.harness_error(f'serve {name}', tb)
            raise ConnectionResetError('sim: harness error while serving')
        self.stats['served_outcome'][f'{name}:ok'] += 1
        tgt.fakesup.wake = 0
        return True if kind == 'deferred' else res      # internal requests never wait

    def blackhole(self, tgt, ns):
        """ behaviour 'never': the start request is accepted and nothing ever happens """
        p = tgt.fakesup.table().get(ns) if isinstance(ns, str) else None
        return p is not None and tgt.fakesup.behaviour(p) == 'never' 

    # ---- instance life cycle
    def boot(self, k):
        old = self.sims.get(k)
        if old is not None: old.dead = True; _drop_subscriptions(old)
        try:
            with watchdog(self.wd):
                s = FreeSim(self, k)
        except Hang:
            self.finding('C16:hang:boot', f'instance {k}: construction did not return'); raise _Abort()
        s.cfgport = self.cfg['instances'][k]['port']
        self.sims[k] = s; self.net.down.discard(s.identifier)
        self.next_tick[k] = T[0] + self.rnd.randint(1, PERIOD); self.reboot_at.pop(k, None)
        self.stats['ops']['boot'] += 1; self.note(f'[{k}] boot')
        # supervisord opens its HTTP servers (the Supvisors plugin is created there) and enters its main loop at once:
        # SupervisorRunningEvent comes first
        s.started = True
        # liveness bookkeeping (C09 / C10 judges of the quiet phase): date of the last start / stop request sent, date of the last FSM state change
        s.last_request = T[0]; s.state_since = T[0]; s.state_seen = s.fsm.state
        for nm in ('send_start_process', 'send_stop_process'):
            orig = getattr(s.rpc_handler, nm)
            def wrapped(*a, _orig=orig, _s=s, **k_):
                _s.last_request = T[0]
                return _orig(*a, **k_)
            setattr(s.rpc_handler, nm, wrapped)
        self.guarded(s, 'on_running', s.listener.on_running, None)
        return s

    def live(self): return [s for s in self.sims.values() if not s.dead and s.identifier not in self.net.down]
    def sims_by_ident(self, ident): return next(s for s in self.sims.values() if s.identifier == ident and not s.dead)

    def go_down(self, s, why):
        _drop_subscriptions(s)
        s.dead = True; self.net.down.add(s.identifier); self.note(f'[{s.k}] down ({why})')
        self.deferred = [d for d in self.deferred if d[0] is not s]

    def supervisor_stopping(self, s, mood):
        """ supervisord leaves RUNNING (supervisor.restart / shutdown): SupervisorStoppingEvent first, then everything dies """
        self.guarded(s, 'on_stopping', s.listener.on_stopping, None)
        self.go_down(s, 'restart' if mood == SupervisorStates.RESTARTING else 'shutdown')
        self.stats['ops']['sup-restart' if mood == SupervisorStates.RESTARTING else 'sup-shutdown'] += 1
        if mood == SupervisorStates.RESTARTING or self.rnd.random() < 0.4:
            self.reboot_at[s.k] = T[0] + self.rnd.randint(2 * UNIT, 30 * UNIT)

    # ---- scheduler steps
    def tick(self, s):
        pre, pubs, evals = s.tb_before, s.tick_pubs, s.evals
        s.tb_before = False
        ev = Mock(); ev.when = 1.0e6 + T[0] / UNIT
        self.note(f'[{s.k}] tick {s.listener.counter} fsm={s.fsm.state.name}')
        self.guarded(s, 'tick', s.listener.on_tick, ev)
        if pre and not (s.tick_pubs > pubs and s.evals > evals):
            self.finding('C16:tick-stopped', f'instance {s.k}: the tick following a traceback did not '
                         f'{"publish its TICK" if s.tick_pubs == pubs else "complete the periodic evaluation"}')
        self.stats['fsm'][s.fsm.state.name] += 1
        if getattr(s, 'state_seen', None) != s.fsm.state: s.state_seen = s.fsm.state; s.state_since = T[0]
        s.last_tick = T[0]
        for st in s.context.instances.values(): self.stats['instance_states'][st.state.name] += 1
        for app in s.context.applications.values(): self.stats['app_states'][app.state.name] += 1

    def deliver(self, s):
        typ, data = s.inbox.pop(0)
        h = self.history[s.k]; h.append((typ, data))
        if len(h) > 200: del h[:100]
        ev = Mock(); ev.type = typ; ev.data = data
        self.guarded(s, 'deliver', s.listener.on_remote_event, ev)

    def proxy_step(self, s, p):
        self.guarded(s, f'proxy-step to {s.idx.get(p.status.identifier)}', p.step)

    def pump(self, s):
        if s.fakesup.options.mood < SupervisorStates.RUNNING:
            return self.supervisor_stopping(s, s.fakesup.options.mood)
        ok, _ = self.guarded(s, 'supervisord-loop', s.fakesup.pump, kind='escaped')
        if not ok and not s.dead:
            # nothing guards supervisord's main loop: the daemon dies
            self.go_down(s, 'supervisord crashed'); self.stats['ops']['supervisord-crash'] += 1
            if self.rnd.random() < 0.5: self.reboot_at[s.k] = T[0] + self.rnd.randint(2 * UNIT, 30 * UNIT)

    # ---- user side
    def user_rpc(self, s, method, args):
        self.stats['rpc'][method] += 1
        self.note(f'[{s.k}] rpc {method}{tuple(args)!r:.80} fsm={s.fsm.state.name}')
        outcome = None; res = None; kind = None
        try:
            with watchdog(self.wd):
                kind, res = self.dispatch(s, f'supvisors.{method}', args)
            outcome = 'deferred' if kind == 'deferred' else 'ok'
        except RPCError as e:
            outcome = f'fault:{e.code}'
        except Hang:
            self.finding(f'C16:hang:rpc:{method}', f'instance {s.k}: XML-RPC {method}{tuple(args)} did not return'); raise _Abort()
        except _MaskedTypeError as e:
            outcome = 'exception:TypeError'
            self.finding(f'C16:rpc-exception:{method}:TypeError',
                         f'instance {s.k} in {s.fsm.state.name}: {method}{tuple(args)!r} (well-typed parameters; Supervisor answers '
                         'INCORRECT_PARAMETERS): ' + '\n'.join(str(e).strip().split('\n')[-7:]))
        except Exception as e:
            tb = traceback.format_exc(); cls = 'marshal' if isinstance(e, _Unmarshallable) else type(e).__name__
            outcome = f'exception:{cls}'
            if not isinstance(e, _Unmarshallable) and _harness_frame_innermost(tb): self.harness_error(f'rpc {method}', tb)
            else:
                # one root cause, one signature: the XML-RPC methods do not type-check their parameters (a namespec that is not a
                # string is dereferenced by split_namespec ...); with well-typed parameters the method is part of the signature
                illtyped = not isinstance(e, _Unmarshallable) and not well_typed(f'supvisors.{method}', xmlrpclib.loads(xmlrpclib.dumps(tuple(args)))[0])
                self.finding(f'C16:rpc-exception:ill-typed-parameter:{cls}' if illtyped else f'C16:rpc-exception:{method}:{cls}',
                             f'instance {s.k} in {s.fsm.state.name}: {method}{tuple(args)!r}: ' + '\n'.join(tb.strip().split('\n')[-7:]))
        finally:
            self.collect(f'rpc {method}')
            T[0] += 1
        self.stats['rpc_outcome'][outcome] += 1
        self.stats['rpc_outcome'][f'{method}:{outcome.split(":")[0]}'] += 1
        if kind == 'deferred':
            self.deferred.append([s, method, res, T[0] + UNIT // 2, T[0] + self.rnd.randint(5, 40) * UNIT, tuple(args)])
        s.fakesup.wake = 0

    def poll_deferred(self):
        for d in list(self.deferred):
            s, method, fn, due, give_up, args = d
            if s.dead or T[0] >= give_up:
                self.deferred.remove(d); self.stats['deferred']['abandoned'] += 1; continue
            if due > T[0]: continue
            d[3] = T[0] + UNIT // 2
            try:
                with watchdog(self.wd), s.acting(): r = fn()
            except RPCError as e:
                self.deferred.remove(d); self.stats['deferred'][f'fault:{e.code}'] += 1
            except Hang:
                self.finding(f'C16:hang:rpc:{method}', f'instance {s.k}: deferred part of {method} did not return'); raise _Abort()
            except Exception as e:
                self.deferred.remove(d); tb = traceback.format_exc()
                if _harness_frame_innermost(tb): self.harness_error(f'deferred {method}', tb)
                else:
                    self.finding(f'C16:rpc-exception:{method}:{type(e).__name__}',
                                 f'instance {s.k}: deferred part (onwait) of {method}{args!r}: ' + '\n'.join(tb.strip().split('\n')[-7:]))
                self.stats['deferred'][f'exception:{type(e).__name__}'] += 1
            else:
                if r is not NOT_DONE_YET:
                    self.deferred.remove(d); self.stats['deferred']['done'] += 1
            finally:
                self.collect(f'deferred {method}')


def _harness_frame_innermost(tb):
    """ True when the exception was raised by a frame of the harness (a fake), not by supvisors / supervisor code """
    frames = [l for l in tb.split('\n') if l.strip().startswith('File "')]
    if not frames: return False
    last = frames[-1]
    return '/harness/' in last or 'unittest/mock' in last


# ---- documented parameter types of the XML-RPC interface (e: enumeration given as string or integer, s: string, b: boolean,
#      i: integer, n: number); missing trailing parameters have defaults
SIGNATURES = {'get_instance_state_modes': 's', 'get_network_info': 's', 'get_instance_info': 's', 'get_application_info': 's',
              'get_application_rules': 's', 'get_process_info': 's', 'get_local_process_info': 's', 'get_all_inner_process_info': 's',
              'get_inner_process_info': 'ss', 'get_process_rules': 's', 'start_application': 'esb', 'test_start_application': 'es',
              'stop_application': 'sb', 'restart_application': 'esb', 'start_args': 'ssb', 'start_process': 'essb',
              'test_start_process': 'es', 'start_any_process': 'essb', 'stop_process': 'sb', 'restart_process': 'essb',
              'update_numprocs': 'sibb', 'enable': 'sb', 'disable': 'sb', 'conciliate': 'e', 'restart_sequence': 'b', 'end_sync': 's',
              'change_log_level': 'e', 'enable_host_statistics': 'b', 'enable_process_statistics': 'b', 'update_collecting_period': 'n'}
_TYPE_OK = {'s': lambda x: isinstance(x, str), 'b': lambda x: isinstance(x, bool) or (isinstance(x, int) and x in (0, 1)),
            'e': lambda x: isinstance(x, str) or (isinstance(x, int) and not isinstance(x, bool)),
            'i': lambda x: isinstance(x, int) and not isinstance(x, bool), 'n': lambda x: isinstance(x, (int, float)) and not isinstance(x, bool)}


def well_typed(dotted, params):
    ns, meth = dotted.split('.')
    if ns != 'supvisors': return True
    sig = SIGNATURES.get(meth, '')
    return len(params) <= len(sig) and all(_TYPE_OK[t](x) for t, x in zip(sig, params))


# ---- argument generators for the XML-RPC interface
def _pick(rnd, valid, p_garbage=0.12, p_type=0.025):
    r = rnd.random()
    if r < p_type: return rnd.choice(GARBAGE_ANY)
    if r < p_type + p_garbage or not valid: return rnd.choice(GARBAGE_STR)
    return rnd.choice(valid)


def gen_rpc(w, s):
    rnd = w.rnd; cfg = w.cfg
    idents = [i['ident'] for i in cfg['instances'].values()] + [i['nick'] for i in cfg['instances'].values()] + ['blue', 'red']
    apps = sorted(set(list(cfg['groups']) + list(s.context.applications) + (['solo'] if 'solo' in cfg['programs'] else [])))
    nss = []
    for p, names in cfg['procnames'].items():
        g = cfg['programs'][p]['group'] or p
        nss += [f'{g}:{x}' for x in names]
    nss += [f'{a}:*' for a in apps]
    nss += [p.namespec for app in s.context.applications.values() for p in app.processes.values()]
    progs = sorted(cfg['programs'])
    strat = lambda: _pick(rnd, [x.name for x in StartingStrategies] + [x.value for x in StartingStrategies], 0.05, 0.025)
    wait = lambda: rnd.choice([False, False, True, True, 0, 1]) if rnd.random() < 0.97 else rnd.choice(GARBAGE_ANY + ['x'])
    extra = lambda: rnd.choice(['', '', '-x 1', 'a b']) if rnd.random() < 0.975 else rnd.choice(GARBAGE_ANY)
    ident = lambda: _pick(rnd, idents); app = lambda: _pick(rnd, apps); ns = lambda: _pick(rnd, nss); prog = lambda: _pick(rnd, progs)
    table = [
        (3, 'get_api_version', lambda: []), (4, 'get_supvisors_state', lambda: []), (3, 'get_all_instances_state_modes', lambda: []),
        (3, 'get_instance_state_modes', lambda: [ident()]), (3, 'get_master_identifier', lambda: []), (2, 'get_strategies', lambda: []),
        (2, 'get_statistics_status', lambda: []), (3, 'get_network_info', lambda: [ident()]), (3, 'get_all_instances_info', lambda: []),
        (3, 'get_instance_info', lambda: [ident()]), (4, 'get_all_applications_info', lambda: []), (4, 'get_application_info', lambda: [app()]),
        (3, 'get_application_rules', lambda: [app()]), (4, 'get_all_process_info', lambda: []), (4, 'get_process_info', lambda: [ns()]),
        (3, 'get_all_local_process_info', lambda: []), (3, 'get_local_process_info', lambda: [ns()]),
        (3, 'get_all_inner_process_info', lambda: [ident()]), (3, 'get_inner_process_info', lambda: [ident(), ns()]),
        (3, 'get_process_rules', lambda: [ns()]), (3, 'get_conflicts', lambda: []),
        (10, 'start_application', lambda: [strat(), app(), wait()]), (4, 'test_start_application', lambda: [strat(), app()]),
        (8, 'stop_application', lambda: [app(), wait()]), (8, 'restart_application', lambda: [strat(), app(), wait()]),
        (6, 'start_args', lambda: [ns(), extra(), wait()]), (10, 'start_process', lambda: [strat(), ns(), extra(), wait()]),
        (4, 'test_start_process', lambda: [strat(), ns()]),
        (5, 'start_any_process', lambda: [strat(), _pick(rnd, ['.*', 'a1.*', 'up', 'app_1:.*', ':a2p0', 'solo'], 0.15), extra(), wait()]),
        (8, 'stop_process', lambda: [ns(), wait()]), (8, 'restart_process', lambda: [strat(), ns(), extra(), wait()]),
        (8, 'update_numprocs', lambda: [prog(), rnd.choice([1, 2, 3, 4, 1, 2, 3, 0, -1]) if rnd.random() < 0.95 else rnd.choice(GARBAGE_ANY + ['2', 'x']), wait(), rnd.choice([False, True])]),
        (4, 'enable', lambda: [prog(), wait()]), (5, 'disable', lambda: [prog(), wait()]),
        (5, 'conciliate', lambda: [_pick(rnd, [x.name for x in ConciliationStrategies] + [x.value for x in ConciliationStrategies], 0.05, 0.025)]),
        (4, 'restart_sequence', lambda: [wait()]), (1, 'restart', lambda: []), (1, 'shutdown', lambda: []),
        (4, 'end_sync', lambda: rnd.choice([[], [ident()], ['']])),
        (2, 'change_log_level', lambda: [_pick(rnd, ['debug', 'INFO', 'warn', 10, 20, 5, 50], 0.1, 0.05)]),
        (1, 'enable_host_statistics', lambda: [rnd.choice([True, False, True, False, 'x'])]), (1, 'enable_process_statistics', lambda: [rnd.choice([True, False, True, False, 3])]),
        (1, 'update_collecting_period', lambda: [rnd.choice([1, 5.0, 10, 7.5, 'x', -1])]),
    ]
    tot = sum(x[0] for x in table); r = rnd.random() * tot
    for wgt, name, gen in table:
        r -= wgt
        if r <= 0: return name, gen()
    return table[0][1], []


# ---- Supervisor-side user actions, forged listener events, faults
def manual_action(w, s):
    """ a user acts on the Supervisor directly (supervisorctl), not through Supvisors """
    rnd = w.rnd; fs = s.fakesup; table = fs.table()
    kind = rnd.choice(['start', 'start', 'stop', 'stop', 'crash', 'crash', 'remove-group', 'add-group', 'reload-new', 'signal-stop-group'])
    w.stats['manual'][kind] += 1
    def call(name, *args):
        w.note(f'[{s.k}] supervisorctl {name}{args}')
        def run():
            try: return w.dispatch(s, f'supervisor.{name}', args)[1]
            except RPCError as e: w.stats['manual'][f'{name}:fault:{e.code}'] += 1
        ok, res = w.guarded(s, f'supervisor.{name}', run)
        fs.wake = 0
        return res
    if kind == 'start' and table:
        ns = rnd.choice(sorted(table)); call('startProcess', ns, False)
    elif kind == 'stop' and table:
        cands = [n for n, p in table.items() if p.state in RUNNING_STATES] or sorted(table)
        call('stopProcess', rnd.choice(sorted(cands)), False)
    elif kind == 'crash':
        cands = [p for p in table.values() if p.pid and p.state in (ProcessStates.RUNNING, ProcessStates.STARTING)]
        if cands:
            p = rnd.choice(cands)
            if fs.crash_child(p, rnd.choice([0, 1 << 8, 2 << 8, 9, 11])): w.note(f'[{s.k}] child of {p.config.name} dies')
    elif kind == 'remove-group' and fs.supervisord.process_groups:
        call('removeProcessGroup', rnd.choice(sorted(fs.supervisord.process_groups)))
    elif kind == 'add-group':
        names = [c.name for c in fs.options.process_group_configs]
        if names: call('addProcessGroup', rnd.choice(sorted(names)))
    elif kind == 'reload-new':
        # the administrator edits the configuration (a new group, of a new or of a known program) and runs `supervisorctl update`
        inst = w.cfg['instances'][s.k]; j = len(inst['extra_groups'])
        if j < 3 and w.allow_new_programs:
            if rnd.random() < 0.5:
                name = f'x{s.k}n{j}'
                sect = (f'[program:{name}]\ncommand=/sim/bin/{name}\nautostart={rnd.choice(["true", "false"])}\nstartsecs=1\n'
                        f'stdout_logfile=NONE\nstderr_logfile=NONE\n' + rnd.choice(['', f'[group:gx{s.k}{j}]\nprograms={name}\n']))
            else:
                unknown = [p for p in w.cfg['programs'] if p not in inst['known']]
                if not unknown: return
                name = rnd.choice(sorted(unknown)); p = w.cfg['programs'][name]
                sect = (f'[program:{name}]\ncommand=/sim/bin/{name}\nautostart=false\nstartsecs={p["startsecs"]}\nstdout_logfile=NONE\n'
                        f'stderr_logfile=NONE\n' + (f'process_name=%(program_name)s_%(process_num)02d\nnumprocs={p["numprocs"]}\n' if p['multi'] else '')
                        + (f'[group:{p["group"]}]\nprograms={name}\n' if p['group'] and p['group'] not in fs.supervisord.process_groups
                           and not any(c.name == p['group'] for c in fs.options.process_group_configs) else ''))
            inst['extra_groups'].append(sect)
            write_supervisord_conf(w.cfg['workdir'], s.k, inst, w.cfg['programs'], w.cfg['groups'])
            res = call('reloadConfig')
            if res:
                added, changed, removed = res[0]
                for g in added: call('addProcessGroup', g)
    elif kind == 'signal-stop-group' and fs.supervisord.process_groups:
        g = rnd.choice(sorted(fs.supervisord.process_groups))
        for p in list(fs.supervisord.process_groups[g].processes.values()):
            if p.state in RUNNING_STATES: call('stopProcess', make_namespec(g, p.config.name), False)


def forged_event(w, s):
    """ a listener entry point called directly with generated arguments (valid and invalid names).
        mode 'benign' (default): only notifications that agree with the state of the Supervisor at that time (duplicated
        additions / disability / state notifications about existing objects) or that carry names unknown to the Supervisor;
        mode 'all' adds the notifications that contradict the Supervisor (removal of a live process / group, addition of a
        missing group): Supervisor cannot emit them, the instance is marked `tainted` and its later findings say so. """
    rnd = w.rnd; fs = s.fakesup; table = fs.table(); mode = w.kw.get('forged', 'benign')
    if mode is True: mode = 'benign'
    kinds = ['added', 'added-unknown', 'disability', 'disability-unknown', 'group_added', 'state', 'removed-unknown', 'group_removed-unknown']
    if mode == 'all': kinds += ['removed-live', 'group_removed-live', 'group_added-missing']
    kind = rnd.choice(kinds)
    w.stats['forged'][kind] += 1; s.forged += 1
    def ghost():
        p = Mock(); p.config.name = rnd.choice(['ghost', 'a1p0', 'a1p0_00', '', 'x:y']); p.group.config.name = rnd.choice(['app_1', 'nogroup', 'umg', ''])
        p.config.options = s.fakesup.options; p.pid = 0; p.spawnerr = ''; p.extra_args = ''; p.supvisors_config.program_config.disabled = False
        p.state = ProcessStates.STOPPED
        if make_namespec(p.group.config.name, p.config.name) in table: p.config.name = 'ghost'
        return p
    live = rnd.choice(list(table.values())) if table else None
    groups = sorted(fs.supervisord.process_groups)
    nogroups = [g for g in ['nogroup', 'app_1', 'app_2', 'umg', '', 'gx'] if g not in fs.supervisord.process_groups]
    w.note(f'[{s.k}] forged {kind}')
    L = s.listener
    if kind.endswith('-live') or kind.endswith('-missing'): s.tainted = True
    if kind == 'added' and live: w.guarded(s, 'forged on_process_added', L.on_process_added, ProcessAddedEvent(live))
    elif kind == 'added-unknown': w.guarded(s, 'forged on_process_added', L.on_process_added, ProcessAddedEvent(ghost()))
    elif kind == 'disability' and live:
        w.guarded(s, 'forged on_process_disability', L.on_process_disability, rnd.choice([ProcessEnabledEvent, ProcessDisabledEvent])(live))
    elif kind == 'disability-unknown':
        w.guarded(s, 'forged on_process_disability', L.on_process_disability, rnd.choice([ProcessEnabledEvent, ProcessDisabledEvent])(ghost()))
    elif kind == 'group_added' and groups:
        w.guarded(s, 'forged on_group_added', L.on_group_added, sevents.ProcessGroupAddedEvent(rnd.choice(groups)))
    elif kind == 'state' and live:
        # a duplicated process state notification (same state as the current one)
        cls = live.event_map.get(live.state)
        if cls is not None:
            ev = cls(live, live.state, True) if live.state == ProcessStates.EXITED else cls(live, live.state)
            w.guarded(s, 'forged on_process_state', L.on_process_state, ev)
    elif kind == 'removed-unknown': w.guarded(s, 'forged on_process_removed', L.on_process_removed, ProcessRemovedEvent(ghost()))
    elif kind == 'group_removed-unknown' and nogroups:
        w.guarded(s, 'forged on_group_removed', L.on_group_removed, sevents.ProcessGroupRemovedEvent(rnd.choice(nogroups)))
    elif kind == 'removed-live' and live: w.guarded(s, 'forged on_process_removed', L.on_process_removed, ProcessRemovedEvent(live))
    elif kind == 'group_removed-live' and groups:
        w.guarded(s, 'forged on_group_removed', L.on_group_removed, sevents.ProcessGroupRemovedEvent(rnd.choice(groups)))
    elif kind == 'group_added-missing' and nogroups:
        w.guarded(s, 'forged on_group_added', L.on_group_added, sevents.ProcessGroupAddedEvent(rnd.choice(nogroups)))


def inject(w, s):
    """ a message received earlier (by this incarnation or a previous one) is delivered again: as it is (duplicated /
        stale), with a forged origin (claimed address or identifier that do not belong together), or - for the process
        information of a handshake - as the proxy posts it when the transfer failed (body None) """
    rnd = w.rnd; h = w.history[s.k]
    if not h: return
    # the liveness statements (C08 / C09 / C10) quantify over crashes, restarts, partitions and process failures: a message of a previous
    # incarnation delivered again a minute later is outside their fault model (it belongs to C16: whatever arrives, nothing raises)
    if w.kw.get('liveness') and not w.kw.get('allow_inject'): return
    how = rnd.choice(['dup', 'dup', 'dup', 'dup', 'forge-ip', 'forge-id', 'noinfo', 'noinfo'])
    pool = h[-80:] if rnd.random() < 0.8 else h
    if how == 'noinfo':
        pool = [x for x in h if x[0] == SUPVISORS_NOTIFICATION and f'[{NotificationHeaders.ALL_INFO.value}, [' in x[1][:200]]
        if not pool: how = 'dup'; pool = h
    typ, data = rnd.choice(pool)
    try: msg = json.loads(data)
    except Exception: return
    if how == 'forge-ip' and isinstance(msg[0], list) and len(msg[0]) > 2 and isinstance(msg[0][2], list): msg[0][2] = ['10.9.9.9', msg[0][2][1]]
    elif how == 'forge-id' and isinstance(msg[0], list):
        others = [x for x in s.ids if x != msg[0][0]]
        if others: msg[0][0] = rnd.choice(others)
    elif how == 'noinfo':
        if msg[1][0] != NotificationHeaders.ALL_INFO.value: return
        msg[1][1] = None
    w.stats['faults'][f'inject-{how}'] += 1
    ev = Mock(); ev.type = typ; ev.data = json.dumps(msg)
    w.note(f'[{s.k}] inject {how} {typ} {str(msg[1])[:60]}')
    w.guarded(s, f'inject-{how}', s.listener.on_remote_event, ev)


def fault(w):
    rnd = w.rnd; net = w.net; n = w.cfg['n']
    kind = rnd.choice(['crash', 'cut', 'cut', 'heal', 'heal', 'hold', 'hold', 'reboot', 'reboot', 'inject', 'inject', 'inject', 'inject'])
    ks = sorted(w.cfg['instances']); k = rnd.choice(ks); s = w.sims.get(k)
    if kind == 'crash':
        if s is not None and not s.dead and len(w.live()) > 1:
            w.go_down(s, 'crash'); w.stats['faults']['crash'] += 1
            if rnd.random() < 0.6: w.reboot_at[k] = T[0] + rnd.choice([rnd.randint(UNIT // 2, 4 * UNIT), rnd.randint(4 * UNIT, 60 * UNIT)])
    elif kind == 'reboot':
        if s is None or s.dead:
            w.boot(k); w.stats['faults']['reboot'] += 1
    elif kind == 'cut':
        o = rnd.choice([x for x in ks if x != k])
        net.cut.add(frozenset((w.cfg['instances'][k]['ident'], w.cfg['instances'][o]['ident'])))
        w.stats['faults']['cut'] += 1; w.note(f'cut {k}-{o}')
    elif kind == 'heal':
        net.cut.clear(); w.stats['faults']['heal'] += 1; w.note('heal')
    elif kind == 'hold':
        o = rnd.choice([x for x in ks if x != k])
        w.held[(k, w.cfg['instances'][o]['ident'])] = T[0] + rnd.randint(PERIOD // 4, 2 * PERIOD); w.stats['faults']['hold'] += 1
    elif kind == 'inject':
        if s is not None and not s.dead and s.started: inject(w, s)


# ---------------------------------------------------------------------------------------------------------------------
def run_free(seed, **kw):
    """ one generated closed-loop schedule on real instances (everything derives from random.Random(seed)); kwargs: see the
        module documentation """
    rnd = random.Random(seed)
    workdir = tempfile.mkdtemp(prefix='c16free-', dir=kw.get('tmpdir') or ('/var/tmp' if os.path.isdir('/var/tmp') else None))
    for tm in ('time', 'monotonic'):
        import time as _time
        m = getattr(_time, tm)
        if hasattr(m, 'reset_mock'): m.reset_mock()
    T[0] = 10 * UNIT
    w = None
    try:
        cfg = gen_config(rnd, workdir)
        w = World(seed, rnd, cfg, kw)
        if kw.get('verbose'):
            print(json.dumps({k: {x: y for x, y in v.items() if x not in ('conf',)} for k, v in cfg['instances'].items()}, indent=1, default=str))
            print(cfg['rules'])
        try:
            _schedule(w, rnd, cfg, kw)
        except _Abort:
            pass
        stats = {k: (dict(v) if isinstance(v, collections.Counter) else v) for k, v in w.stats.items()}
        stats['signature_counts'] = dict(w.sigs); stats['sim_seconds'] = round((T[0] - 10 * UNIT) / UNIT, 1)
        stats['config'] = {'instances': cfg['n'], 'nodes': cfg['nodes'], 'synchro_options': cfg['base']['synchro_options'],
                           'failure_strategy': cfg['base']['supvisors_failure_strategy'], 'auto_fence': cfg['base']['auto_fence'],
                           'conciliation': cfg['base']['conciliation_strategy'], 'starting': cfg['base']['starting_strategy'],
                           'programs': len(cfg['programs']), 'managed_applications': len(cfg['managed']),
                           'stats_enabled': cfg['base']['stats_enabled'],
                           'behaviours': dict(collections.Counter(b for i in cfg['instances'].values() for b in i['behaviours'].values()))}
        return {'findings': w.findings, 'stats': stats, 'seed': seed, 'harness_errors': w.harness_errors}
    finally:
        for s in (w.sims.values() if w else []):
            s.dead = True; _drop_subscriptions(s)
        _remove_router()
        ACTIVE[0] = None
        if not kw.get('keep'): shutil.rmtree(workdir, ignore_errors=True)


def _schedule(w, rnd, cfg, kw):
    ks = sorted(cfg['instances'])
    # instances start together or spread over the first ticks
    spread = rnd.choice([0, 0, 2, 6]) * PERIOD
    boot_at = {k: T[0] + rnd.randint(0, spread) for k in ks}
    if rnd.random() < 0.1: boot_at[rnd.choice(ks)] += rnd.randint(5, 15) * PERIOD      # a late comer
    max_ticks = kw.get('max_ticks', 45)
    end = T[0] + rnd.randint(max_ticks // 2, max_ticks) * PERIOD
    calm = rnd.choice([0, 8, 8, 14]) * PERIOD               # faults only after the cluster had a chance to settle
    nf = rnd.choice([0, 0, 2, 5, 10, 16]) if kw.get('faults', True) else 0
    fault_times = sorted(rnd.randint(T[0] + calm, end) for _ in range(int(nf * kw.get('fault_rate', 1.0))))
    nr = int(rnd.randint(5, 40) * kw.get('rpc_rate', 1.0))
    rpc_times = sorted(rnd.randint(T[0] + 2 * PERIOD, end) for _ in range(nr))
    nm = rnd.choice([0, 2, 5, 10]) if kw.get('manual', True) else 0
    manual_times = sorted(rnd.randint(T[0] + 2 * PERIOD, end) for _ in range(nm))
    ng = rnd.choice([0, 0, 1, 3, 6]) if kw.get('forged', 'benign') not in (False, 'none') else 0
    forged_times = sorted(rnd.randint(T[0] + 2 * PERIOD, end) for _ in range(ng))
    budget = kw.get('max_ops', 6000)       # some configurations make Supvisors restart a process in a tight loop
    if kw.get('ending'):
        # ENDING scenario (C09): once the cluster has settled a restart / shutdown is requested on some instance, and a non-Master
        # instance is lost a few ticks later (no reboot), while its processes may still be STOPPING
        rnd3 = random.Random((w.seed * 40503 + 11) & 0xffffffff)
        t_req = T[0] + rnd3.randint(14, 22) * PERIOD
        _run_until(w, rnd, ks, t_req, boot_at, [], rpc_times, manual_times, [], budget)
        live = [s for s in w.live() if s.started]
        if live:
            s0 = rnd3.choice(live)
            w.user_rpc(s0, rnd3.choice(['restart', 'shutdown']), ())
            _run_until(w, rnd, ks, T[0] + rnd3.randint(0, 3 * PERIOD), boot_at, [], [], [], [], budget)
            masters = {x.state_modes.master_identifier for x in w.live()}
            victims = [x for x in w.live() if x.identifier not in masters]
            if victims and rnd3.random() < 0.8:
                v = rnd3.choice(victims); w.go_down(v, 'crash (ending scenario)'); w.stats['faults']['crash'] += 1
        fault_times, rpc_times, manual_times, forged_times = [], [], [], []
        end = max(end, T[0] + 4 * PERIOD)
    _run_until(w, rnd, ks, end, boot_at, fault_times, rpc_times, manual_times, forged_times, budget)
    if kw.get('liveness'):
        # QUIET PHASE: no fault, no user action, no manual action any more; cuts healed, proxies released; the fake Supervisors keep
        # answering and the processes keep reporting.  Then the liveness judges (C09: the ending phase completes; C10: every job ends).
        quiet = kw.get('quiet_ticks', 40)
        w.net.cut.clear(); w.held.clear(); w.note('QUIET PHASE')
        t_quiet = T[0]
        t_end = T[0] + quiet * PERIOD
        _run_until(w, rnd, ks, T[0] + 12 * PERIOD, boot_at, [], [], [], [], budget + 6000)
        # C07 on the closed loop ("live ones never declared lost"): who sees whom RUNNING once the detections owed to the faults of
        # the schedule have had 12 ticks to happen ...
        seen_running = {(a.identifier, b): a for a in w.live() if a.started for b, st in a.context.instances.items() if st.state.name == 'RUNNING'}
        boots = {s.identifier: id(s) for s in w.live()}
        _run_until(w, rnd, ks, t_end, boot_at, [], [], [], [], budget + 6000)
        if T[0] < t_end - PERIOD:
            # the operation budget ran out (a program that exits at once and is restarted at once, for ever): the schedule was cut short,
            # nothing can be said about a quiet phase that did not take place
            w.stats['quiet_phase_truncated'] = 1
            return
        # ... must still see it RUNNING at the end, as long as both are the same incarnations, alive and ticking
        now_live = {s.identifier: s for s in w.live() if s.started and getattr(s, 'last_tick', 0) >= T[0] - 2 * PERIOD}
        for (a, b), sa in sorted(seen_running.items()):
            if a in now_live and b in now_live and now_live[a] is sa and boots.get(b) == id(now_live[b]):
                st = sa.context.instances[b].state.name
                if st != 'RUNNING' and sa.fsm.state.name not in ('RESTARTING', 'SHUTTING_DOWN', 'FINAL') and now_live[b].fsm.state.name not in ('RESTARTING', 'SHUTTING_DOWN', 'FINAL'):
                    w.finding(f'C07:free:live-declared-lost:{st}', f'{a} saw {b} RUNNING 12 ticks into the quiet phase and holds it {st} at the end, although {b} is alive, '
                              f'ticking (no fault, no cut in the quiet phase)')
        margin = (quiet - 12) * PERIOD
        _judge_parked(w, margin)
        # C13 on the closed loop: no XML-RPC ever left an instance for a peer it holds ISOLATED (recorded by the transport, whole schedule)
        for src, dst, name in w.net.sent_to_isolated[:3]:
            w.finding(f'C13:free:sent-to-isolated:{name.split(":")[0]}', f'{src} sent {name} to {dst} while holding it ISOLATED')
        for s in w.live():
            if not s.started or getattr(s, 'last_tick', 0) < T[0] - 2 * PERIOD: continue
            stname = s.fsm.state.name
            if stname in ('RESTARTING', 'SHUTTING_DOWN') and s.state_since <= T[0] - margin:
                w.finding(f'C09:free:ending-phase-stuck:{stname}', f'instance {s.k} has been in {stname} for {(T[0] - s.state_since) // PERIOD} ticks of the quiet '
                          f'phase (stopper in progress: {s.stopper.in_progress()}; jobs {sorted(s.stopper.get_application_job_names())})')
            for nm, cmdr in (('starter', s.starter), ('stopper', s.stopper)):
                if cmdr.in_progress() and s.last_request <= T[0] - margin:
                    cmds = [c for j in cmdr.current_jobs.values() for c in j.current_jobs]
                    waits = any(c.process.rules.wait_exit for c in cmds)
                    if waits: continue          # the documented exception: a wait_exit program that never exits
                    # attribution: a request whose target is not seen RUNNING any more is never timed out (the time-outs are counted in the
                    # ticks of the TARGET); how the command came to target a lost instance tells the root cause
                    lostc = [c for c in cmds if c.identifier and s.context.instances[c.identifier].state.name != 'RUNNING']
                    why = ''
                    if lostc and nm == 'stopper' and all((c.process.info_map.get(c.identifier) or {}).get('state') == ProcessStates.STOPPING for c in lostc):
                        why = ':stopping-entry-of-lost-instance'
                    elif lostc:
                        why = ':target-lost'
                    w.finding(f'C10:free:job-never-ends:{nm}{why}', f'instance {s.k}: the {nm} still reports jobs in progress {(T[0] - s.last_request) // PERIOD} ticks after '
                              f'its last request ({sorted(cmdr.get_application_job_names())}); pending: ' + '; '.join(
                                  f'{c.process.namespec} on {c.identifier} (seen {s.context.instances[c.identifier].state.name if c.identifier else None})' for c in cmds))


def _judge_parked(w, margin):
    """ C08 on the closed loop: once disturbances have stopped, every live, mutually reachable, non-isolated instance is back in the state of
        its Master - OPERATION, or CONCILIATION - and nobody is parked in OFF / SYNCHRONIZATION / ELECTION / DISTRIBUTION; provided the
        synchronisation condition can be met and the failure strategy is not SHUTDOWN (the preconditions of the statement). """
    live = [s for s in w.live() if s.started and getattr(s, 'last_tick', 0) >= T[0] - 2 * PERIOD]
    if not live or len(live) != len(w.live()): return
    alive = {s.identifier for s in live}
    for s in live:
        if s.options.supvisors_failure_strategy.name == 'SHUTDOWN': return
        seen = {i for i, st in s.context.instances.items() if st.state.name == 'RUNNING'}
        if seen != alive: return                    # not mutually seen RUNNING (isolated, or not re-admitted)
        so = [x.name for x in s.options.synchro_options]
        if 'TIMEOUT' not in so:
            ok = []
            if 'LIST' in so: ok.append(alive == set(s.mapper.instances))
            if 'STRICT' in so: ok.append(set(s.mapper.initial_identifiers) <= alive)
            if 'CORE' in so: ok.append(bool(s.mapper.core_identifiers) and set(s.mapper.core_identifiers) <= alive)
            if not any(ok): return                  # the synchronisation condition cannot be met (USER alone needs a user action)
    states = {s.identifier: s.fsm.state.name for s in live}
    if set(states.values()) & {'RESTARTING', 'SHUTTING_DOWN', 'FINAL'}: return
    w.stats['quiescent_clusters_judged'] = 1; w.stats['quiescent_instances_judged'] = len(live)
    # C01 on the closed loop: the live, mutually RUNNING instances agree on one Master, which is one of them
    masters = {s.state_modes.master_identifier for s in live}
    stable = all(s.state_since <= T[0] - margin for s in live)
    if stable and (len(masters) != 1 or not (masters <= alive)):
        w.finding('C01:free:masters-differ-or-none', f'after {margin // PERIOD} stable ticks of the quiet phase the live, mutually RUNNING instances name '
                  f'these Masters: {sorted((s.k, s.state_modes.master_identifier or "none") for s in live)} (states {sorted(states.items())})')
    # jobs still in progress (a wait_exit program that never exits, a program that crashes and is restarted for ever: process failures
    # have not stopped) keep the Master where it is by design; a job that never ends for another reason is C10's judge
    if any(s.starter.in_progress() or s.stopper.in_progress() or s.last_request > T[0] - margin for s in live): return
    for s in live:
        st = states[s.identifier]; m = s.state_modes.master_identifier
        if s.state_since > T[0] - margin: continue
        if st in ('OFF', 'SYNCHRONIZATION', 'ELECTION', 'DISTRIBUTION'):
            # attribution: the decision of a Slave is the state of its Master; FiniteStateMachine.set_state refuses it when the table has no such edge
            why = f':master-in-{states[m]}' if m in states and m != s.identifier else ''
            w.finding(f'C08:free:parked:{st}{why}', f'instance {s.k} has been in {st} for {(T[0] - s.state_since) // PERIOD} ticks of the quiet phase (its Master: '
                      f'{m or "none"} in {states.get(m, "-")}; starter in progress {s.starter.in_progress()}, stopper {s.stopper.in_progress()})')
        elif m in states and states[m] != st and w.sims_by_ident(m).state_since <= T[0] - margin:
            w.finding(f'C08:free:not-in-master-state:{st}:master-in-{states[m]}', f'instance {s.k} in {st}, its Master {m} in {states[m]}, both for more than '
                      f'{margin // PERIOD} ticks of the quiet phase')


def _run_until(w, rnd, ks, end, boot_at, fault_times, rpc_times, manual_times, forged_times, budget):
    kw = w.kw
    while T[0] < end and sum(w.stats['ops'].values()) < budget:
        busy = any(s.inbox or any(w.held.get((s.k, i), 0) <= T[0] for i, _ in s.proxies_with_work()) for s in w.live())
        if busy:
            T[0] += rnd.randint(1, 40)
        else:
            cands = [end] + list(boot_at.values()) + list(w.reboot_at.values()) + fault_times[:1] + rpc_times[:1] + manual_times[:1] + forged_times[:1]
            cands += [w.next_tick[s.k] for s in w.live()] + [s.fakesup.wake for s in w.live()] + [d[3] for d in w.deferred]
            cands += [t for t in w.held.values() if t > T[0]]
            T[0] = max(T[0] + 1, min(cands))
        for k in ks:
            if k in boot_at and boot_at[k] <= T[0]: del boot_at[k]; w.boot(k)
            if k in w.reboot_at and w.reboot_at[k] <= T[0]: w.boot(k)
        while fault_times and fault_times[0] <= T[0]: fault_times.pop(0); fault(w)
        while rpc_times and rpc_times[0] <= T[0]:
            rpc_times.pop(0); live = [s for s in w.live() if s.started]
            if live:
                s = rnd.choice(live); method, args = gen_rpc(w, s); w.user_rpc(s, method, args)
                if rnd.random() < 0.1:
                    for o in live:
                        if o is not s and not o.dead: w.user_rpc(o, method, args)
        while manual_times and manual_times[0] <= T[0]:
            manual_times.pop(0); live = [s for s in w.live() if s.started]
            if live: manual_action(w, rnd.choice(live))
        while forged_times and forged_times[0] <= T[0]:
            forged_times.pop(0); live = [s for s in w.live() if s.started]
            if live: forged_event(w, rnd.choice(live))
        for s in w.live():
            if s.dead: continue
            if w.next_tick[s.k] <= T[0]:
                w.tick(s); w.next_tick[s.k] += PERIOD
            if not s.dead and s.started and s.fakesup.wake <= T[0]: w.pump(s)
        if w.deferred: w.poll_deferred()
        acts = []
        for s in w.live():
            if s.inbox: acts.append(('deliver', s))
            for ident, p in s.proxies_with_work():
                if w.held.get((s.k, ident), 0) > T[0]: continue
                acts.append(('proxy', s, p))
        if acts:
            a = rnd.choice(acts)
            if a[0] == 'deliver': w.deliver(a[1])
            else: w.proxy_step(a[1], a[2])


def replay_free(seed, **kw):
    kw.setdefault('verbose', True)
    r = run_free(seed, **kw)
    print(json.dumps(r['stats'], indent=1, default=str))
    for sig, what in r['findings']: print('FINDING', sig, '\n  ', what)
    for where, tb in r['harness_errors']: print('HARNESS-ERROR', where, '\n', tb)
    return r


def _timed(arg):
    import time as _t
    seed, kw = arg
    t1 = _t.perf_counter(); r = run_free(seed, **kw); r['dt'] = _t.perf_counter() - t1
    return r


def _main(argv):
    # NOTE: no multiprocessing.Pool here: the simulated clock (time.monotonic patched by simenv) breaks its time-outs
    import time as _t
    s0, s1 = int(argv[1]), int(argv[2]); kw = json.loads(argv[3]) if len(argv) > 3 else {}
    out = argv[4] if len(argv) > 4 else None
    agg = {}; hagg = {}; tot = collections.Counter(); t0 = _t.perf_counter(); worst = (0, None)
    merged = {}; times = []; results = []
    for r in map(_timed, [(sd, kw) for sd in range(s0, s1)]):
        seed = r['seed']; dt = r['dt']; times.append(dt); results.append(r)
        if dt > worst[0]: worst = (dt, seed)
        for sig, what in r['findings']: agg.setdefault(sig, []).append((seed, what))
        for where, tb in r['harness_errors']: hagg.setdefault((where.split()[0], tb.strip().split('\n')[-1][:100]), []).append(seed)
        for k, v in r['stats'].items():
            if isinstance(v, dict) and k not in ('config', 'signature_counts'):
                m = merged.setdefault(k, collections.Counter())
                for a, b in v.items(): m[a] += b
    el = _t.perf_counter() - t0
    if out:
        with open(out, 'w') as f: json.dump(results, f, default=str)
    times.sort()
    print(f'seeds {s0}..{s1 - 1}: {el:.1f}s wall; per schedule mean {sum(times) / max(1, len(times)):.2f}s median {times[len(times) // 2]:.2f}s, slowest {worst[0]:.1f}s (seed {worst[1]})')
    for k, m in merged.items(): print(f'  {k}: {dict(sorted(m.items(), key=lambda x: -x[1])[:60])}')
    print('FINDINGS')
    for sig, l in sorted(agg.items(), key=lambda x: -len(x[1])):
        print(f'  {len(l):4d}  {sig}   seeds {[x[0] for x in l[:10]]}')
    print('HARNESS ERRORS')
    for key, l in sorted(hagg.items(), key=lambda x: -len(x[1])): print(f'  {len(l):4d}  {key}  seeds {l[:10]}')
    return agg, hagg




def _pool_job(a):
    sd, kw = a
    r = run_free(sd, **kw)
    return sd, {'findings': [(x, y) for x, y in r['findings']], 'harness_errors': [str(h)[:300] for h in (r.get('harness_errors') or [])[:1]],
                'stats': {k: v for k, v in (r.get('stats') or {}).items() if isinstance(v, (int, float))}}


def run_many(seeds, kw, procs=None):
    """ run_free over `seeds` in worker SUBPROCESSES (each schedule is deterministic per seed and independent of the others; run_free patches
        the clock of its process, which a multiprocessing pool does not survive); results in seed order. """
    import subprocess, os
    seeds = list(seeds)
    procs = procs or max(1, min(12, (os.cpu_count() or 2) - 2))
    if procs == 1 or len(seeds) < 8:
        return [_pool_job((sd, kw)) for sd in seeds]
    chunks = [seeds[i::procs] for i in range(procs)]
    env = dict(os.environ, PYTHONHASHSEED='0')
    ps = [subprocess.Popen([sys.executable, os.path.abspath(__file__), '--worker', json.dumps(ch), json.dumps(kw)], stdout=subprocess.PIPE,
                           stderr=subprocess.DEVNULL, env=env, text=True) for ch in chunks if ch]
    out = {}
    for p in ps:
        o, _ = p.communicate()
        line = [l for l in o.splitlines() if l.startswith('WORKER-RESULT ')]
        if p.returncode != 0 or not line:
            raise RuntimeError(f'free-running worker failed (exit {p.returncode}): {o[-300:]}')
        for sd, r in json.loads(line[-1][len('WORKER-RESULT '):]):
            r['findings'] = [tuple(x) for x in r['findings']]; out[sd] = r
    return [(sd, out[sd]) for sd in seeds]


def liveness_stage(chk, prefix, variants, n_quick, n_thorough):
    """ Free-running stage of C09 / C10: FIXED seed range (deterministic per seed, validated on the unchanged tree), quiet phase at the end of
        every schedule, judges of the family `prefix` only (the C16 signatures of the same schedules belong to ./check C16). """
    import time as _t
    t0 = _t.perf_counter()
    if os.environ.get('VERIF_SKIP_FREE') == '1':      # sweeps of the other stages only (never set by a registered command)
        chk.notes.append('free-running stage skipped (VERIF_SKIP_FREE=1)'); return
    n = n_quick if chk.tier == 'quick' else n_thorough
    agg = {'schedules': 0, 'variants': [v for v in variants], 'corpus': 0}
    # corpus first: the schedules of past failures (known findings and repaired defects)
    cdir = os.path.join(os.path.dirname(os.path.dirname(os.path.abspath(__file__))), 'corpus', chk.prop)
    for f in sorted(os.listdir(cdir)) if os.path.isdir(cdir) else []:
        if not f.endswith('.json'): continue
        c = json.load(open(os.path.join(cdir, f)))
        if c.get('stage') != 'free' or not (c.get('free_kwargs') or {}).get('liveness'): continue
        _, r = _pool_job((c['free_seed'], c['free_kwargs']))
        agg['corpus'] += 1; agg['schedules'] += 1
        for sig, what in r['findings']:
            if sig.startswith(prefix):
                chk.reject(sig, what, {'free_seed': c['free_seed'], 'stage': 'free', 'free_kwargs': c['free_kwargs'], 'corpus': f'corpus/{chk.prop}/{f}',
                                       'how': f'./check {chk.prop} --replay corpus/{chk.prop}/{f}'})
    for kwv in variants:
        kw = dict(kwv, new_programs=0, liveness=True)
        for sd, r in run_many(range(n), kw):
            agg['schedules'] += 1
            for sig, what in r['findings']:
                if sig.startswith(prefix):
                    chk.reject(sig, what, {'free_seed': sd, 'stage': 'free', 'free_kwargs': kw, 'how': f'./check {chk.prop} --replay <this file>'})
            for k, v in r['stats'].items(): agg[k] = agg.get(k, 0) + v
    agg['wall_s'] = round(_t.perf_counter() - t0, 1)
    chk.coverage['free_running_stage'] = agg
    chk.coverage['evaluations'] = chk.coverage.get('evaluations', 0) + agg['schedules']
    chk.assumptions.append('free-running stage: the quiescence judges (Masters differ, an instance parked or not in the state of its Master, a restart / shutdown '
                           'phase that never reaches FINAL, a Starter / Stopper job that never ends) look at a quiet window of 40 ticks at the end of a finite '
                           'schedule; they are searches for a failing history, the unbounded statements are the theorems')


def liveness_replay(chk, r, prefix):
    res = run_free(r['free_seed'], **(r.get('free_kwargs') or {}))
    for sig, what in res['findings']:
        if sig.startswith(prefix): chk.reject(sig, what, {'free_seed': r['free_seed'], 'stage': 'free', 'free_kwargs': r.get('free_kwargs')})
    chk.coverage.update({'evaluations': 1, 'distinct_nontrivial': 0, 'rule': 'replay', 'samples': [r['free_seed']]})


if __name__ == '__main__':
    if len(sys.argv) == 4 and sys.argv[1] == '--worker':
        _res = [_pool_job((sd, json.loads(sys.argv[3]))) for sd in json.loads(sys.argv[2])]
        print('WORKER-RESULT ' + json.dumps(_res))
    elif len(sys.argv) == 2: replay_free(int(sys.argv[1]))
    else: _main(sys.argv)
