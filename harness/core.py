""" Check framework shared by every property: proof obligations (translator, lake build, axiom audit),
    model drivers, violation / known-finding reporting, evidence files.  See DESIGN.md sections 2-4. """
import os, sys, re, json, time, fcntl, hashlib, subprocess, tempfile
_clock = time.perf_counter   # time.time is replaced by the simulated clock once harness/simenv.py is imported

VERIF = os.path.dirname(os.path.dirname(os.path.abspath(__file__)))
LEAN = os.path.join(VERIF, 'lean')
REPO = os.environ.get('SUPVISORS_REPO', '/repo')
ALLOWED_AXIOMS = {'propext', 'Classical.choice', 'Quot.sound'}
FORBIDDEN = re.compile(r'\b(sorry|admit|native_decide|bv_decide|implemented_by|unsafe)\b|^\s*axiom\s|maxHeartbeats\s+0\b')

KERNEL_TRUST = ['Lean 4.33.0 kernel and elaborator (leanchecker re-check in the thorough tier)',
                'axioms: propext, Classical.choice, Quot.sound only (audited with #print axioms on every run)']


def sh(cmd, cwd=None, timeout=None, inp=None, env=None):
    r = subprocess.run(cmd, cwd=cwd, input=inp, capture_output=True, text=True, timeout=timeout, env=env)
    return r.returncode, r.stdout, r.stderr


class Lock:
    def __init__(self, path): self.path = path
    def __enter__(self):
        os.makedirs(os.path.dirname(self.path), exist_ok=True)
        self.f = open(self.path, 'w'); fcntl.flock(self.f, fcntl.LOCK_EX); return self
    def __exit__(self, *a):
        fcntl.flock(self.f, fcntl.LOCK_UN); self.f.close()


def strip_comments(text):
    """ remove Lean block comments (nested) and line comments """
    out = []; i = 0; depth = 0; n = len(text)
    while i < n:
        if text.startswith('/-', i): depth += 1; i += 2; continue
        if depth and text.startswith('-/', i): depth -= 1; i += 2; continue
        if depth:
            if text[i] == '\n': out.append('\n')
            i += 1; continue
        if text.startswith('--', i):
            while i < n and text[i] != '\n': i += 1
            continue
        out.append(text[i]); i += 1
    return ''.join(out)


def theorems_of(path, prefix):
    """ names of the property theorems declared in a Props file """
    text = strip_comments(open(path).read())
    return re.findall(r'^\s*theorem\s+(' + re.escape(prefix) + r'_\w+)', text, re.M)


class Check:
    def __init__(self, prop, tier, seed, level='proof'):
        self.prop, self.tier, self.seed, self.level = prop, tier, seed, level
        self.t0 = _clock()
        self.obligations = []          # (name, ok, detail)
        self.coverage = {}
        self.assumptions = []
        self.trusted = list(KERNEL_TRUST)
        self.rejections = {}           # signature -> (what, replay)   judged on the IMPLEMENTATION
        self.disagreements = []        # (layer, detail dict)           model vs implementation
        self.known = self._load_known()
        self.known_hit = {}
        self.checker_cmds = []
        self.notes = []

    # ------------------------------------------------------------------ obligations
    def regen(self, relevant=None):
        """ translator: regenerate Supv/Gen/*.lean from the current working tree of /repo; the anchors whose name starts
            with one of `relevant` become obligations of this property (all of them when None) """
        sys.path.insert(0, os.path.join(VERIF, 'tools'))
        import extract
        with Lock(os.path.join(LEAN, '.lake', 'verif.lock')):
            problems = extract.generate(REPO, os.path.join(LEAN, 'Supv', 'Gen'))
        mine = [(a, ok, d) for a, ok, d in problems if relevant is None or any(a.startswith(r) for r in relevant)]
        for anchor, ok, detail in mine:
            self.obligations.append((f'translator:{anchor}', ok, detail))
        self.trusted.append('tools/extract.py (translator: regenerates lean/Supv/Gen/*.lean from the current source; anchors: '
                            + ', '.join(a for a, _, _ in mine) + ')')
        return all(ok for _, ok, _ in mine)

    def build(self, targets, timeout=3000):
        """ lake build of the property's modules: the proof obligations """
        cmd = ['lake', 'build'] + list(targets)
        self.checker_cmds.append('cd lean && ' + ' '.join(cmd))
        with Lock(os.path.join(LEAN, '.lake', 'verif.lock')):
            rc, out, err = sh(cmd, cwd=LEAN, timeout=timeout)
        log = out + err
        failed = {}
        for m in re.finditer(r'^error: (\S+?\.lean):(\d+):(\d+): (.*)$', log, re.M):
            path, line = os.path.join(LEAN, m.group(1)) if not m.group(1).startswith('/') else m.group(1), int(m.group(2))
            failed.setdefault(self._decl_at(path, line), []).append(m.group(4)[:200])
        if rc != 0 and not failed:
            failed['<build>'] = [log[-600:]]
        self.build_log = log
        return rc == 0, failed

    @staticmethod
    def _decl_at(path, line):
        try:
            lines = open(path).read().split('\n')
        except OSError:
            return f'{path}:{line}'
        for k in range(min(line, len(lines)) - 1, -1, -1):
            m = re.match(r'\s*(?:private\s+|protected\s+)?(?:theorem|lemma|def|example|instance|abbrev)\s+(\S+)', lines[k])
            if m: return f'{os.path.relpath(path, LEAN)}:{m.group(1)}'
        return f'{os.path.relpath(path, LEAN)}:{line}'

    def prove(self, module, prefix=None, extra_targets=()):
        """ build `module` (+ the driver exes), register one obligation per property theorem, audit axioms """
        prefix = prefix or self.prop
        path = os.path.join(LEAN, module.replace('.', '/') + '.lean')
        names = theorems_of(path, prefix)
        ok, failed = self.build([module] + list(extra_targets))
        failed_names = {k.split(':')[-1] for k in failed}
        if ok:
            axioms = self.audit(module, names)
        else:
            axioms = {}
        for n in names:
            if not ok and (n in failed_names or '<build>' in failed or not any(f in names for f in failed_names)):
                # the module did not build: theorems in error, or everything if the error is elsewhere (a dependency)
                self.obligations.append((n, False, '; '.join(sum((v for k, v in failed.items()), []))[:400]))
            elif not ok:
                self.obligations.append((n, False, 'module did not build (error in another declaration)'))
            else:
                ax = axioms.get(n)
                good = ax is not None and set(ax) <= ALLOWED_AXIOMS
                self.obligations.append((n, good, 'axioms: ' + (', '.join(ax) if ax else 'none' if ax == [] else 'NOT FOUND')))
        # forbidden tokens outside comments, over the whole library
        bad = []
        for root, _, files in os.walk(os.path.join(LEAN, 'Supv')):
            for f in files:
                if f.endswith('.lean'):
                    txt = strip_comments(open(os.path.join(root, f)).read())
                    for ln, l in enumerate(txt.split('\n'), 1):
                        if FORBIDDEN.search(l): bad.append(f'{f}:{ln}:{l.strip()[:60]}')
        self.obligations.append((f'audit:forbidden-tokens', not bad, '; '.join(bad[:5]) or 'none found'))
        self.theorems = names
        return ok

    def audit(self, module, names):
        path = os.path.join(LEAN, module.replace('.', '/') + '.lean')
        ns = re.search(r'^namespace\s+(\S+)', strip_comments(open(path).read()), re.M)
        pre = (ns.group(1) + '.') if ns else ''
        src = f'import {module}\n' + ''.join(f'#print axioms {pre}{n}\n' for n in names)
        with tempfile.NamedTemporaryFile('w', suffix='.lean', dir=os.path.join(LEAN, '.lake'), delete=False) as f:
            f.write(src); tmp = f.name
        try:
            cmd = ['lake', 'env', 'lean', tmp]
            self.checker_cmds.append(f"cd lean && lake env lean <(echo 'import {module}'; #print axioms <each theorem>)")
            rc, out, err = sh(cmd, cwd=LEAN, timeout=600)
        finally:
            os.unlink(tmp)
        res = {}
        text = out + err
        for m in re.finditer(r"'([\w.]+)' depends on axioms: \[([^\]]*)\]", text, re.S):
            res[m.group(1).split('.')[-1]] = [a.strip() for a in m.group(2).replace('\n', ' ').split(',') if a.strip()]
        for m in re.finditer(r"'([\w.]+)' does not depend on any axioms", text):
            res[m.group(1).split('.')[-1]] = []
        return res

    def leanchecker(self, modules):
        cmd = ['lake', 'env', 'leanchecker'] + list(modules)
        self.checker_cmds.append('cd lean && ' + ' '.join(cmd))
        rc, out, err = sh(cmd, cwd=LEAN, timeout=3000)
        self.obligations.append((f'leanchecker:{",".join(modules)}', rc == 0, (out + err)[-200:] if rc else 'ok'))
        return rc == 0

    def obligations_ok(self):
        return all(ok for _, ok, _ in self.obligations)

    # ------------------------------------------------------------------ model driver
    def driver(self, exe, lines, timeout=1800):
        """ pipe op lines to the compiled model driver, return its output lines """
        path = os.path.join(LEAN, '.lake', 'build', 'bin', exe)
        if not lines:
            return []
        # once per process: make sure the driver is the one of the CURRENT Lean sources (a replay does not go through `prove`)
        fresh = getattr(self, '_fresh_drivers', None)
        if fresh is None: fresh = self._fresh_drivers = set()
        if exe not in fresh or not os.path.exists(path):
            self.build([exe]); fresh.add(exe)
        if not os.path.exists(path):
            raise RuntimeError(f'model driver {exe} could not be built:\n{self.build_log[-800:]}')
        rc, out, err = sh([path], inp='\n'.join(lines) + '\n', timeout=timeout)
        res = out.split('\n')
        if res and res[-1] == '': res.pop()
        if len(res) != len(lines):
            raise RuntimeError(f'driver {exe}: {len(res)} output lines for {len(lines)} input lines; stderr={err[:400]}')
        return res

    # ------------------------------------------------------------------ findings
    def _load_known(self):
        known = {}
        p = os.path.join(VERIF, 'known_findings.jsonl')
        if os.path.exists(p):
            for l in open(p):
                l = l.strip()
                if not l or l.startswith('#'): continue
                e = json.loads(l)
                if e.get('property') == self.prop and e.get('status') == 'known':
                    known[e['signature']] = e
        return known

    def reject(self, signature, what, replay):
        """ the property judge rejected an observation made on the IMPLEMENTATION: `replay` is the failing input """
        if signature in self.known:
            self.known_hit.setdefault(signature, what)
            return
        # a signature made of several root-cause tags ('Cxx:a+b') is known when every tag is
        if '+' in signature:
            pre, rest = signature.split(':', 1)
            parts = [f'{pre}:{t}' for t in rest.split('+')]
            if all(p in self.known for p in parts):
                for p in parts: self.known_hit.setdefault(p, what)
                return
        if signature not in self.rejections:
            self.rejections[signature] = (what, replay)

    def disagree(self, layer, detail):
        """ model and implementation differ on an input (broken correspondence; not by itself a violation) """
        if len(self.disagreements) < 20:
            self.disagreements.append((layer, detail))
        else:
            self.disagreements.append((layer, None))

    # ------------------------------------------------------------------ result
    def finish(self):
        os.makedirs(os.path.join(VERIF, 'replays'), exist_ok=True)
        os.makedirs(os.path.join(VERIF, 'evidence'), exist_ok=True)
        lines = []
        for sig, what in self.known_hit.items():
            lines.append(f'KNOWN-FINDING: property={self.prop} {sig}: {self.known[sig].get("what", what)}')
        nviol = 0
        for sig, (what, replay) in self.rejections.items():
            path = self._write_replay(sig, {'property': self.prop, 'signature': sig, 'what': what, 'seed': self.seed,
                                            'tier': self.tier, 'replay': replay,
                                            'how': f'./check {self.prop} --replay <this file>'})
            lines.append(f'VIOLATION property={self.prop} replay={path}')
            nviol += 1
        broken = [(n, d) for n, ok, d in self.obligations if not ok]
        if (broken or self.disagreements) and not self.rejections:
            # the property is no longer shown to hold, and no failing input was found on the implementation
            first = [d for _, d in self.disagreements if d][:3]
            path = self._write_replay('unproved', {
                'property': self.prop, 'signature': 'no-failing-input-found', 'seed': self.seed, 'tier': self.tier,
                'obligations_no_longer_checking': [{'name': n, 'detail': d} for n, d in broken],
                'correspondence_layers_disagreeing': sorted({l for l, _ in self.disagreements}),
                'first_disagreements': first,
                'note': 'a theorem or the model/implementation correspondence no longer checks; the search on the '
                        'implementation found no input on which the property fails'})
            lines.append(f'VIOLATION property={self.prop} replay={path} no-failing-input-found')
            nviol += 1
        cov = dict(self.coverage)
        cov.setdefault('obligations', len(self.obligations))
        cov.setdefault('discharged', sum(1 for _, ok, _ in self.obligations if ok))
        cov.setdefault('checker_cmd', ' ; '.join(dict.fromkeys(self.checker_cmds)) or 'none')
        cov.setdefault('trusted_base', self.trusted)
        cov['obligation_list'] = [{'name': n, 'ok': ok, 'detail': d} for n, ok, d in self.obligations]
        cov['correspondence_disagreements'] = len(self.disagreements)
        cov['known_findings_reproduced'] = sorted(self.known_hit)
        if self.notes: cov['notes'] = self.notes
        ev = {'property_id': self.prop, 'tier': self.tier, 'seed': self.seed, 'level': self.level, 'coverage': cov,
              'assumptions': self.assumptions, 'wall_s': round(_clock() - self.t0, 2), 'violations': nviol}
        with open(os.path.join(VERIF, 'evidence', f'{self.prop}.json'), 'w') as f:
            json.dump(ev, f, indent=1, default=str)
        for l in lines: print(l)
        ob_ok = sum(1 for _, ok, _ in self.obligations if ok)
        print(f'[{self.prop}] tier={self.tier} seed={self.seed} obligations={ob_ok}/{len(self.obligations)}'
              f' evaluations={cov.get("evaluations", 0)} nontrivial={cov.get("distinct_nontrivial", 0)}'
              f' disagreements={len(self.disagreements)} violations={nviol} known={len(self.known_hit)}'
              f' wall={ev["wall_s"]}s')
        return 1 if nviol else 0

    def _write_replay(self, sig, obj):
        name = re.sub(r'[^A-Za-z0-9_.-]+', '_', f'{self.prop}-{sig}')[:100] + f'-s{self.seed}.json'
        path = os.path.join(VERIF, 'replays', name)
        with open(path, 'w') as f: json.dump(obj, f, indent=1, default=str)
        return os.path.relpath(path, VERIF)


def derive_seeds(seed, n):
    return [int(hashlib.sha256(f'{seed}:{k}'.encode()).hexdigest()[:8], 16) for k in range(n)]


def shrink(items, still_fails, max_tests=400):
    """ delta debugging on a list: smallest sub-list (order kept) for which `still_fails` stays true """
    tests = [0]
    def ok(x):
        tests[0] += 1
        return tests[0] <= max_tests and still_fails(x)
    cur = list(items); n = 2
    while len(cur) >= 2 and tests[0] < max_tests:
        chunk = max(1, len(cur) // n); reduced = False
        for k in range(0, len(cur), chunk):
            cand = cur[:k] + cur[k + chunk:]
            if cand and ok(cand):
                cur = cand; n = max(n - 1, 2); reduced = True; break
        if not reduced:
            if chunk == 1: break
            n = min(len(cur), n * 2)
    return cur
