""" C04 — commander-level check: proof obligations Supv.Props.C04, lock-step of the real Starter / Stopper with the Lean commander
    model, Lean monitor (Supv.Spec.Cmd) on the requests the implementation emitted.  See harness/cmdh.py. """
from cmdh import commander_check, commander_replay


def run(chk):
    commander_check(chk, 'Supv.Props.C04', ['C04-'])


def replay(chk, path):
    commander_replay(chk, path, ['C04-'])
