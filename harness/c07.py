""" C07 — silent instances are detected in bounded time, live ones never declared lost.  Proof obligations: Supv.Props.C07
    (accuracy over every history; instance graph generated from the source).  Correspondence: global lock-step of the real
    cluster with the Lean cluster model (crash / restart also quicker than detection / cut / heal instants, tick phases,
    bounded message delays, inactivity_ticks 2-3, both auto_fence settings).  Judges (Lean, on the implementation): every
    change of the state reported for a peer is an edge of the documented instance graph, the local instance is never
    ISOLATED, ISOLATED is final; (Python, on the real objects) detection bound and accuracy measured on the schedule. """
from cluster import *


def nontrivial(lines, obs, n):
    """ a peer is declared FAILED / STOPPED / ISOLATED after having been RUNNING (a detection happened) """
    seen_run = set()
    for o in obs:
        ws = o.split()[:n]
        if len(ws) < n or not all('/' in w for w in ws): continue
        for i, w in enumerate(ws):
            st = w.split('/')[2]
            for j, ch in enumerate(st):
                if ch == '3': seen_run.add((i, j))
                elif (i, j) in seen_run and ch in '045': return True
    return False


class TimedSim(RecSim):
    """ records, per peer, the local tick counter at which its last TICK was handled and every loss declaration """
    def __init__(self, net, k, n, opts):
        super().__init__(net, k, n, opts)
        self.last_tick_at = {}     # peer index -> local sequence counter when its last tick was handled
        self.local_counter = -1
        self.findings = []
        ctx = self.context
        orig_tick = ctx.on_tick_event
        def on_tick(status, event):
            before = status.times.remote_sequence_counter
            r = orig_tick(status, event)
            if ctx.local_status.state in (SupvisorsInstanceStates.CHECKED, SupvisorsInstanceStates.RUNNING):
                self.last_tick_at[self.idx[status.identifier]] = (ctx.local_sequence_counter, event['sequence_counter'] < before)
            return r
        ctx.on_tick_event = on_tick
        orig_timer = ctx.on_timer_event
        def on_timer(event):
            k = event['sequence_counter']
            inact = self.options.inactivity_ticks
            running = {self.idx[i]: st.state for i, st in ctx.instances.items()}
            r = orig_timer(event)
            for ident, st in ctx.instances.items():
                j = self.idx[ident]
                if j == self.k - 1 or j not in self.last_tick_at: continue
                at, restarted = self.last_tick_at[j]
                was = running[j]
                if was == SupvisorsInstanceStates.RUNNING:
                    if st.state == SupvisorsInstanceStates.FAILED and k - at <= inact and not restarted:
                        self.findings.append(('C07:accuracy:declared-failed-while-ticking', f'peer {j} FAILED at local tick {k}, last tick handled at {at}, inactivity_ticks={inact}'))
                    if st.state == SupvisorsInstanceStates.RUNNING and k - at > inact:
                        self.findings.append(('C07:detection:late', f'peer {j} still RUNNING at local tick {k}, last tick handled at {at}, inactivity_ticks={inact}'))
            return r
        ctx.on_timer_event = on_timer


def extra(sims, net, opts, n, info, rec):
    out = []
    for s in sims:
        out += getattr(s, 'findings', [])
    return out


def run(chk):
    chk.regen(['enum:SupvisorsInstanceStates', 'SupvisorsInstanceStatus', 'ast:is_inactive', 'WORKING_STATES', 'StateModes.STABLE_STATES', 'ast:instance_state_writers'])
    chk.prove('Supv.Props.C07', extra_targets=['drv_net'])
    if chk.tier == 'thorough': chk.leanchecker(['Supv.Props.C07'])
    cluster_check(chk, ['C07-', 'C13-left-isolated'], nontrivial,
                  'generated cluster schedules (2-4 instances, inactivity_ticks 2-3, auto_fence on/off, random tick phases, message delays '
                  'below one tick plus held proxies up to two ticks, crashes, restarts also quicker than detection, cuts, heals); '
                  'non-trivial = a peer is declared lost after having been RUNNING; distinct = distinct schedule seed',
                  quick_cases=60, thorough_cases=800, sched_kwargs={'sim_cls_name': 'TimedSim'}, extra_judge=extra)
    chk.assumptions += ['real clocks and TCP time-outs are outside the model: an XML-RPC failure is an input (cut / crash)',
                        '"at once if an XML-RPC fails" is read as: when the failure notification is handled by the instance']
    # closed loop (harness/c16free.py): a peer seen RUNNING 12 ticks into the quiet phase (no fault, no cut) is still seen RUNNING at its end
    import c16free
    c16free.liveness_stage(chk, 'C07:free:', [{}], 200, 4000)


def replay(chk, path):
    import json
    c = json.load(open(path)); r = c.get('replay', c)
    if r.get('stage') == 'free':
        import c16free
        c16free.liveness_replay(chk, r, 'C07:free:')
    else:
        replay_schedule(chk, path, ['C07-', 'C13-left-isolated'])
