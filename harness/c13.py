""" C13 — isolation is permanent, reciprocal and airtight.  Proof obligations: Supv.Props.C13.  Correspondence: global lock-step
    of the real cluster (with option mismatches between instances, duplicated / stale / forged message injections) with the
    Lean cluster model.  Judges (Lean, on the implementation observations): ISOLATED is never left; a peer whose strategies
    differ is never admitted (CHECKED / RUNNING); a message whose origin is held ISOLATED changes nothing. """
from cluster import *


def nontrivial(lines, obs, n):
    """ some instance marks a peer ISOLATED, or a forged / duplicated message is injected while a peer is isolated or checking """
    for o in obs:
        ws = o.split()[:n]
        if len(ws) == n and all('/' in w for w in ws):
            if any('5' in w.split('/')[2] for w in ws): return True
    return False


def run(chk):
    chk.regen(['enum:SupvisorsInstanceStates', 'SupvisorsInstanceStatus', 'enum:AuthorizationTypes', 'ast:is_checking'])
    chk.prove('Supv.Props.C13', extra_targets=['drv_net'])
    if chk.tier == 'thorough': chk.leanchecker(['Supv.Props.C13'])
    cluster_check(chk, ['C13-', 'C07-walk', 'C07-local-isolated'], nontrivial,
                  'generated cluster schedules with auto_fence on/off, one instance with a different strategy in ~50% of the schedules, '
                  'crashes / restarts / cuts / heals, and injections of duplicated, stale and forged-origin messages of every kind; '
                  'non-trivial = some instance marks a peer ISOLATED; distinct = distinct schedule seed',
                  quick_cases=60, thorough_cases=800, sched_kwargs={'mismatch': 0.5, 'inject': True, 'faults_max': 25})
    chk.assumptions += ['messages already dequeued by a proxy thread at the instant of isolation are outside the model (thread race)',
                        'PROCESS_ADDED is not in the statement\'s list of events restricted to admitted peers and is not judged']


def replay(chk, path):
    replay_schedule(chk, path, ['C13-', 'C07-walk', 'C07-local-isolated'])
