""" C13 — isolation is permanent, reciprocal and airtight.  Proof obligations: Supv.Props.C13.  Correspondence: global lock-step
    of the real cluster (with option mismatches between instances, duplicated / stale / forged message injections) with the
    Lean cluster model.  Judges (Lean, on the implementation observations): ISOLATED is never left; a peer whose strategies
    differ is never admitted (CHECKED / RUNNING); a message whose origin is held ISOLATED changes nothing. """
from cluster import *


def nontrivial(lines, obs, n):
    """ some instance marks a peer ISOLATED, or a forged / duplicated message is injected while a peer is isolated or checking """
    for o in obs:
        ws = o.split()[:n]
        if len(ws) == n and all('/' in w for w in ws):
            if any('5' in w.split('/')[2] for w in ws): return True
    return False


def run(chk):
    chk.regen(['enum:SupvisorsInstanceStates', 'SupvisorsInstanceStatus', 'enum:AuthorizationTypes', 'ast:is_checking'])
    chk.prove('Supv.Props.C13', extra_targets=['drv_net'])
    if chk.tier == 'thorough': chk.leanchecker(['Supv.Props.C13'])
    cluster_check(chk, ['C13-', 'C07-walk', 'C07-local-isolated'], nontrivial,
                  'generated cluster schedules with auto_fence on/off, one instance with a different strategy in ~50% of the schedules, '
                  'crashes / restarts / cuts / heals, and injections of duplicated, stale and forged-origin messages of every kind; '
                  'non-trivial = some instance marks a peer ISOLATED; distinct = distinct schedule seed',
                  quick_cases=60, thorough_cases=800, sched_kwargs={'mismatch': 0.5, 'inject': True, 'faults_max': 25})
    cov1 = dict(chk.coverage)
    # second stream: the same with programs in the Supervisors - process state and removal events (also duplicated / stale, from peers
    # that are STOPPED, CHECKING, FAILED or ISOLATED in the receiver's view) must only count from CHECKED / RUNNING peers
    st2 = cluster_check(chk, ['C13-'], lambda lines, obs, n: any(l.startswith('act') and l.split()[2] in ('pev', 'prm') for l in lines),
                        'the same with 1-3 programs per Supervisor, process state events and removals, injections of stale process data',
                        quick_cases=30, thorough_cases=500,
                        sched_kwargs={'mismatch': 0.4, 'inject': True, 'faults_max': 20, 'procs': True, 'rpc_names': ('end_sync',)})
    cov2 = dict(chk.coverage)
    chk.coverage.update(cov1)
    chk.coverage['evaluations'] = cov1.get('evaluations', 0) + cov2.get('evaluations', 0)
    chk.coverage['distinct_nontrivial'] = cov1.get('distinct_nontrivial', 0) + cov2.get('distinct_nontrivial', 0)
    chk.coverage['traces_validated_against_impl'] = chk.coverage['evaluations']
    chk.coverage['process_stream'] = {'schedules': st2['evaluations'], 'global_steps': st2['steps'], 'action_kinds': st2['kinds'],
                                      'rule': cov2.get('rule'), 'distinct_nontrivial': cov2.get('distinct_nontrivial')}
    chk.assumptions += ['messages already dequeued by a proxy thread at the instant of isolation are outside the model (thread race)',
                        'PROCESS_ADDED is not in the statement\'s list of events restricted to admitted peers and is not judged; disability events are covered at the commander level (./check C04)']
    # closed loop (harness/c16free.py: real proxies, commanders, fake Supervisors): no XML-RPC ever leaves an instance for a peer it holds ISOLATED
    import c16free
    c16free.liveness_stage(chk, 'C13:free:', [{}], 400, 4000)


def replay(chk, path):
    import json
    c = json.load(open(path)); r = c.get('replay', c)
    if r.get('stage') == 'free':
        import c16free
        c16free.liveness_replay(chk, r, 'C13:free:')
    else:
        replay_schedule(chk, path, ['C13-', 'C07-walk', 'C07-local-isolated'])
