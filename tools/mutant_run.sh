#!/bin/sh
# usage: tools/mutant_run.sh <patch.diff | revert:COMMIT> <Cxx> [Cyy ...]
# Applies a change to a SCRATCH copy of /repo under /var/tmp (never to /repo), runs the quick checks on it through SUPVISORS_REPO,
# prints their verdict lines, removes the copy and restores the generated files / evidence of the real tree.
set -e
cd "$(dirname "$0")/.."
M=/var/tmp/supv-verif-mut-$$
rm -rf $M; mkdir -p $M; cp -r /repo/supvisors $M/supvisors
case "$1" in
  revert:*) (cd /repo && git show "${1#revert:}" -- supvisors) | (cd $M && patch -R -p1 -s) ;;
  *) (cd $M && patch -p1 -s < "$1") ;;
esac
shift
for p in "$@"; do
  echo "== $p on mutant"
  SUPVISORS_REPO=$M timeout 1800 ./check $p 2>&1 | grep -E "VIOLATION|KNOWN-FINDING|^\[" | cut -c1-220 || true
done
rm -rf $M
/venv/bin/python tools/extract.py >/dev/null
for p in "$@"; do ./check $p 2>&1 | grep -E "VIOLATION|^\[" | cut -c1-160; done
