""" Translator, C18 part: constants, enumerations and literal bounds of the CURRENT supvisors source
    -> lean/Supv/Gen/C18.lean (rewritten only when its content changes).
    generate_c18(repo, outdir) -> list of (anchor, ok, detail).  Data only: no semantics is extracted.
    The source is read in a SUBPROCESS so that the values are those of the tree named by `repo`. """
import os, sys, json, subprocess

PROBE = r'''
import sys, json, ast, inspect, textwrap
repo = sys.argv[1]
sys.path.insert(0, repo)
import supvisors, os
assert os.path.realpath(os.path.dirname(supvisors.__file__)).startswith(os.path.realpath(repo)), supvisors.__file__
out = {}
def anchor(name, fn):
    try:
        out[name] = {'ok': True, 'value': fn()}
    except Exception as e:
        out[name] = {'ok': False, 'value': None, 'detail': f'{type(e).__name__}: {e}'}
from supvisors import ttypes
from supvisors.options import SupvisorsOptions
from supvisors.sparser import Parser
for nm in ['StartingFailureStrategies', 'RunningFailureStrategies', 'DistributionRules', 'StartingStrategies', 'ConciliationStrategies',
           'SupvisorsFailureStrategies', 'EventLinks', 'SynchronizationOptions', 'StatisticsTypes']:
    anchor('enum:' + nm, lambda nm=nm: [m.name for m in getattr(ttypes, nm)])
anchor('LOOP_CHECK', lambda: Parser.LOOP_CHECK)
anchor('SYNCHRO_DEFAULT_OPTIONS', lambda: [x.name for x in SupvisorsOptions.SYNCHRO_DEFAULT_OPTIONS])
anchor('RESERVED_MULTICAST_ADDRESSES', lambda: list(SupvisorsOptions.RESERVED_MULTICAST_ADDRESSES))
anchor('timeoutBounds', lambda: [SupvisorsOptions.SYNCHRO_TIMEOUT_MIN, SupvisorsOptions.SYNCHRO_TIMEOUT_MAX])
anchor('ticksBounds', lambda: [SupvisorsOptions.INACTIVITY_TICKS_MIN, SupvisorsOptions.INACTIVITY_TICKS_MAX])
def fn_ast(obj): return ast.parse(textwrap.dedent(inspect.getsource(obj)))
def num(c):
    v = c.value
    if isinstance(v, float):
        assert v == int(v), f'non-integral bound {v}'
        return int(v)
    assert isinstance(v, int) and not isinstance(v, bool), f'unexpected constant {v!r}'
    return v
def compare_consts(obj):
    """ numeric constants of the comparisons of a function, with the operators, in source order; a comparison that is the
        operand of `not` gets the pseudo-operator "Not" first (`not (1.0 <= x <= 3600.0)` -> ["Not", "LtE", "LtE"], [1, 3600]) """
    tree = fn_ast(obj)
    negated = {id(n.operand) for n in ast.walk(tree) if isinstance(n, ast.UnaryOp) and isinstance(n.op, ast.Not)}
    found = []
    for n in ast.walk(tree):
        if isinstance(n, ast.Compare):
            consts = [num(c) for c in [n.left] + n.comparators if isinstance(c, ast.Constant) and isinstance(c.value, (int, float)) and not isinstance(c.value, bool)]
            if consts:
                ops = (['Not'] if id(n) in negated else []) + [type(o).__name__ for o in n.ops]
                found.append(((n.lineno, n.col_offset), [ops, consts]))
    return [x for _, x in sorted(found, key=lambda t: t[0])]
def synchro_default_shared():
    """ is the default handed to _get_value for 'synchro_options' the class attribute itself (a shared, mutable list)? """
    for n in ast.walk(fn_ast(SupvisorsOptions.__init__)):
        if isinstance(n, ast.Call) and isinstance(n.func, ast.Attribute) and n.func.attr == '_get_value' and len(n.args) >= 3 \
                and isinstance(n.args[1], ast.Constant) and n.args[1].value == 'synchro_options':
            arg = n.args[2]
            return isinstance(arg, (ast.Attribute, ast.Name))
    raise AssertionError("no _get_value(config, 'synchro_options', ...) call")
anchor('synchro-default-shared', synchro_default_shared)
def tuple_arg(obj):
    """ the (min, max) tuple literal passed to to_integer """
    for n in ast.walk(fn_ast(obj)):
        if isinstance(n, ast.Tuple) and len(n.elts) == 2 and all(isinstance(e, ast.Constant) and isinstance(e.value, int) for e in n.elts):
            return [e.value for e in n.elts]
    raise AssertionError('no (min, max) tuple literal')
anchor('cmp:to_histo', lambda: compare_consts(SupvisorsOptions.to_histo))
anchor('cmp:to_period', lambda: compare_consts(SupvisorsOptions.to_period))
anchor('cmp:to_periods', lambda: compare_consts(SupvisorsOptions.to_periods))
anchor('cmp:to_integer', lambda: [[type(o).__name__ for o in n.ops] for n in ast.walk(fn_ast(SupvisorsOptions.to_integer)) if isinstance(n, ast.Compare)])
anchor('cmp:to_timeout', lambda: [[type(o).__name__ for o in n.ops] for n in ast.walk(fn_ast(SupvisorsOptions.to_timeout)) if isinstance(n, ast.Compare)])
anchor('cmp:to_ticks', lambda: [[type(o).__name__ for o in n.ops] for n in ast.walk(fn_ast(SupvisorsOptions.to_ticks)) if isinstance(n, ast.Compare)])
anchor('tuple:to_ttl', lambda: tuple_arg(SupvisorsOptions.to_ttl))
anchor('tuple:to_port_num', lambda: tuple_arg(SupvisorsOptions.to_port_num))
anchor('cmp:load_expected_loading', lambda: compare_consts(Parser.load_expected_loading))
anchor('cmp:load_sequence', lambda: compare_consts(Parser.load_sequence))
def byte_tuples():
    res = []
    for f in (SupvisorsOptions.to_ip_address, SupvisorsOptions._check_multicast_address):
        for n in ast.walk(fn_ast(f)):
            if isinstance(n, ast.Tuple) and len(n.elts) == 2 and all(isinstance(e, ast.Constant) and isinstance(e.value, int) for e in n.elts):
                res.append([e.value for e in n.elts])
    return res
anchor('tuple:ip-bytes', byte_tuples)
print(json.dumps(out))
'''


def write_if_changed(path, text):
    old = open(path).read() if os.path.exists(path) else None
    if old != text:
        os.makedirs(os.path.dirname(path), exist_ok=True)
        with open(path, 'w') as f: f.write(text)
        return True
    return False


def lstr(xs): return '[' + ', '.join('"' + str(x) + '"' for x in xs) + ']'
def lint(xs): return '[' + ', '.join(str(int(x)) for x in xs) + ']'


def generate_c18(repo, outdir):
    r = subprocess.run([sys.executable, '-c', PROBE, repo], capture_output=True, text=True, timeout=120)
    if r.returncode != 0:
        return [('c18-probe', False, r.stderr[-600:])]
    data = json.loads(r.stdout.strip().split('\n')[-1])
    results = [(k, v['ok'], v.get('detail', 'extracted')) for k, v in data.items()]
    def val(k, default):
        v = data.get(k)
        return v['value'] if v and v['ok'] else default
    L = ['/-! GENERATED by tools/extract_c18.py from the current /repo source on every run of `./check C18` — do not edit. -/', '',
         'namespace Supv.Gen.C18', '']
    for nm, lean in [('StartingFailureStrategies', 'sfsNames'), ('RunningFailureStrategies', 'rfsNames'), ('DistributionRules', 'distNames'),
                     ('StartingStrategies', 'startNames'), ('ConciliationStrategies', 'concNames'), ('SupvisorsFailureStrategies', 'failNames'),
                     ('EventLinks', 'linkNames'), ('SynchronizationOptions', 'syncNames'), ('StatisticsTypes', 'statNames')]:
        L.append(f'/-- member names of `ttypes.{nm}` in declaration order -/')
        L.append(f"def {lean} : List String := {lstr(val('enum:' + nm, []))}")
    L.append(f"def loopCheck : Nat := {val('LOOP_CHECK', 0)}")
    L.append(f"def syncDefault : List String := {lstr(val('SYNCHRO_DEFAULT_OPTIONS', []))}")
    L.append('/-- the default of `synchro_options` handed to `_get_value` is the class attribute itself (shared, mutable) -/')
    L.append(f"def syncDefaultShared : Bool := {'true' if val('synchro-default-shared', True) else 'false'}")
    L.append(f"def reservedMulticast : List String := {lstr(val('RESERVED_MULTICAST_ADDRESSES', []))}")
    L.append(f"def timeoutBounds : List Int := {lint(val('timeoutBounds', []))}")
    L.append(f"def ticksBounds : List Int := {lint(val('ticksBounds', []))}")
    L.append(f"def ttlBounds : List Int := {lint(val('tuple:to_ttl', []))}")
    L.append(f"def portBounds : List Int := {lint(val('tuple:to_port_num', []))}")
    L.append('/-- the (min, max) tuples of `to_ip_address` and `_check_multicast_address`, in source order -/')
    L.append('def ipByteBounds : List (List Int) := [' + ', '.join(lint(t) for t in val('tuple:ip-bytes', [])) + ']')
    def cmps(k):
        return '[' + ', '.join('(' + lstr(ops) + ', ' + lint(cs) + ')' for ops, cs in val(k, [])) + ']'
    L.append('/-- comparisons with numeric literals, in source order: (operators, constants) -/')
    L.append(f"def histoCmps : List (List String × List Int) := {cmps('cmp:to_histo')}")
    L.append(f"def periodCmps : List (List String × List Int) := {cmps('cmp:to_period')}")
    L.append(f"def periodsCmps : List (List String × List Int) := {cmps('cmp:to_periods')}")
    L.append(f"def loadCmps : List (List String × List Int) := {cmps('cmp:load_expected_loading')}")
    L.append(f"def seqCmps : List (List String × List Int) := {cmps('cmp:load_sequence')}")
    def ops(k):
        return '[' + ', '.join(lstr(o) for o in val(k, [])) + ']'
    L.append('/-- comparison operators of the converters that compare with named constants -/')
    L.append(f"def toIntegerOps : List (List String) := {ops('cmp:to_integer')}")
    L.append(f"def toTimeoutOps : List (List String) := {ops('cmp:to_timeout')}")
    L.append(f"def toTicksOps : List (List String) := {ops('cmp:to_ticks')}")
    L += ['', 'end Supv.Gen.C18', '']
    write_if_changed(os.path.join(outdir, 'C18.lean'), '\n'.join(L))
    return results


if __name__ == '__main__':
    here = os.path.dirname(os.path.dirname(os.path.abspath(__file__)))
    for r in generate_c18(os.environ.get('SUPVISORS_REPO', '/repo'), os.path.join(here, 'lean', 'Supv', 'Gen')):
        print(r)
