""" Translator: regenerates lean/Supv/Gen/*.lean from the CURRENT source of supvisors (data and call structure only).
    generate(repo, outdir) -> list of (anchor, ok, detail); files are rewritten only when their content changes. """
import os, sys, ast


def write_if_changed(path, text):
    old = open(path).read() if os.path.exists(path) else None
    if old != text:
        os.makedirs(os.path.dirname(path), exist_ok=True)
        with open(path, 'w') as f: f.write(text)
        return True
    return False


def generate(repo, outdir):
    results = []
    return results


if __name__ == '__main__':
    here = os.path.dirname(os.path.dirname(os.path.abspath(__file__)))
    for r in generate(os.environ.get('SUPVISORS_REPO', '/repo'), os.path.join(here, 'lean', 'Supv', 'Gen')):
        print(r)
