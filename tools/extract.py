""" Translator: regenerates lean/Supv/Gen/*.lean from the CURRENT source of supvisors (data and call structure only).
    generate(repo, outdir) -> list of (anchor, ok, detail); files are rewritten only when their content changes.

    The source tree is read in a SUBPROCESS (fresh interpreter, `repo` first on sys.path) so that the tables are those of
    the working tree named by `repo`, whatever the calling process has already imported. """
import os, sys, ast, json, subprocess

PROBE = r'''
import sys, json, ast, inspect
repo = sys.argv[1]
sys.path.insert(0, repo)
import supvisors, os
assert os.path.realpath(os.path.dirname(supvisors.__file__)).startswith(os.path.realpath(repo)), supvisors.__file__
out = {}
def anchor(name, fn):
    try:
        out[name] = {'ok': True, 'value': fn()}
    except Exception as e:
        out[name] = {'ok': False, 'value': None, 'detail': f'{type(e).__name__}: {e}'}

from supvisors import ttypes
def enum(cls): return [[m.name, m.value] for m in cls]
for nm in ['SupvisorsInstanceStates', 'SupvisorsStates', 'ApplicationStates', 'StartingStrategies', 'ConciliationStrategies',
           'StartingFailureStrategies', 'RunningFailureStrategies', 'SupvisorsFailureStrategies', 'DistributionRules',
           'SynchronizationOptions', 'AuthorizationTypes', 'ProcessRequestResult']:
    anchor('enum:' + nm, lambda nm=nm: enum(getattr(ttypes, nm)))
anchor('WORKING_STATES', lambda: [s.value for s in ttypes.WORKING_STATES])
anchor('CLOSING_STATES', lambda: [s.value for s in ttypes.CLOSING_STATES])
def fsm_table():
    from supvisors.statemachine import FiniteStateMachine
    return [[a.value, [b.value for b in bs]] for a, bs in FiniteStateMachine._Transitions.items()]
anchor('FiniteStateMachine._Transitions', fsm_table)
def fsm_classes():
    from supvisors.statemachine import FiniteStateMachine
    return [[a.value, c.__name__] for a, c in FiniteStateMachine._StateInstances.items()]
anchor('FiniteStateMachine._StateInstances', fsm_classes)
def inst_table():
    from supvisors.instancestatus import SupvisorsInstanceStatus
    return [[a.value, [b.value for b in bs]] for a, bs in SupvisorsInstanceStatus._Transitions.items()]
anchor('SupvisorsInstanceStatus._Transitions', inst_table)
def stable_states():
    from supvisors.statemodes import StateModes
    return [s.value for s in StateModes.STABLE_STATES]
anchor('StateModes.STABLE_STATES', stable_states)
def active_states():
    # the list literal inside SupvisorsInstanceStatus.has_active_state
    from supvisors.instancestatus import SupvisorsInstanceStatus
    src = inspect.getsource(SupvisorsInstanceStatus.has_active_state)
    import textwrap
    tree = ast.parse(textwrap.dedent(src))
    names = [n.attr for n in ast.walk(tree) if isinstance(n, ast.Attribute) and isinstance(n.value, ast.Name)
             and n.value.id == 'SupvisorsInstanceStates']
    assert names, 'no SupvisorsInstanceStates literal found'
    return [ttypes.SupvisorsInstanceStates[x].value for x in names]
anchor('SupvisorsInstanceStatus.has_active_state', active_states)
def proc_states():
    from supervisor import states
    return {'running': [int(s) for s in states.RUNNING_STATES], 'stopped': [int(s) for s in states.STOPPED_STATES]}
anchor('supervisor.states', proc_states)
def consts():
    from supvisors.commander import ProcessCommand
    from supvisors.options import SupvisorsOptions
    from supvisors.sparser import Parser
    from supvisors.utils import TICK_PERIOD
    return {'DEFAULT_TICK_TIMEOUT': ProcessCommand.DEFAULT_TICK_TIMEOUT, 'SYNCHRO_TIMEOUT_MIN': SupvisorsOptions.SYNCHRO_TIMEOUT_MIN,
            'SYNCHRO_TIMEOUT_MAX': SupvisorsOptions.SYNCHRO_TIMEOUT_MAX,
            'INACTIVITY_TICKS_MIN': SupvisorsOptions.INACTIVITY_TICKS_MIN, 'INACTIVITY_TICKS_MAX': SupvisorsOptions.INACTIVITY_TICKS_MAX,
            'LOOP_CHECK': Parser.LOOP_CHECK, 'TICK_PERIOD': TICK_PERIOD}
anchor('constants', consts)

# ---- AST anchors: comparison operators / picks at named decision points (G6)
import textwrap
def fn_ast(obj): return ast.parse(textwrap.dedent(inspect.getsource(obj)))
def cmp_ops(obj):
    return [type(op).__name__ for n in ast.walk(fn_ast(obj)) if isinstance(n, ast.Compare) for op in n.ops]
def is_inactive_ops():
    from supvisors.instancestatus import SupvisorsInstanceStatus
    return cmp_ops(SupvisorsInstanceStatus.is_inactive)
anchor('ast:is_inactive', is_inactive_ops)
def is_checking_ops():
    from supvisors.instancestatus import SupvisorsInstanceStatus
    return cmp_ops(SupvisorsInstanceStatus.is_checking)
anchor('ast:is_checking', is_checking_ops)
def set_state_writers():
    # `state_modes.state = ...` must only occur inside FiniteStateMachine.set_state
    import supvisors.statemachine as sm
    tree = ast.parse(open(sm.__file__).read())
    writers = []
    for cls in [n for n in tree.body if isinstance(n, ast.ClassDef)]:
        for fn in [n for n in cls.body if isinstance(n, ast.FunctionDef)]:
            for n in ast.walk(fn):
                if isinstance(n, ast.Assign):
                    for t in n.targets:
                        if isinstance(t, ast.Attribute) and t.attr == 'state' and isinstance(t.value, ast.Attribute) \
                                and t.value.attr == 'state_modes':
                            writers.append(f'{cls.name}.{fn.name}')
    return writers
anchor('ast:fsm_state_writers', set_state_writers)
def load_cap():
    # the constant in `is_loading_valid`-like checks of strategy.py: `... <= 100`
    import supvisors.strategy as st
    tree = ast.parse(open(st.__file__).read())
    res = []
    for fn in [n for n in ast.walk(tree) if isinstance(n, ast.FunctionDef) and n.name in ('is_loading_valid',)]:
        for n in ast.walk(fn):
            if isinstance(n, ast.Compare):
                consts = [c.value for c in [n.left] + n.comparators if isinstance(c, ast.Constant)]
                res.append([[type(op).__name__ for op in n.ops], consts])
    assert res, 'is_loading_valid not found'
    return res
anchor('ast:is_loading_valid', load_cap)
def fsm_decisions():
    # G5: for each FSM state, the SupvisorsStates literals its state class can RETURN from `next` (resolved through the MRO,
    # `super()` and `self.` calls whose result is returned), and whether it can return the Master's state
    import supvisors.statemachine as sm
    from supvisors.statemachine import FiniteStateMachine
    memo = {}
    def find(cls, start, meth):
        mro = cls.__mro__
        for k in mro[mro.index(start):]:
            if meth in k.__dict__: return k
        return None
    def lits(cls, start, meth, stack=()):
        d = find(cls, start, meth)
        if d is None or (d, meth) in stack: return set()
        key = (cls, d, meth)
        if key in memo: return memo[key]
        fn = ast.parse(textwrap.dedent(inspect.getsource(d.__dict__[meth]))).body[0]
        res = set()
        assigns = {}
        for n in ast.walk(fn):
            if isinstance(n, (ast.Assign, ast.AnnAssign)):
                targets = n.targets if isinstance(n, ast.Assign) else [n.target]
                for t in targets:
                    if isinstance(t, ast.Name) and n.value is not None: assigns.setdefault(t.id, []).append(n.value)
        def from_expr(e):
            out = set()
            if isinstance(e, ast.Attribute) and isinstance(e.value, ast.Name) and e.value.id == 'SupvisorsStates': out.add(e.attr)
            elif isinstance(e, ast.Attribute) and e.attr == 'master_state': out.add('@MASTER')
            elif isinstance(e, ast.Name):
                for v in assigns.get(e.id, []): out |= from_expr(v)
            elif isinstance(e, ast.Call) and isinstance(e.func, ast.Attribute):
                f = e.func
                if isinstance(f.value, ast.Call) and isinstance(f.value.func, ast.Name) and f.value.func.id == 'super':
                    mro = cls.__mro__
                    nxt = mro[mro.index(d) + 1]
                    out |= lits(cls, nxt, f.attr, stack + ((d, meth),))
                elif isinstance(f.value, ast.Name) and f.value.id == 'self':
                    out |= lits(cls, cls, f.attr, stack + ((d, meth),))
            elif isinstance(e, ast.IfExp): out |= from_expr(e.body) | from_expr(e.orelse)
            return out
        for n in ast.walk(fn):
            if isinstance(n, ast.Return) and n.value is not None: res |= from_expr(n.value)
        memo[key] = res
        return res
    table = []
    for state, cls in FiniteStateMachine._StateInstances.items():
        r = lits(cls, cls, 'next')
        table.append([state.value, sorted(ttypes.SupvisorsStates[x].value for x in r if not x.startswith('@')), '@MASTER' in r])
    return table
anchor('ast:fsm_decisions', fsm_decisions)

def instance_state_writers():
    """ G6: every assignment of a SupvisorsInstanceStatus state in context.py with the instance states under which it is
        reached, read off the guards in the source (`X.state == S`, `X.state in [..]`, `X.has_active_state()`,
        `X.is_checking(..)`, `X.is_inactive(..)`, early returns `if not GUARD: return`, calls to `self.invalidate`). """
    import textwrap
    from supvisors.context import Context
    from supvisors.instancestatus import SupvisorsInstanceStatus
    IS = ttypes.SupvisorsInstanceStates
    ALL = [x.value for x in IS]
    def lit_states(node):
        return [IS[n.attr].value for n in ast.walk(node) if isinstance(n, ast.Attribute) and isinstance(n.value, ast.Name)
                and n.value.id == 'SupvisorsInstanceStates']
    # state sets of the predicates of SupvisorsInstanceStatus (resolved through the predicates they call)
    pred_cache = {}
    def pred_states(name, depth=0):
        if name in pred_cache: return pred_cache[name]
        fn = getattr(SupvisorsInstanceStatus, name)
        fn = fn.fget if isinstance(fn, property) else fn
        tree = ast.parse(textwrap.dedent(inspect.getsource(fn)))
        ret = [n for n in ast.walk(tree) if isinstance(n, ast.Return)][-1].value
        res = guard_states(ret, 'self', depth + 1)
        pred_cache[name] = res
        return res
    def is_state_of(node, var):
        # `var.state` / `self.local_status.state` / `self.state` / `self._state`
        if not isinstance(node, ast.Attribute) or node.attr not in ('state', '_state'): return False
        return ast.unparse(node.value) == var
    def guard_states(test, var, depth=0):
        """ instance states of `var` under which `test` can hold (None = no constraint) """
        if isinstance(test, ast.BoolOp) and isinstance(test.op, ast.And):
            sets = [guard_states(v, var, depth) for v in test.values]
            sets = [x for x in sets if x is not None]
            if not sets: return None
            r = set(sets[0])
            for x in sets[1:]: r &= set(x)
            return sorted(r)
        if isinstance(test, ast.BoolOp) and isinstance(test.op, ast.Or):
            sets = [guard_states(v, var, depth) for v in test.values]
            if any(x is None for x in sets): return None
            return sorted(set().union(*map(set, sets)))
        if isinstance(test, ast.UnaryOp) and isinstance(test.op, ast.Not):
            if isinstance(test.operand, ast.UnaryOp) and isinstance(test.operand.op, ast.Not):
                return guard_states(test.operand.operand, var, depth)
            inner = guard_states(test.operand, var, depth)
            # the complement is only exact for pure state tests
            if inner is not None and pure_state_test(test.operand, var): return sorted(set(ALL) - set(inner))
            return None
        if isinstance(test, ast.Compare) and len(test.ops) == 1 and is_state_of(test.left, var):
            vals = lit_states(test.comparators[0])
            if isinstance(test.ops[0], (ast.Eq, ast.In)): return sorted(vals)
            if isinstance(test.ops[0], (ast.NotEq, ast.NotIn)): return sorted(set(ALL) - set(vals))
        if isinstance(test, ast.Call) and isinstance(test.func, ast.Attribute) and ast.unparse(test.func.value) == var \
                and hasattr(SupvisorsInstanceStatus, test.func.attr) and depth < 4:
            return pred_states(test.func.attr, depth)
        if isinstance(test, ast.Attribute) and ast.unparse(test.value) == var and isinstance(getattr(SupvisorsInstanceStatus, test.attr, None), property) \
                and test.attr not in ('state',) and depth < 4:
            return pred_states(test.attr, depth)
        return None
    def pure_state_test(test, var):
        if isinstance(test, ast.Compare) and len(test.ops) == 1 and is_state_of(test.left, var): return True
        if isinstance(test, ast.Call) and isinstance(test.func, ast.Attribute) and test.func.attr == 'has_active_state': return True
        return False
    def meet(a, b):
        if a is None: return b
        if b is None: return a
        return sorted(set(a) & set(b))
    sites = []; calls = []     # (function, variable, target, guard) ; (function, callee, arg variable, guard)
    def returns(body): return any(isinstance(x, (ast.Return, ast.Raise)) for x in body)
    def walk(fname, body, guards):
        """ guards: dict variable -> states or None """
        guards = dict(guards)
        for st in body:
            if isinstance(st, ast.Assign) and len(st.targets) == 1 and isinstance(st.targets[0], ast.Attribute) \
                    and st.targets[0].attr == 'state' and lit_states(st.value):
                var = ast.unparse(st.targets[0].value)
                sites.append((fname, var, lit_states(st.value)[0], guards.get(var)))
            for n in ast.walk(st) if not isinstance(st, (ast.If, ast.For, ast.While, ast.Try, ast.With)) else []:
                if isinstance(n, ast.Call) and isinstance(n.func, ast.Attribute) and ast.unparse(n.func.value) == 'self' \
                        and hasattr(Context, n.func.attr) and n.args:
                    var = ast.unparse(n.args[0])
                    calls.append((fname, n.func.attr, var, guards.get(var)))
            if isinstance(st, ast.If):
                tested = {v for v in list(guards) + vars_in(st.test)}
                g_then = dict(guards); g_else = dict(guards)
                for v in tested:
                    g = guard_states(st.test, v)
                    g_then[v] = meet(guards.get(v), g)
                    neg = guard_states(ast.UnaryOp(op=ast.Not(), operand=st.test), v)
                    g_else[v] = meet(guards.get(v), neg)
                walk(fname, st.body, g_then)
                walk(fname, st.orelse, g_else)
                # early return: the rest of the block runs under the negation
                if returns(st.body) and not st.orelse: guards = g_else
            elif isinstance(st, (ast.For, ast.While, ast.With)):
                walk(fname, st.body, guards)
            elif isinstance(st, ast.Try):
                walk(fname, st.body, guards)
                for h in st.handlers: walk(fname, h.body, guards)
                walk(fname, st.finalbody, guards)
    def vars_in(test):
        out = []
        for n in ast.walk(test):
            if isinstance(n, ast.Attribute) and n.attr in ('state', '_state'): out.append(ast.unparse(n.value))
            if isinstance(n, ast.Call) and isinstance(n.func, ast.Attribute) and hasattr(SupvisorsInstanceStatus, n.func.attr):
                out.append(ast.unparse(n.func.value))
        return out
    trees = {}
    for name, fn in inspect.getmembers(Context, predicate=inspect.isfunction):
        tree = ast.parse(textwrap.dedent(inspect.getsource(fn))).body[0]
        trees[name] = tree
        walk(name, tree.body, {})
    # interprocedural: a function whose sites are unguarded on its first parameter inherits the guards of its call sites
    out = []
    for fname, var, target, guard in sites:
        params = [a.arg for a in trees[fname].args.args[1:]]
        if guard is None and var in params:
            cs = [g for (caller, callee, argvar, g) in calls if callee == fname]
            if cs and all(g is not None for g in cs): guard = sorted(set().union(*map(set, cs)))
        out.append([f'{fname}:{var}', sorted(guard) if guard is not None else ALL, target])
    assert out, 'no assignment site found'
    return sorted(out)
anchor('ast:instance_state_writers', instance_state_writers)
print(json.dumps(out))
'''


def write_if_changed(path, text):
    old = open(path).read() if os.path.exists(path) else None
    if old != text:
        os.makedirs(os.path.dirname(path), exist_ok=True)
        with open(path, 'w') as f: f.write(text)
        return True
    return False


def probe(repo):
    r = subprocess.run([sys.executable, '-c', PROBE, repo], capture_output=True, text=True, timeout=120)
    if r.returncode != 0:
        raise RuntimeError('translator probe failed: ' + r.stderr[-800:])
    return json.loads(r.stdout.strip().split('\n')[-1])


def lean_list(xs):
    return '[' + ', '.join(str(x) for x in xs) + ']'


def lean_table(t):
    return '[' + ', '.join(f'({a}, {lean_list(bs)})' for a, bs in t) + ']'


def generate(repo, outdir):
    data = probe(repo)
    results = [(k, v['ok'], v.get('detail', 'extracted')) for k, v in data.items()]
    def val(k, default):
        v = data.get(k)
        return v['value'] if v and v['ok'] else default
    L = ['/-! GENERATED by tools/extract.py from the current /repo source on every run — do not edit. -/', '',
         'namespace Supv.Gen', '']
    for nm in ['SupvisorsInstanceStates', 'SupvisorsStates', 'ApplicationStates', 'StartingStrategies', 'ConciliationStrategies',
               'StartingFailureStrategies', 'RunningFailureStrategies', 'SupvisorsFailureStrategies', 'DistributionRules',
               'SynchronizationOptions', 'AuthorizationTypes', 'ProcessRequestResult']:
        e = val('enum:' + nm, [])
        L.append(f'/-- `ttypes.{nm}`: member names and values, in declaration order -/')
        L.append(f'def enum{nm} : List (String × Nat) := [' + ', '.join(f'("{n}", {v})' for n, v in e) + ']')
    L.append('')
    L.append('/-- `FiniteStateMachine._Transitions` (state value ↦ allowed next state values) -/')
    L.append(f"def fsmTable : List (Nat × List Nat) := {lean_table(val('FiniteStateMachine._Transitions', []))}")
    L.append('/-- `SupvisorsInstanceStatus._Transitions` -/')
    L.append(f"def instTable : List (Nat × List Nat) := {lean_table(val('SupvisorsInstanceStatus._Transitions', []))}")
    L.append(f"def workingStates : List Nat := {lean_list(val('WORKING_STATES', []))}")
    L.append(f"def closingStates : List Nat := {lean_list(val('CLOSING_STATES', []))}")
    L.append('/-- `StateModes.STABLE_STATES` -/')
    L.append(f"def stableStates : List Nat := {lean_list(val('StateModes.STABLE_STATES', []))}")
    L.append('/-- the list literal of `SupvisorsInstanceStatus.has_active_state` -/')
    L.append(f"def activeStates : List Nat := {lean_list(val('SupvisorsInstanceStatus.has_active_state', []))}")
    ps = val('supervisor.states', {'running': [], 'stopped': []})
    L.append(f"def procRunningStates : List Nat := {lean_list(ps['running'])}")
    L.append(f"def procStoppedStates : List Nat := {lean_list(ps['stopped'])}")
    cs = val('constants', {})
    for k in ['DEFAULT_TICK_TIMEOUT', 'SYNCHRO_TIMEOUT_MIN', 'SYNCHRO_TIMEOUT_MAX', 'INACTIVITY_TICKS_MIN', 'INACTIVITY_TICKS_MAX',
              'LOOP_CHECK', 'TICK_PERIOD']:
        name = ''.join(w.capitalize() for w in k.lower().split('_')); name = name[0].lower() + name[1:]
        L.append(f'def {name} : Nat := {cs.get(k, 0)}')
    L.append('/-- comparison operators of `is_inactive` (expected: a single strict `>`) -/')
    L.append('def isInactiveOps : List String := [' + ', '.join(f'"{x}"' for x in val('ast:is_inactive', [])) + ']')
    L.append('def isCheckingOps : List String := [' + ', '.join(f'"{x}"' for x in val('ast:is_checking', [])) + ']')
    L.append('/-- methods of statemachine.py that assign `state_modes.state` (expected: only `FiniteStateMachine.set_state`) -/')
    L.append('def fsmStateWriters : List String := [' + ', '.join(f'"{x}"' for x in val('ast:fsm_state_writers', [])) + ']')
    dec = val('ast:fsm_decisions', [])
    L.append('/-- G5: per FSM state, the states its state class can RETURN from `next` as literals (resolved through the MRO), and whether it\n    can return the state of the Master (`_slave_next`) -/')
    L.append('def fsmDecisions : List (Nat × List Nat × Bool) := [' + ', '.join(f'({a}, {lean_list(b)}, {str(c).lower()})' for a, b, c in dec) + ']')
    sites = val('ast:instance_state_writers', [])
    L.append('/-- G6: every assignment of an instance state in context.py: (function:variable, instance states under which it is reached, target) -/')
    L.append('def instStateWriters : List (String × List Nat × Nat) := [' + ', '.join(f'("{a}", {lean_list(b)}, {c})' for a, b, c in sites) + ']')
    lc = val('ast:is_loading_valid', [])
    L.append('/-- comparisons inside `is_loading_valid`: (operators, constants) -/')
    L.append('def loadingValidCmps : List (List String × List Nat) := [' +
             ', '.join('([' + ', '.join(f'"{o}"' for o in ops) + '], ' + lean_list([c for c in consts if isinstance(c, int)]) + ')'
                       for ops, consts in lc) + ']')
    L += ['', 'end Supv.Gen', '']
    write_if_changed(os.path.join(outdir, 'Tables.lean'), '\n'.join(L))
    # optional extra generators (one module per property family)
    here = os.path.dirname(os.path.abspath(__file__))
    sys.path.insert(0, here)
    for modname, fn, anchor in (('extract_rpc', 'generate_rpc', 'rpc-guards'), ('extract_c18', 'generate_c18', 'c18-constants')):
        if os.path.exists(os.path.join(here, modname + '.py')):
            try:
                mod = __import__(modname)
                results += list(getattr(mod, fn)(repo, outdir))
            except Exception as e:
                results.append((anchor, False, f'{type(e).__name__}: {e}'))
    return results


if __name__ == '__main__':
    here = os.path.dirname(os.path.dirname(os.path.abspath(__file__)))
    for r in generate(os.environ.get('SUPVISORS_REPO', '/repo'), os.path.join(here, 'lean', 'Supv', 'Gen')):
        print(r)
