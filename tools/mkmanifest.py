#!/venv/bin/python
""" Writes /verif/MANIFEST.json from the table below (kept in one place so that it always validates). """
import json, os
HERE = os.path.dirname(os.path.dirname(os.path.abspath(__file__)))

CLAIMED = {
 'C11': dict(
    text='Machine-checked proof (Lean 4) on a model of ProcessStatus/Context status synthesis, at FULL STRENGTH since the two defects that '
         'used to be excluded were repaired (a0ba3bf, 958c9f3): for EVERY history of snapshots, events in any order, instance losses, removals, '
         'forced states, disability changes and ticks over any number of instances that does not make the synthesis raise - and it only raises on an '
         'update / removal about an instance without entry, which Context.check_process filters out - an instance is listed iff the fold of its own '
         'reports says so (C11_listed_iff_spec), the listing is duplicate-free (conflict flag counts distinct instances), a stopped-like state lists '
         'nobody, the state is a running state iff a listed instance last reported one, a loss never touches other entries and always unlists the '
         'lost instance. The model is tied to the current /repo by a lock-step correspondence (real Context driven in-process, every observation '
         'compared and judged by the Lean specification).',
    note='Partial: the stopped-like display and the forced-state clauses are judged on the implementation by the Lean specification (search), '
         'not yet proved. Defects repaired: lose-while-only-stopping (a0ba3bf), remove-entry-not-stopped (958c9f3) - both were known findings with '
         'refutation witnesses, which are now examples of the repaired behaviour. Trusted: Lean '
         'kernel, standard axioms, harness/c11.py, harness/simenv.py, Drv/C11.lean; reception-time ties left open.',
    technique='Lean 4 invariant proof over operation histories + lock-step model/implementation correspondence',
    design='7 (C11)'),
}

CLAIMED.update({
 'C01': dict(
    text='Machine-checked proofs (Lean 4) about the selection functions the instance model runs (select_master / check_master / '
         'get_master_identifiers): the selection rule (declared Masters of RUNNING instances first, core instances first, lowest nick), '
         'a sole recognised Master is kept, and agreement at EVERY quiescent fixpoint for ANY number of instances (same Master, live, seen '
         'RUNNING by all, regards itself as Master). The instance and cluster models are tied to the code by a global lock-step of N real '
         'instances (real Context/StateModes/FSM/Listener/SupervisorProxy) under generated schedules with faults, every step compared. A free-running closed loop of real instances with fake Supervisors, commanders and conflicts (harness/c16free.py) also judges, at the end of a quiet phase, that the live mutually RUNNING instances name one Master, one of them.',
    note='Partial: convergence time under arbitrary fair asynchronous schedules is not proved (liveness); the link from "the monadic FSM step '
         'returns the current state" to the two pure fixpoint conditions is by construction of the model (selectMaster/checkMaster call the '
         'pure functions) but the stability gate is not part of the theorem; "only the Master gives job orders" is judged on the implementation '
         '(Lean judge) and by correspondence, not proved. Trusted: Lean kernel, standard axioms, harness/cluster.py, harness/simenv.py, '
         'Drv/Net.lean; discovery mode not modelled; accept_master\'s arbitrary choice adopted from the implementation (relational).',
    technique='Lean 4 state-predicate theorem over clusters of any size + global lock-step correspondence of a real cluster',
    design='7 (C01)'),
 'C02': dict(
    text='Machine-checked proof (Lean 4): for every history of operations of an instance (ticks, publications, handshake results, failure '
         'notifications, restart/shutdown/end_sync, any oracle answers of the job layers, internal errors included) the Supvisors state moves '
         'along paths of the transition table, and the table - REGENERATED from FiniteStateMachine._Transitions on every run - only has '
         'documented edges (returns to OFF/SYNCHRONIZATION/ELECTION only, ending states to FINAL only, FINAL terminal); the published state '
         'has a single writer (AST fact, regenerated). Tie: translator + global lock-step of the real cluster.',
    note='Partial: the entry clauses (known Master seen RUNNING on entry; a non-Master enters after its Master) are judged on the implementation '
         'by the Lean judge at every step and by correspondence, not proved. Trusted: Lean kernel, standard axioms, tools/extract.py, '
         'harness/cluster.py, harness/simenv.py, Drv/Net.lean.',
    technique='Lean 4 proof by induction over operation histories on a model parametrised by tables regenerated from the source + lock-step correspondence',
    design='7 (C02)'),
 'C07': dict(
    text='Machine-checked proof (Lean 4) of accuracy: over EVERY history in which each local tick is handled while the last tick of peer j is '
         'at most inactivity_ticks local ticks old and no failure notification about j is handled, a peer seen RUNNING stays RUNNING '
         '(any other messages, stale/duplicated handshake results, failures of other peers, internal errors). The instance graph, the active '
         'states and the strict comparison of is_inactive are REGENERATED from the source; the table has only documented edges, ISOLATED is final. '
         'Tie: translator + global lock-step of the real cluster with crash/restart/cut/heal instants and tick phases. A free-running closed loop of real instances (harness/c16free.py) also judges that a peer seen RUNNING 12 ticks into a quiet phase without fault is still seen RUNNING at its end. '
         'Completeness, one timer check (C07_timer_detects, C07_detection_bound): when the timer check of local tick k returns, every configured peer in an active state whose last tick is more than inactivity_ticks local ticks old IS FAILED, whatever the loop does to the other peers; with C07_timer_keeps_fresh the threshold is exact.',
    note='Partial: the detection bound is a theorem about the timer check (on_timer_event) of ONE local tick; that the FAILED peer is invalidated (STOPPED / ISOLATED) within the same tick by the FSM evaluation that follows is carried by the lock-step correspondence and by timing judges on the real '
         'objects, not by a theorem; "lost processes become FATAL" is C11 (C11_lose_unlists; the former known finding lose-while-only-stopping was repaired by a0ba3bf); local-never-ISOLATED '
         'is judged. Real clocks and TCP time-outs are outside the model (an XML-RPC failure is an input).',
    technique='Lean 4 frame/invariant proof over operation histories (state-error monad kit) + lock-step correspondence',
    design='7 (C07)'),
 'C13': dict(
    text='Machine-checked proofs (Lean 4): an ISOLATED peer stays ISOLATED over every history of operations; every message kind (tick, state, '
         'handshake result, failure notification, failed info transfer) whose origin is ISOLATED is the identity on the instance state and emits '
         'nothing; stale handshake results are ignored; nothing is queued for an ISOLATED peer; the handshake verdict is NOT_AUTHORIZED / '
         'INCONSISTENT exactly as stated (four strategies); process state/removal/disability events from a non-admitted instance change nothing. '
         'Tie: translator (instance table) + global lock-step with option mismatches and duplicated/stale/forged message injections. The same observable (an XML-RPC leaving an instance for a peer it holds ISOLATED) is judged on a free-running closed loop of real instances (harness/c16free.py).',
    note='Partial: "refused at the handshake => marked ISOLATED, never admitted" is judged on the implementation (Lean judge: no CHECKED/RUNNING for '
         'a peer with different strategies) and by correspondence; messages already dequeued by a proxy thread at the instant of isolation are a '
         'thread race outside the model. Forged origins are only expected to be refused for instances that went through the handshake '
         '(SupvisorsInstanceId.is_valid is documented as flexible before).',
    technique='Lean 4 frame proofs over operation histories + equational airtightness lemmas + lock-step correspondence with message injection',
    design='7 (C13)'),
})

CMD_TIE = ('Tie: the commander model (Starter + Stopper + strategies + process synthesis) runs in lock-step with the real Starter / Stopper '
           'on generated configurations and event histories (every emitted start / stop request and forced state compared), constants regenerated '
           'from the source; exceptions of the implementation are lock-stepped too (the model says which class is raised where); the generator is versioned '
           '(a corpus seed keeps its meaning); a Lean monitor written from the statement judges every request the IMPLEMENTATION emits.')
CMD_TRUST = ('Trusted: Lean kernel, standard axioms, tools/extract.py, harness/cmdh.py, harness/simenv.py, Drv/Cmd.lean, Spec/Cmd.lean (monitor). ')
CLAIMED.update({
 'C03': dict(
    text='Machine-checked proofs (Lean 4) about the decision functions the Starter runs: the plan of an application start only holds strictly '
         'positive sequences and every such process, the group picked up has the lowest planned sequence, ABORT / STOP leave nothing planned after '
         'the failure of a required process (STOP arms the deferred stop) while CONTINUE changes nothing, and the completion table of a start '
         'request (RUNNING / expected exit with wait_exit). ' + CMD_TIE,
    note='Partial: the ordering clause over whole executions (no start while a lower sequence is in flight or unhandled; nothing after ABORT/STOP; '
         'sequence 0 never started) is judged on the implementation by the Lean monitor and carried by the lock-step correspondence, not proved over '
         'executions of the re-entrant commander. The automatic start (start_applications), the application-level order, the sequence-0 clause, the STOP '
         'strategy (made concrete: the application must be asked to stop once in-flight starts end), instance losses, re-joins and process removals are generated '
         'and judged. No known finding left: stop-strategy-dropped-with-job (same root cause as C10:start-request-untracked) was repaired by 437c842 - its kernel-checked '
         'witnesses now show the stop being requested (C03_stop_strategy_witness, _witness_late). Defects repaired: '
         '85ee815 (time-out applies the failure strategy), c24ff19, 437c842 (a job is not complete while one of its groups is being processed). ' + CMD_TRUST,
    technique='Lean 4 proofs on the commander decision functions + lock-step correspondence + Lean monitor on implementation traces',
    design='7 (C03)'),
 'C04': dict(
    text='Machine-checked proofs (Lean 4): for every world, strategy and pending-request map, the instance chosen for a process is seen RUNNING, '
         'knows the program and has it enabled, is permitted by the identifiers rule, and its node stays at or below 100 with the requested load '
         '(cap regenerated from the AST of is_loading_valid); possible_identifiers is exactly allowed-known-enabled; no eligible candidate => no '
         'choice; the members of a node are counted once. ' + CMD_TIE,
    note='Partial: that every EMITTED request comes from that choice (process_job glue, no duplicate request, no-resource => FATAL and nothing sent) '
         'is carried by the correspondence and judged by the monitor with set-based loads and Starter-wide pending requests. Known finding: '
         'overload-by-requests-of-other-jobs. Two defects repaired (08bf665 node members duplicated at re-handshake; 500ed30 re-entrant '
         'Commander.next). SINGLE_INSTANCE / SINGLE_NODE distributions, the application-level identifiers rule, CHECKED instances, disability and removal events are '
         'modelled, generated and judged; C04_single_node_target_enabled and C04_single_node_no_exception hold in full since repo fix a6190c1 (the instance is '
         'chosen among the instances of the node that know and enable the program; before: TypeError / KeyError / disabled target, found by the lock-step). Known '
         'findings (kernel-checked witnesses): not-rechecked (target decided at pick-up time used without re-check), single-process-application-load-checked. ' + CMD_TRUST,
    technique='Lean 4 proofs on the placement functions + lock-step correspondence + Lean monitor on implementation traces',
    design='7 (C04)'),
 'C09': dict(
    text='Machine-checked proofs (Lean 4): every planned stop command targets an instance where the process is listed running, belongs to the '
         'application and to the group of its stop_sequence, no group is empty; the group picked up has the highest planned sequence; the completion / '
         'give-up table of a stop request; and on the instance FSM model, for EVERY history of operations and every oracle (C09_one_order_then_final, '
         'C09_order_with_final; kit Lemmas/InstOrd.lean): at most one restart / shutdown order is ever sent to the local Supervisor, it is sent in the very '
         'step that reaches FINAL (which the Master only decides once the Stopper is idle, a Slave once its Master has left the ending state), FINAL is never '
         'left and sends none. ' + CMD_TIE + ' The ending phase is also tied by a cluster stage: global lock-step of N real instances under restart / shutdown '
         'requests, every order to a Supervisor compared at every step and judged (never two, only in FINAL), and by a free-running closed loop of real '
         'instances with fake Supervisors (harness/c16free.py, ENDING scenario: restart / shutdown request then loss of a non-Master instance) whose quiet phase must '
         'leave nobody in RESTARTING / SHUTTING_DOWN.',
    note='Partial: the ordering over whole executions is judged on the implementation by the monitor (known finding: '
         'higher-sequence-already-stopping-not-waited); the restart/shutdown clauses (order reaches the Master, exactly one Supervisor order per instance, '
         'FINAL after the Stopper is idle) are proved on the instance model for the at-most-one / FINAL part (that EVERY live instance eventually gets its order is liveness: judged on the cluster stage, not proved); the whole-cluster '
         'stop (Stopper.stop_applications: decreasing application stop_sequence) is generated and judged, with theorems C09_stop_all_apps / C09_application_pickup_highest; the '
         'delivery of the Master\'s last publication while its own Supervisor goes down is a thread race outside the model; defect repaired: 13a5f42 (running failure '
         'strategies triggered during the ending states restarted an application for ever, nobody reached FINAL; found by the free-running stage, outside the FSM model). ' + CMD_TRUST,
    technique='Lean 4 proofs on the Stopper decision functions + lock-step correspondence + Lean monitor on implementation traces',
    design='7 (C09)'),
 'C10': dict(
    text='Machine-checked proofs (Lean 4) of the give-up decisions for ALL states, counters and startsecs/stopwaitsecs: a start request not acknowledged '
         'is given up once the target tick counter exceeds the request counter by more than the tick margin, an acknowledged one after margin + '
         'ceil(secs/5); the only state that can wait for ever is RUNNING with wait_exit; same for stops; the bound ceil(secs/5)+2 <= secs/5+3 ticks; '
         'only BACKOFF re-arms; DEFAULT_TICK_TIMEOUT and the tick period are regenerated from the source; the target instance is lost: for every job, '
         'plan and set of lost instances, after on_instances_invalidation no pending request and no planned command targets a lost instance '
         '(C10_lost_target_current_dropped / _planned_retargeted / _after_invalidation; the time-outs are counted in the ticks of the TARGET, so this '
         'is what keeps a request from waiting for ever). ' + CMD_TIE + ' A free-running closed loop of real instances with fake Supervisors '
         '(harness/c16free.py) ends every schedule with a quiet phase and judges on the real objects that no Starter / Stopper job is still in progress.',
    note='Partial: that every request in flight is actually submitted to those decisions at each periodic check is carried by the correspondence and '
         'judged by the monitor (the former known finding start-request-untracked - a job dropped by a re-entrant Commander.next while its group was processed left requests unfollowed - was repaired by 437c842: C10_processing_job_in_progress); '
         'the loss of one or two target instances at any point of a job, re-joins and process removals are generated; one known finding on losses (lost-start-not-reported-'
         'fatal); lost-stop-still-listed and the free-running stopping-entry-of-lost-instance (root cause C11 lose-while-only-stopping) were repaired by a0ba3bf; '
         'defects repaired: c24ff19 (a request whose process was removed from the target raised at every tick and stopped the TICK), 36715a1 (planned commands of a '
         'non-distributed application kept a lost instance: the request was sent there and never timed out). The free-running liveness judges are a search over '
         'finite schedules on fixed seed ranges, not a proof that the closed loop always quiesces. ' + CMD_TRUST,
    technique='Lean 4 proofs on the time-out decision functions + lock-step correspondence + Lean monitor on implementation traces',
    design='7 (C10)'),
 'C14': dict(
    text='Machine-checked proofs (Lean 4) for every world (several instances per node), candidate list, load and pending-request map: the choice is a '
         'valid candidate; CONFIG takes the first valid one in declared order; LESS/MOST_LOADED leave no valid candidate with a strictly better '
         '(instance load, node load) key, LESS/MOST_LOADED_NODE none with a strictly better (node load, instance load) key; LOCAL only the requesting '
         'instance; a choice is made iff a valid candidate exists; pending requests raise both load figures. ' + CMD_TIE,
    note='Partial: SINGLE_INSTANCE / SINGLE_NODE are modelled, generated and judged, with theorems for every world (get_node optimal for the strategy, one target for a '
         'SINGLE_INSTANCE application that carries the whole start sequence, all targets of a SINGLE_NODE application on the one node chosen, a command added later gets a '
         'selected instance); the placement INSIDE the node is refuted for LESS_LOADED (load requests computed once before the loop: known finding single-node-placement-'
         'not-refreshed, kernel-checked witness) and proved for single-program jobs; the monitor judges optimality relationally (ties free) with Starter-wide pending '
         'requests (known finding: not-optimal-by-requests-of-other-jobs). Defect repaired: a6190c1. ' + CMD_TRUST,
    technique='Lean 4 proofs on the strategy functions + lock-step correspondence + relational Lean monitor on implementation traces',
    design='7 (C14)'),
 'C15': dict(
    text='Machine-checked proofs (Lean 4) on a model of ApplicationStatus.update: the state loop equals the priority definition for every process list; '
         'required-based major / minor failure as defined; formula evaluation is total and sound (major = not of the Boolean semantics) for EVERY formula '
         'shape within the interpreter stack budget, any other construct / unresolved / non-matching or invalid pattern gives a major failure; "rather than an '
         'error" at FULL STRENGTH since repo fix 9cb9505: for every formula, process list and stack budget nothing raises (C15_formula_never_raises), strings the '
         'parser gives up on are ignored like any string that does not parse (C15_not_formula); the result depends only on displayed states, expected-exit and required flags. Tie: lock-step with '
         'the real ApplicationStatus on generated process tables and formulas (grammar-directed + hostile AST shapes) with an audit-hook side-effect monitor.',
    note='Partial: the denotation clause is refuted beyond the interpreter stack only (a formula nested deeper than the Python recursion limit is answered '
         'major failure whatever it denotes: known finding formula-major:beyond-interpreter-stack, kernel-checked witness; the three exceptions it used to raise were '
         'repaired by 9cb9505); seven defects repaired by 5f161cb; 589ba5c: the application status is evaluated again after a process information removal (found by the commander lock-step). With a formula the minor failure is compared but not judged (statement silent). Trusted: CPython parser, re (leaf matching '
         'supplied as data), the S-expression printer, harness/c15.py, Drv/C15.lean; regex termination is not covered.',
    technique='Lean 4 proofs (structural induction over formulas and process lists) + lock-step correspondence + Lean judge',
    design='7 (C15)'),
 'C17': dict(
    text='Machine-checked proofs (Lean 4, decide over the whole table) on the guard structure of every public XML-RPC REGENERATED from rpcinterface.py '
         'by AST on every run: the first guard is the state check whose allowed set equals the hand-written documented set, every effect is dominated '
         'by all guards, fault codes as documented, a rejected call is a no-op, calls are served inside their documented states, end_sync needs USER, '
         'restart/shutdown without a Master answer BAD_SUPVISORS_STATE. Tie: translator + the COMPLETE method x scenario x Master/non-Master x '
         'parameter-class matrix on real instances brought to each state by real histories (exhaustive).',
    note='Partial: one clause refuted and kept as known finding (restart_application lacks the NOT_MANAGED check: the unedited suite forbids the repair); C17_clean_faults '
         '(no exception other than RPCError, every method / state / valuation) holds in full since repo fix 5b27e8c; defects repaired: 83a88a0, 3678d4d, 5b27e8c, f2037fb. '
         'Wrongly TYPED parameters are outside the parameter classes (see C16 known finding ill-typed-parameter). That the real effects leave the real snapshot unchanged and the parameter-class '
         'oracle are judged, not proved. Trusted: tools/extract_rpc.py conventions, harness/c17.py, Drv/C17.lean.',
    technique='translator-generated guard table + Lean 4 decide proofs + exhaustive matrix on real instances',
    design='7 (C17)'),
 'C18': dict(
    text='Machine-checked proofs (Lean 4, 42 theorems) on a model of the rules parser and of the [supvisors] option converters: exact name beats '
         'patterns, longest pattern, model chain bounded by LOOP_CHECK (cycles included), element supersedes model, every resolved value in its domain, '
         'required needs a sequence, stop defaults to start, alias expansion in order, @ and # assignment, every option in range or default, synchro '
         'clean-up, TIMEOUT forces CONTINUE; constants, bounds and comparison operators REGENERATED from the AST. Tie: translator + lock-step with the '
         'real Parser (lxml+XSD path and ElementTree path) and SupvisorsOptions on generated documents and option dictionaries.',
    note='Partial: identifiers-supersede is refuted for sign residues (known finding) and proved otherwise; 4 known findings (invalid regex escapes, sign '
         'residue, # with empty reference, # outside reference); 3 defects repaired (7f9aea6, b925545). Trusted: Python re match lengths (data), XSD '
         'validation by libxml2, ASCII numeric lexers re-implemented in Lean and compared on every case, harness/c18.py, tools/extract_c18.py.',
    technique='Lean 4 proofs on a parser/option model + translator-generated constants + lock-step correspondence',
    design='7 (C18)'),
 'C20': dict(
    text='Machine-checked proofs (Lean 4) by induction over ARBITRARY sample streams (changing key sets, pid changes, stops, unknown instances, any '
         'period / depth): every series <= depth, value series aligned with their time series, a point only when the period has elapsed and stored points '
         'pairwise a period apart, CPU in [0,100] for non-decreasing counters and I/O rates >= 0 in exact arithmetic, stopped process dropped, pid change '
         'resets; plus a rounding-robust bound for the repaired CPU expression. Tie: lock-step with the real compilers, numeric values compared as exact '
         'rationals (Fraction(float)) within 2^-40.',
    note='Partial: IEEE rounding is monitored on the implementation and bounded by an abstract monotone-rounding theorem, not verified bit-exactly; aligned / '
         'period_gate_series assume a stable number of CPU entries per identifier (a shrinking core count raises IndexError: separate labelled stream, not '
         'judged); bounded assumes depth > 0 (to_histo accepts 10..1500). One defect repaired (723bafe). Trusted: harness/c20.py, Drv/C20.lean.',
    technique='Lean 4 invariant proofs by induction over sample streams + lock-step correspondence with exact-rational comparison',
    design='7 (C20)'),
})

CLAIMED.update({
 'C06': dict(
    text='Machine-checked proofs (Lean 4) on a model of RunningFailureHandler for EVERY sequence of notifications / triggers / aborts over any number '
         'of applications and processes: mutual exclusion of the job sets (with the code\'s proviso stated), the action triggered is the maximum of the '
         'notified strategies (STOP_APPLICATION > RESTART_APPLICATION > RESTART_PROCESS > CONTINUE), order independence of simultaneous notifications, '
         'promotion exactly when the application is left stopped, nothing triggered while busy, triggered once, abort clears, the Master alone hands lost '
         'processes over in every working state (also proved on the instance FSM model: every failJobs order is emitted while Master). Tie: lock-step with '
         'the real handler inside a real instance, incl. exhaustive small scope.',
    note='Partial: the end-to-end clause "running again on exactly one surviving instance / FATAL if none has room" is not covered by a theorem (commander '
         'layer: C04/C14 placement + C10); three readings recorded in the evidence (RESTART_APPLICATION supersedes the process jobs of start-sequence '
         'processes only; promotion needs the process in the start sequence; a forced state is not a crash). One defect repaired (896a4df: losses during '
         'CONCILIATION were never handled). Trusted: harness/c06.py, Drv/C06.lean, application.stopped()/process.crashed() supplied as data.',
    technique='Lean 4 invariant proofs over operation histories + lock-step correspondence + exhaustive small-scope enumeration',
    design='7 (C06)'),
 'C19': dict(
    text='Lean 4 model of StarterModel (prediction on mock copies, loads read from the live processes) and of an actual start in which every process '
         'starts normally, both running the same commander model; proved: a prediction is a pure function of the world and ignores the jobs held; the '
         'full statement "prediction = actual placement" is REFUTED with a kernel-checked witness (two sequence groups, LESS_LOADED) and kept as a known '
         'finding; a finite single-process instance holds for all six strategies. Tie: the real StarterModel prediction is compared with the model '
         'prediction on every generated world, then the actual start is played in lock-step; deep snapshots of every reported status before/after 1-3 '
         'predictions judge side-effect freedom on the implementation.',
    note='Partial: side-effect freedom is judged on the implementation (deep snapshot; defect 44b32b2 found and repaired) - the functional model cannot have '
         'side effects by construction; the general single-group equality needs a simulation proof between two runs of the re-entrant commander (not done). '
         'Known finding: prediction-differs-from-real-start. Process predictions (test_start_processes) and forced states hiding the real state are generated; the snapshot '
         'judge found and led to the repair of 2118682 (a prediction with the STOP strategy asked the real Stopper to stop the application). Trusted: harness/c19.py, '
         'harness/cmdh.py, Drv/Cmd.lean.',
    technique='Lean 4 kernel-checked refutation witness + model/implementation correspondence + snapshot judge on the implementation',
    design='7 (C19)'),
})

CLAIMED.update({
 'C05': dict(
    text='Machine-checked proofs (Lean 4) on a model of the conciliation strategies (strategy.py), Context.conflicts/conflicting and the '
         'OPERATION / CONCILIATION decisions of the instance FSM model, for every view over any number of processes and instances: STOP / RESTART / '
         'RUNNING_FAILURE / USER stop clause in full, SENICIDE / INFANTICIDE keep the youngest / oldest and stop every other copy when no listed '
         'instance is STOPPING, RESTART defers exactly one start, RUNNING_FAILURE delegates to the failure handler, USER does nothing, unmanaged '
         'duplicates never trigger, detection and conciliation only by the Master, once the stops are acknowledged no conflict remains (composed with '
         'the process model) and the FSM returns to OPERATION. Tie: lock-step with the real strategy classes / Stopper / Starter / FSM of a Master instance.',
    note='Partial: the full stop clause is REFUTED for SENICIDE / INFANTICIDE when a STOPPING instance is listed (kernel-checked witness, replayed on the '
         'code; known finding stopping-copy-counted) and "never stopping a process that is not in conflict" likewise; known finding '
         'restart-dropped-stopping-elsewhere. One defect repaired (896a4df). Trusted: harness/c05.py, Drv/C05.lean; the Stopper/Starter are the real ones '
         '(their model is Supv.Cmd, tied by the commander checks).',
    technique='Lean 4 proofs on the strategy model for every view + kernel-checked refutation witnesses + lock-step correspondence',
    design='7 (C05)'),
 'C08': dict(
    text='Machine-checked proofs (Lean 4): the set of states each FSM state class can decide - regenerated from the current statemachine.py by the '
         'translator (AST: every return of next / _master_next / _slave_next / _check_consistence / _check_closing along the class hierarchy, plus '
         '"follows the Master state") - is accepted by the regenerated transition table for every EXPLICIT decision (C08_decisions_accepted, '
         'C08_decisions_complete, C08_who_follows_master), the follow-the-Master decisions the table refuses are exactly six pairs (C08_follow_master_refused), '
         'and the hand-written instance model decides exactly those states; local progress theorems (a Slave leaves ELECTION behind its Master, the Master leaves '
         'ELECTION, a Slave decides the state of its Master). Tie: global lock-step of N real instances with the Lean cluster model; quiescence judge on the real '
         'cluster 24 quiet ticks after the last disturbance; and a free-running closed loop with processes, commanders and conflicts (harness/c16free.py) whose quiet '
         'phase must leave nobody parked.',
    note='Partial: "returns to OPERATION within a bounded number of ticks" is a liveness claim under fair schedules: it is NOT proved; what is proved is '
         'the absence of the structural causes of parking (refused decisions); parking is searched for on the real cluster at quiescence (no-parking judge), '
         'which found and led to the repair of two defects (5a7047d: DISTRIBUTION->SYNCHRONIZATION and CONCILIATION->ELECTION were refused by the table '
         'forever; e607c09: a Slave stayed in ELECTION forever once its Master was past DISTRIBUTION). Known finding (free-running stage, the only place where CONCILIATION '
         'is reached): a Slave that reaches DISTRIBUTION while its Master is in CONCILIATION stays parked there (DISTRIBUTION->CONCILIATION is not an edge; the repair is '
         'forbidden by the existing test test_set_state_slave). The lock-step cluster is application-free. '
         'Trusted: tools/extract.py (G5), harness/c08.py, harness/cluster.py, Drv/Net.lean.',
    technique='Lean 4 proof over the regenerated decision/transition tables + global lock-step correspondence + quiescence judge on the real cluster',
    design='7 (C08)'),
})

CLAIMED.update({
 'C12': dict(
    text='Machine-checked proofs (Lean 4) in two layers. Synthesis (process model, tied by the C11 lock-step): what an instance reports for a process only '
         'depends on the last report it holds from every instance, whatever the order, path (snapshot or event) and earlier history - two instances holding '
         'the same last reports list the same instances and agree on running / not running (C12_same_reports_same_answer, for all admissible histories); the '
         'stopped-like state displayed may differ (witness). Replication (cluster model extended with the process tables of the Supervisors and the replicated '
         'database; global lock-step with N real instances incl. the real SupervisorListener.on_process_state / publish / check_instance / load_processes / '
         'on_process_state_event): events are only accepted from CHECKED / RUNNING peers, only sent to active peers, an accepted event makes the receiver hold '
         'the reported state. The end-to-end clause "at quiescence every view is true" is REFUTED by two kernel-checked schedules (decide +kernel) found and '
         'minimized on the real code.',
    note='Partial: the end-to-end clause is false of model and code (two root causes recorded as known findings: refused-while-CHECKING - which also hits the '
         'local instance about its own Supervisor - and filtered-while-STOPPED); there is no theorem that these are the ONLY ways of being stale: at quiescence '
         'every stale entry found on the real cluster is attributed to its cause by the ghost state of the model (fate of the last report), and any other cause '
         'is a violation. With a last report STOPPING the listing is path-dependent (witness C12_stopping_listing_differs; judged as its own signature). '
         'Applications are unmanaged in these schedules (no start / stop request); process removal / addition events are not generated yet. '
         'Trusted: harness/c12.py, harness/cluster.py, Drv/Net.lean, tools/mkwitness_c12.py (data only, re-checked by the kernel).',
    technique='Lean 4 invariant proofs over histories + kernel-checked refutation witnesses + global lock-step correspondence of a real cluster with processes',
    design='7 (C12), 12.5'),
})

CLAIMED.update({
 'C16': dict(
    text='Machine-checked proofs (Lean 4) over tables REGENERATED from the current source at every run: every assignment of an instance state in '
         'context.py - extracted by AST together with the instance states its guards let through (state tests, predicates, early returns, calls to '
         'invalidate) - is accepted by the regenerated transition table, hence no InvalidTransition for any event sequence (C16_instance_assignments_'
         'accepted); the instance model assigns at the same sites under the same guards (C16_model_writers_match_source) and its handlers never raise '
         'InvalidTransition from ANY state, for any operation / oracle / history (C16_instance_handlers_never_raise: Hoare triples over the state-and-'
         'exception monad, Lemmas/InstSafe.lean); every state a Supvisors state '
         'class can decide is accepted by the FSM table; the process status synthesis never raises on any admissible history (C11); no exception other '
         'than RPCError leaves an XML-RPC method, for every method / state / parameter valuation (C17_clean_faults over the regenerated guard table). '
         'Tie + search on the implementation: four stages running the real components together (cluster lock-step with processes, stale / duplicated / '
         'forged notifications, restarts; the real Starter / Stopper with instance losses; the XML-RPC matrix; a free-running closed loop with fake '
         'Supervisors, rules files and user actions), judged for tracebacks in the last-resort guards, escaped exceptions and hangs.',
    note='Partial: "never raises an internal error" is proved for the modelled core only (instance state machine, FSM transitions, status synthesis, '
         'XML-RPC guard sequences); for the commander, the failure handler, the listener entry points for additions / removals / disability and the '
         'statistics it is searched for on the implementation, not proved. Defects found this way and repaired: 500ed30, 5dae07f, ff0ca64, 83a88a0, '
         '3678d4d, 5b27e8c. Trusted: tools/extract.py (G6 guard interpreter), harness/c16.py, harness/c16free.py, harness/cluster.py, harness/cmdh.py, '
         'harness/c17.py.',
    technique='Lean 4 proofs over tables regenerated from the source (translator) + lock-step correspondence + search for internal errors on the real components',
    design='7 (C16), 12.5'),
})

NOT_YET = {}

def main():
    props = [json.loads(l) for l in open(os.path.join(HERE, 'properties.jsonl'))]
    checks = []; na = []
    for p in props:
        pid = p['id']
        if pid in CLAIMED:
            c = CLAIMED[pid]
            checks.append({'property_id': pid, 'quick_cmd': f'./check {pid} --tier quick', 'thorough_cmd': f'./check {pid} --tier thorough',
                           'evidence_file': f'evidence/{pid}.json', 'replay_cmd_template': f'./check {pid} --replay {{path}}',
                           'engine': 'lean-model', 'level_claimed': {'category': 'proof', 'text': c['text'], 'design_ref': c['design']},
                           'level_note': c['note'], 'technique': c['technique']})
        else:
            na.append({'property_id': pid, 'reason': NOT_YET.get(pid, 'not claimed yet: the model and check for this property are not built yet (see DESIGN.md section 9); the technique applies')})
    m = {'version': 1, 'setup_cmd': './setup.sh',
         'hooks': {'guard': 'SUPVISORS_VERIF', 'enable': 'no source hook is needed: the harness replaces collaborators at the object boundary from outside /repo',
                   'baseline_off_cmd': 'cd /repo && /venv/bin/python -m pytest -ra -q -p no:cacheprovider --timeout=900 --continue-on-collection-errors',
                   'source_commits': [], 'add_only': True},
         'engines': [{'name': 'lean-model', 'path': 'lean/', 'serves_properties': sorted(CLAIMED), 'kind_free_text': 'Lean 4 models, specifications, lemmas, property theorems, native line-protocol drivers'},
                     {'name': 'translator', 'path': 'tools/extract.py', 'serves_properties': [], 'kind_free_text': 'regenerates lean/Supv/Gen/*.lean (tables, constants, guard structure) from the current /repo source on every run'},
                     {'name': 'harness', 'path': 'harness/', 'serves_properties': sorted(CLAIMED), 'kind_free_text': 'runs the real supvisors classes in-process on generated inputs; correspondence with the Lean drivers; judges; shrinking'}],
         'checks': checks, 'not_applicable': na,
         'notes': 'Every check: translator -> lake build of the property theorems -> axiom audit -> model/implementation correspondence -> Lean judge on implementation observations -> known-findings filter. See DESIGN.md.'}
    json.dump(m, open(os.path.join(HERE, 'MANIFEST.json'), 'w'), indent=1)
    import jsonschema
    jsonschema.validate(m, json.load(open('/root/.vp/MANIFEST.schema.json')))
    print('MANIFEST.json written:', len(checks), 'checks,', len(na), 'not claimed')

if __name__ == '__main__':
    main()
