#!/venv/bin/python
""" Writes /verif/MANIFEST.json from the table below (kept in one place so that it always validates). """
import json, os
HERE = os.path.dirname(os.path.dirname(os.path.abspath(__file__)))

CLAIMED = {
 'C11': dict(
    text='Machine-checked proof (Lean 4) on a model of ProcessStatus/Context status synthesis: for every admissible history '
         'over any number of instances the synthesis never raises, an instance is listed iff the fold of its own reports says so, '
         'the listing is duplicate-free (conflict flag counts distinct instances), the state is a running state iff a listed '
         'instance last reported one, a loss never touches other entries. The model is tied to the current /repo by a lock-step '
         'correspondence (real Context driven in-process, every observation compared and judged by the Lean specification).',
    note='Partial: two input classes are excluded from the theorems and recorded as known findings (lose-while-only-stopping, '
         'remove-entry-not-stopped; refutation witnesses proved in Lean and replayed on the code). The stopped-like display and the '
         'forced-state clauses are judged on the implementation by the Lean specification (search), not yet proved. Trusted: Lean '
         'kernel, standard axioms, harness/c11.py, harness/simenv.py, Drv/C11.lean; reception-time ties left open.',
    technique='Lean 4 invariant proof over operation histories + lock-step model/implementation correspondence',
    design='7 (C11)'),
}

CLAIMED.update({
 'C01': dict(
    text='Machine-checked proofs (Lean 4) about the selection functions the instance model runs (select_master / check_master / '
         'get_master_identifiers): the selection rule (declared Masters of RUNNING instances first, core instances first, lowest nick), '
         'a sole recognised Master is kept, and agreement at EVERY quiescent fixpoint for ANY number of instances (same Master, live, seen '
         'RUNNING by all, regards itself as Master). The instance and cluster models are tied to the code by a global lock-step of N real '
         'instances (real Context/StateModes/FSM/Listener/SupervisorProxy) under generated schedules with faults, every step compared.',
    note='Partial: convergence time under arbitrary fair asynchronous schedules is not proved (liveness); the link from "the monadic FSM step '
         'returns the current state" to the two pure fixpoint conditions is by construction of the model (selectMaster/checkMaster call the '
         'pure functions) but the stability gate is not part of the theorem; "only the Master gives job orders" is judged on the implementation '
         '(Lean judge) and by correspondence, not proved. Trusted: Lean kernel, standard axioms, harness/cluster.py, harness/simenv.py, '
         'Drv/Net.lean; discovery mode not modelled; accept_master\'s arbitrary choice adopted from the implementation (relational).',
    technique='Lean 4 state-predicate theorem over clusters of any size + global lock-step correspondence of a real cluster',
    design='7 (C01)'),
 'C02': dict(
    text='Machine-checked proof (Lean 4): for every history of operations of an instance (ticks, publications, handshake results, failure '
         'notifications, restart/shutdown/end_sync, any oracle answers of the job layers, internal errors included) the Supvisors state moves '
         'along paths of the transition table, and the table - REGENERATED from FiniteStateMachine._Transitions on every run - only has '
         'documented edges (returns to OFF/SYNCHRONIZATION/ELECTION only, ending states to FINAL only, FINAL terminal); the published state '
         'has a single writer (AST fact, regenerated). Tie: translator + global lock-step of the real cluster.',
    note='Partial: the entry clauses (known Master seen RUNNING on entry; a non-Master enters after its Master) are judged on the implementation '
         'by the Lean judge at every step and by correspondence, not proved. Trusted: Lean kernel, standard axioms, tools/extract.py, '
         'harness/cluster.py, harness/simenv.py, Drv/Net.lean.',
    technique='Lean 4 proof by induction over operation histories on a model parametrised by tables regenerated from the source + lock-step correspondence',
    design='7 (C02)'),
 'C07': dict(
    text='Machine-checked proof (Lean 4) of accuracy: over EVERY history in which each local tick is handled while the last tick of peer j is '
         'at most inactivity_ticks local ticks old and no failure notification about j is handled, a peer seen RUNNING stays RUNNING '
         '(any other messages, stale/duplicated handshake results, failures of other peers, internal errors). The instance graph, the active '
         'states and the strict comparison of is_inactive are REGENERATED from the source; the table has only documented edges, ISOLATED is final. '
         'Tie: translator + global lock-step of the real cluster with crash/restart/cut/heal instants and tick phases.',
    note='Partial: the detection bound and same-tick invalidation are carried by the lock-step correspondence and by timing judges on the real '
         'objects, not by a theorem; "lost processes become FATAL" is C11 (known finding lose-while-only-stopping applies); local-never-ISOLATED '
         'is judged. Real clocks and TCP time-outs are outside the model (an XML-RPC failure is an input).',
    technique='Lean 4 frame/invariant proof over operation histories (state-error monad kit) + lock-step correspondence',
    design='7 (C07)'),
 'C13': dict(
    text='Machine-checked proofs (Lean 4): an ISOLATED peer stays ISOLATED over every history of operations; every message kind (tick, state, '
         'handshake result, failure notification, failed info transfer) whose origin is ISOLATED is the identity on the instance state and emits '
         'nothing; stale handshake results are ignored; nothing is queued for an ISOLATED peer; the handshake verdict is NOT_AUTHORIZED / '
         'INCONSISTENT exactly as stated (four strategies); process state/removal/disability events from a non-admitted instance change nothing. '
         'Tie: translator (instance table) + global lock-step with option mismatches and duplicated/stale/forged message injections.',
    note='Partial: "refused at the handshake => marked ISOLATED, never admitted" is judged on the implementation (Lean judge: no CHECKED/RUNNING for '
         'a peer with different strategies) and by correspondence; messages already dequeued by a proxy thread at the instant of isolation are a '
         'thread race outside the model. Forged origins are only expected to be refused for instances that went through the handshake '
         '(SupvisorsInstanceId.is_valid is documented as flexible before).',
    technique='Lean 4 frame proofs over operation histories + equational airtightness lemmas + lock-step correspondence with message injection',
    design='7 (C13)'),
})

NOT_YET = {}

def main():
    props = [json.loads(l) for l in open(os.path.join(HERE, 'properties.jsonl'))]
    checks = []; na = []
    for p in props:
        pid = p['id']
        if pid in CLAIMED:
            c = CLAIMED[pid]
            checks.append({'property_id': pid, 'quick_cmd': f'./check {pid} --tier quick', 'thorough_cmd': f'./check {pid} --tier thorough',
                           'evidence_file': f'evidence/{pid}.json', 'replay_cmd_template': f'./check {pid} --replay {{path}}',
                           'engine': 'lean-model', 'level_claimed': {'category': 'proof', 'text': c['text'], 'design_ref': c['design']},
                           'level_note': c['note'], 'technique': c['technique']})
        else:
            na.append({'property_id': pid, 'reason': NOT_YET.get(pid, 'not claimed yet: the model and check for this property are not built yet (see DESIGN.md section 9); the technique applies')})
    m = {'version': 1, 'setup_cmd': './setup.sh',
         'hooks': {'guard': 'SUPVISORS_VERIF', 'enable': 'no source hook is needed: the harness replaces collaborators at the object boundary from outside /repo',
                   'baseline_off_cmd': 'cd /repo && /venv/bin/python -m pytest -ra -q -p no:cacheprovider --timeout=900 --continue-on-collection-errors',
                   'source_commits': [], 'add_only': True},
         'engines': [{'name': 'lean-model', 'path': 'lean/', 'serves_properties': sorted(CLAIMED), 'kind_free_text': 'Lean 4 models, specifications, lemmas, property theorems, native line-protocol drivers'},
                     {'name': 'translator', 'path': 'tools/extract.py', 'serves_properties': [], 'kind_free_text': 'regenerates lean/Supv/Gen/*.lean (tables, constants, guard structure) from the current /repo source on every run'},
                     {'name': 'harness', 'path': 'harness/', 'serves_properties': sorted(CLAIMED), 'kind_free_text': 'runs the real supvisors classes in-process on generated inputs; correspondence with the Lean drivers; judges; shrinking'}],
         'checks': checks, 'not_applicable': na,
         'notes': 'Every check: translator -> lake build of the property theorems -> axiom audit -> model/implementation correspondence -> Lean judge on implementation observations -> known-findings filter. See DESIGN.md.'}
    json.dump(m, open(os.path.join(HERE, 'MANIFEST.json'), 'w'), indent=1)
    import jsonschema
    jsonschema.validate(m, json.load(open('/root/.vp/MANIFEST.schema.json')))
    print('MANIFEST.json written:', len(checks), 'checks,', len(na), 'not claimed')

if __name__ == '__main__':
    main()
