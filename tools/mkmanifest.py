#!/venv/bin/python
""" Writes /verif/MANIFEST.json from the table below (kept in one place so that it always validates). """
import json, os
HERE = os.path.dirname(os.path.dirname(os.path.abspath(__file__)))

CLAIMED = {
 'C11': dict(
    text='Machine-checked proof (Lean 4) on a model of ProcessStatus/Context status synthesis: for every admissible history '
         'over any number of instances the synthesis never raises, an instance is listed iff the fold of its own reports says so, '
         'the listing is duplicate-free (conflict flag counts distinct instances), the state is a running state iff a listed '
         'instance last reported one, a loss never touches other entries. The model is tied to the current /repo by a lock-step '
         'correspondence (real Context driven in-process, every observation compared and judged by the Lean specification).',
    note='Partial: two input classes are excluded from the theorems and recorded as known findings (lose-while-only-stopping, '
         'remove-entry-not-stopped; refutation witnesses proved in Lean and replayed on the code). The stopped-like display and the '
         'forced-state clauses are judged on the implementation by the Lean specification (search), not yet proved. Trusted: Lean '
         'kernel, standard axioms, harness/c11.py, harness/simenv.py, Drv/C11.lean; reception-time ties left open.',
    technique='Lean 4 invariant proof over operation histories + lock-step model/implementation correspondence',
    design='7 (C11)'),
}

NOT_YET = {}

def main():
    props = [json.loads(l) for l in open(os.path.join(HERE, 'properties.jsonl'))]
    checks = []; na = []
    for p in props:
        pid = p['id']
        if pid in CLAIMED:
            c = CLAIMED[pid]
            checks.append({'property_id': pid, 'quick_cmd': f'./check {pid} --tier quick', 'thorough_cmd': f'./check {pid} --tier thorough',
                           'evidence_file': f'evidence/{pid}.json', 'replay_cmd_template': f'./check {pid} --replay {{path}}',
                           'engine': 'lean-model', 'level_claimed': {'category': 'proof', 'text': c['text'], 'design_ref': c['design']},
                           'level_note': c['note'], 'technique': c['technique']})
        else:
            na.append({'property_id': pid, 'reason': NOT_YET.get(pid, 'not claimed yet: the model and check for this property are not built yet (see DESIGN.md section 9); the technique applies')})
    m = {'version': 1, 'setup_cmd': './setup.sh',
         'hooks': {'guard': 'SUPVISORS_VERIF', 'enable': 'no source hook is needed: the harness replaces collaborators at the object boundary from outside /repo',
                   'baseline_off_cmd': 'cd /repo && /venv/bin/python -m pytest -ra -q -p no:cacheprovider --timeout=900 --continue-on-collection-errors',
                   'source_commits': [], 'add_only': True},
         'engines': [{'name': 'lean-model', 'path': 'lean/', 'serves_properties': sorted(CLAIMED), 'kind_free_text': 'Lean 4 models, specifications, lemmas, property theorems, native line-protocol drivers'},
                     {'name': 'translator', 'path': 'tools/extract.py', 'serves_properties': [], 'kind_free_text': 'regenerates lean/Supv/Gen/*.lean (tables, constants, guard structure) from the current /repo source on every run'},
                     {'name': 'harness', 'path': 'harness/', 'serves_properties': sorted(CLAIMED), 'kind_free_text': 'runs the real supvisors classes in-process on generated inputs; correspondence with the Lean drivers; judges; shrinking'}],
         'checks': checks, 'not_applicable': na,
         'notes': 'Every check: translator -> lake build of the property theorems -> axiom audit -> model/implementation correspondence -> Lean judge on implementation observations -> known-findings filter. See DESIGN.md.'}
    json.dump(m, open(os.path.join(HERE, 'MANIFEST.json'), 'w'), indent=1)
    import jsonschema
    jsonschema.validate(m, json.load(open('/root/.vp/MANIFEST.schema.json')))
    print('MANIFEST.json written:', len(checks), 'checks,', len(na), 'not claimed')

if __name__ == '__main__':
    main()
