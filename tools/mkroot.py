#!/usr/bin/env python3
""" Writes lean/Supv.lean: the root of the library imports every module (except those listed in EXCLUDE while in progress). """
import os, sys
HERE = os.path.dirname(os.path.dirname(os.path.abspath(__file__)))
EXCLUDE = set(sys.argv[1:])
mods = []
for root, _, files in os.walk(os.path.join(HERE, 'lean', 'Supv')):
    for f in sorted(files):
        if f.endswith('.lean'):
            rel = os.path.relpath(os.path.join(root, f), os.path.join(HERE, 'lean'))[:-5].replace('/', '.')
            if not any(x in rel for x in EXCLUDE): mods.append(rel)
open(os.path.join(HERE, 'lean', 'Supv.lean'), 'w').write('-- Root of the `Supv` library: every module that must be built (written by tools/mkroot.py).\n' + ''.join(f'import {m}\n' for m in sorted(mods)))
print(len(mods), 'modules')
