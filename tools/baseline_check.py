#!/venv/bin/python
""" Runs the repository's baseline test command (guard off: there are no hooks) and compares with /root/.vp/BASELINE.json:
    every stable_pass test must pass. """
import json, subprocess, sys, xml.etree.ElementTree as ET, os
base = json.load(open('/root/.vp/BASELINE.json'))
out = '/var/tmp/scratch/baseline.junit.xml'
os.makedirs('/var/tmp/scratch', exist_ok=True)
cmd = base['cmd'].replace('<file>', out)
r = subprocess.run(cmd, shell=True, capture_output=True, text=True)
tree = ET.parse(out)
passed = set()
for tc in tree.iter('testcase'):
    name = f"{tc.get('classname')}::{tc.get('name')}"
    if not any(ch.tag in ('failure', 'error', 'skipped') for ch in tc): passed.add(name)
missing = [t for t in base['stable_pass'] if t not in passed]
print(f'passed={len(passed)} stable_pass={len(base["stable_pass"])} missing={len(missing)}')
for m in missing[:20]: print('  MISSING', m)
sys.exit(1 if missing else 0)
