#!/bin/sh
# usage: tools/seed_keep.sh <change-dir> <name> "<result text>"
cd "$(dirname "$0")/.."
mkdir -p seeded/$2
cp $1/patch.diff seeded/$2/patch.diff
for f in $1/test_demo*.py $1/demo*.py; do [ -f $f ] && cp $f seeded/$2/demonstration_$(basename $f); done
[ -f $1/meta.json ] && cp $1/meta.json seeded/$2/meta.json || echo '{}' > seeded/$2/meta.json
python3 - "$2" "$3" <<'PY'
import json, sys
p = f'seeded/{sys.argv[1]}/meta.json'
m = json.load(open(p))
m['verif_result'] = sys.argv[2]
json.dump(m, open(p, 'w'), indent=1)
PY
