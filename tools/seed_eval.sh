#!/bin/sh
# usage: tools/seed_eval.sh <change-dir> <Cxx> [Cyy ...]
# Confirms a seeded change (demo passes on a clean scratch copy, fails with the patch), then runs the quick checks on the patched copy.
# Never touches /repo.  Scratch copy under /var/tmp, removed at the end.
cd "$(dirname "$0")/.."
D="$1"; shift
M=/var/tmp/supv-verif-seed-$$
rm -rf $M; mkdir -p $M; cp -r /repo/supvisors $M/supvisors; [ -f /repo/setup.py ] && cp /repo/setup.py /repo/setup.cfg $M/ 2>/dev/null
demo=$(ls $D/test_demo*.py $D/demo*.py 2>/dev/null | head -1)
rundemo() { case "$demo" in *test_demo*.py) (cd $M && PYTHONPATH=$M timeout 600 /venv/bin/python -m pytest -q -p no:cacheprovider "$demo" 2>&1 | tail -1) ;; *) (cd $M && PYTHONPATH=$M SEED_WORKTREE=$M timeout 600 /venv/bin/python "$demo" >/dev/null 2>&1; echo "exit=$?") ;; esac; }
echo "demo clean  : $(rundemo)"
(cd $M && patch -p1 -s < "$D/patch.diff") || { echo "PATCH DOES NOT APPLY"; rm -rf $M; exit 2; }
echo "demo patched: $(rundemo)"
for p in "$@"; do
  echo "== $p on mutant"
  SUPVISORS_REPO=$M timeout 2400 ./check $p ${TIER:+--tier $TIER} 2>&1 | grep -E "VIOLATION|KNOWN-FINDING|^\[" | cut -c1-260 || true
done
rm -rf $M
/venv/bin/python tools/extract.py >/dev/null
for p in "$@"; do ./check $p 2>&1 | grep -E "VIOLATION|^\[" | cut -c1-160; done
