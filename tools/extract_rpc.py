""" Translator G3 (DESIGN.md 3.1): regenerates lean/Supv/Gen/RpcGuards.lean from the CURRENT source of
    supvisors/rpcinterface.py (+ the state enumeration of ttypes.py and the two no-Master raises of statemachine.py).

    For every public method of `RPCInterface`, in source order, the list of
      * `raise` steps: a call of `self._raise(code, ...)`, reached directly or through the private helpers it calls
        (helpers are inlined: `_check_operating` -> `_check_state([OPERATION])`, `_get_application` -> BAD_NAME, ...),
        with the fault code and a classification of what is tested (from the helper name or the enclosing `if` test /
        `except` handler);
      * `effect` steps: calls into starter / stopper / fsm / supervisor_updater / starter_model / stats_collector /
        failure_handler, `conciliate_conflicts`, the local Supervisor `startProcess`, writes to options / logger level;
      * `lookupInst` steps: `...instances[<raw parameter>]` outside a `try`;
      * `derefProcess` steps: `<v>.<attr>` where `_, <v> = self._get_application_process(...)` and `<v>` is never tested
        (it is None for a group namespec).
    Data and call structure only, no semantics: what the lists MEAN is `Supv/Model/Rpc.lean`; what they must BE is the
    hand-written documented table of `Supv/Spec/C17.lean`, compared by the theorems of `Supv/Props/C17.lean`.

    Conventions (trusted, see evidence `trusted_base`):
      * nested function definitions (`onwait`, run later by the XML-RPC deferred machinery) are skipped;
      * statements are taken in source order whatever the branch (over-approximation of "comes after");
      * for a `try`, the steps of the `except` handlers are emitted BEFORE those of the body: a handler that raises means
        the attempt of the body failed (callee assumed to fail atomically);
      * a `_raise` in a handler that catches exactly the exception class `FiniteStateMachine.on_restart` / `on_shutdown`
        raises without Master (read in statemachine.py), around a call of that effect, is the check `masterKnown`.

    generate_rpc(repo, outdir) -> list of (anchor, ok, detail); the file is rewritten only when its content changes. """
import os, ast

STATES = ['OFF', 'SYNCHRONIZATION', 'ELECTION', 'DISTRIBUTION', 'OPERATION', 'CONCILIATION', 'RESTARTING',
          'SHUTTING_DOWN', 'FINAL']
LEAN_STATE = {'OFF': 'off', 'SYNCHRONIZATION': 'synchronization', 'ELECTION': 'election', 'DISTRIBUTION': 'distribution',
              'OPERATION': 'operation', 'CONCILIATION': 'conciliation', 'RESTARTING': 'restarting',
              'SHUTTING_DOWN': 'shuttingDown', 'FINAL': 'final'}
LEAN_FAULT = {'INCORRECT_PARAMETERS': 'incorrectParameters', 'BAD_NAME': 'badName', 'FAILED': 'failed',
              'ABNORMAL_TERMINATION': 'abnormalTermination', 'ALREADY_STARTED': 'alreadyStarted',
              'NOT_RUNNING': 'notRunning', 'STILL_RUNNING': 'stillRunning', 'BAD_SUPVISORS_STATE': 'badSupvisorsState',
              'NOT_MANAGED': 'notManaged', 'DISABLED': 'disabled', 'NOT_APPLICABLE': 'notApplicable',
              'NOT_INSTALLED': 'notInstalled'}
# classification of a `_raise` by the innermost classifying helper it is reached through
HELPER_CHECK = {'_get_starting_strategy': 'strategy', '_get_conciliation_strategy': 'strategy', '_get_strategy': 'strategy',
                '_get_application': 'appName', '_get_application_process': 'namespec', '_get_process': 'namespec',
                '_get_logger_level': 'level'}
EFFECT_ROOTS = ('starter', 'stopper', 'fsm', 'supervisor_updater', 'starter_model', 'stats_collector', 'failure_handler')
PURE = {'in_progress', 'get_load_requests'}
SUPERVISOR_DATA_EFFECTS = {'update_extra_args', 'force_process_fatal'}
WRITE_ROOTS = ('self.supvisors.options.', 'self.logger.', 'handler.')
INSTANCE_MAPS = ('self.supvisors.mapper.instances', 'self.supvisors.context.instances')


def write_if_changed(path, text):
    old = open(path).read() if os.path.exists(path) else None
    if old != text:
        os.makedirs(os.path.dirname(path), exist_ok=True)
        with open(path, 'w') as f: f.write(text)
        return True
    return False


def dotted(node):
    parts = []
    while isinstance(node, ast.Attribute):
        parts.append(node.attr); node = node.value
    if isinstance(node, ast.Name):
        parts.append(node.id)
        return '.'.join(reversed(parts))
    return None


class Problem(Exception):
    pass


def fault_of(node):
    """ `Faults.X` or `SupvisorsFaults.X.value` -> 'X' """
    d = dotted(node)
    if d and d.startswith('Faults.') and d.count('.') == 1: return d.split('.')[1]
    if d and d.startswith('SupvisorsFaults.') and d.endswith('.value'): return d.split('.')[1]
    raise Problem(f'fault code not a literal of Faults / SupvisorsFaults: {ast.unparse(node)}')


def state_list(node):
    if not isinstance(node, (ast.List, ast.Tuple, ast.Set)):
        raise Problem(f'_check_state argument is not a literal list: {ast.unparse(node)}')
    out = []
    for e in node.elts:
        d = dotted(e)
        if not d or not d.startswith('SupvisorsStates.') or d.split('.')[1] not in LEAN_STATE:
            raise Problem(f'unknown Supvisors state literal {ast.unparse(e)}')
        out.append(d.split('.')[1])
    return out


class Ctx:
    def __init__(self, fn, stack=(), test=None, handler_of=None, guarded=False, catches=()):
        self.fn, self.stack, self.test, self.handler_of, self.guarded, self.catches = fn, stack, test, handler_of, guarded, catches

    def but(self, **kw):
        c = Ctx(self.fn, self.stack, self.test, self.handler_of, self.guarded, self.catches)
        for k, v in kw.items(): setattr(c, k, v)
        return c


class Walker:
    def __init__(self, methods, bad_state_fault, crashes=()):
        self.methods = methods; self.bad_state_fault = bad_state_fault; self.steps = []
        self.crashes = dict(crashes)          # effect -> exception class it raises when no Master is known

    def emit(self, step):
        if not self.steps or self.steps[-1] != step:      # consecutive duplicates carry no information
            self.steps.append(step)

    # ------------------------------------------------------------------ classification of a direct `_raise`
    def classify(self, ctx):
        for h in reversed(ctx.stack):
            if h in HELPER_CHECK: return HELPER_CHECK[h]
        if ctx.handler_of is not None:
            body = ' '.join(ast.unparse(s) for s in ctx.handler_of)
            # `try: fsm.on_restart() except RuntimeError: _raise(...)`: the handler catches exactly the exception the
            # effect raises when no Master is known -> the raise is the check "a Master is known"
            called = {'.'.join(d.split('.')[2:]) for st in ctx.handler_of for n in ast.walk(st)
                      if isinstance(n, ast.Call) for d in [dotted(n.func)] if d and d.startswith('self.supvisors.')}
            if any(e in called and x in ctx.catches for e, x in self.crashes.items()): return 'masterKnown'
            if 'int(numprocs)' in body: return 'numprocs'
            if 'update_extra_args' in body: return 'namespec'
            return 'data'
        if ctx.test is not None:
            t = ast.unparse(ctx.test)
            src = ast.unparse(ctx.fn)
            if t == 'not identifiers' and 'identifiers = self.supvisors.mapper.filter([' in src: return 'instName'
            if 'not in self.supvisors.context.get_managed_applications()' in t: return 'managed'
            if 'not in self.supvisors.server_options.program_configs' in t: return 'progName'
            if t == 'self.supvisors.state_modes.master_identifier': return 'masterUnset'
            if t == 'SynchronizationOptions.USER not in self.supvisors.options.synchro_options': return 'userOption'
            if 'state_modes.starting_identifiers' in t or 'state_modes.stopping_identifiers' in t: return 'jobsIdle'
        return 'data'

    # ------------------------------------------------------------------ expressions
    def rebound_names(self, fn):
        names = set()
        for n in ast.walk(fn):
            if isinstance(n, (ast.Assign, ast.AugAssign, ast.AnnAssign)):
                for t in (n.targets if isinstance(n, ast.Assign) else [n.target]):
                    for x in ast.walk(t):
                        if isinstance(x, ast.Name): names.add(x.id)
            elif isinstance(n, (ast.For, ast.comprehension)):
                for x in ast.walk(n.target):
                    if isinstance(x, ast.Name): names.add(x.id)
        return names

    def untested_process_vars(self, fn):
        """ names bound to the second result of `_get_application_process` and never tested for truth in `fn` """
        names = set()
        for n in ast.walk(fn):
            if (isinstance(n, ast.Assign) and isinstance(n.value, ast.Call) and dotted(n.value.func) == 'self._get_application_process'
                    and isinstance(n.targets[0], ast.Tuple) and len(n.targets[0].elts) == 2 and isinstance(n.targets[0].elts[1], ast.Name)):
                names.add(n.targets[0].elts[1].id)
        for n in ast.walk(fn):
            if isinstance(n, (ast.If, ast.IfExp, ast.While)):
                for x in ast.walk(n.test):
                    if isinstance(x, ast.Name): names.discard(x.id)
        return names

    def expr(self, node, ctx):
        if isinstance(node, (ast.FunctionDef, ast.AsyncFunctionDef, ast.Lambda, ast.ClassDef)):
            return
        for child in ast.iter_child_nodes(node):
            self.expr(child, ctx)
        if isinstance(node, ast.Call):
            self.call(node, ctx)
        elif (isinstance(node, ast.Attribute) and isinstance(node.value, ast.Name) and isinstance(node.ctx, ast.Load)
              and node.value.id in self.untested_process_vars(ctx.fn)):
            self.emit(('derefProcess',))
        elif isinstance(node, ast.Subscript) and isinstance(node.ctx, ast.Load):
            if dotted(node.value) in INSTANCE_MAPS and isinstance(node.slice, ast.Name) and not ctx.guarded:
                params = {a.arg for a in ctx.fn.args.args}
                if node.slice.id in params and node.slice.id not in self.rebound_names(ctx.fn):
                    self.emit(('lookupInst',))

    def call(self, node, ctx):
        name = dotted(node.func)
        if name is None: return
        if name == 'self._raise':
            self.emit(('raise', self.classify(ctx), fault_of(node.args[0]))); return
        if name == 'self._check_state':
            self.emit(('raise', ('state', state_list(node.args[0])), self.bad_state_fault)); return
        if name.startswith('self.') and name.count('.') == 1 and name[5:] in self.methods:
            callee = name[5:]
            if callee in ctx.stack or len(ctx.stack) > 5:
                raise Problem(f'recursive helper chain {ctx.stack + (callee,)}')
            self.stmts(self.methods[callee].body, Ctx(self.methods[callee], ctx.stack + (callee,)))
            return
        if name == 'conciliate_conflicts':
            self.emit(('effect', 'conciliate_conflicts')); return
        parts = name.split('.')
        if name.startswith('self.supvisors.') and len(parts) >= 4:
            root, meth = parts[2], parts[-1]
            if root in EFFECT_ROOTS and meth not in PURE:
                self.emit(('effect', f'{root}.{meth}')); return
            if root == 'supervisor_data' and meth in SUPERVISOR_DATA_EFFECTS:
                self.emit(('effect', f'{root}.{meth}')); return
        if parts[-1] == 'startProcess':
            self.emit(('effect', 'supervisor.startProcess')); return

    # ------------------------------------------------------------------ statements
    def stmts(self, body, ctx):
        for st in body:
            if isinstance(st, (ast.FunctionDef, ast.AsyncFunctionDef, ast.ClassDef)):
                continue                                        # deferred `onwait`
            if isinstance(st, ast.If):
                self.expr(st.test, ctx)
                self.stmts(st.body, ctx.but(test=st.test, handler_of=None))
                self.stmts(st.orelse, ctx.but(test=None, handler_of=None))
            elif isinstance(st, ast.Try):
                catches = ' '.join(ast.unparse(h.type) if h.type is not None else 'BaseException' for h in st.handlers)
                for h in st.handlers:
                    types = [] if h.type is None else [dotted(t) for t in (h.type.elts if isinstance(h.type, ast.Tuple) else [h.type])]
                    self.stmts(h.body, ctx.but(test=None, handler_of=st.body, catches=tuple(t for t in types if t)))
                self.stmts(st.body, ctx.but(guarded=ctx.guarded or 'KeyError' in catches or 'Exception' in catches))
                self.stmts(st.orelse, ctx); self.stmts(st.finalbody, ctx)
            elif isinstance(st, (ast.For, ast.While)):
                self.expr(st.iter if isinstance(st, ast.For) else st.test, ctx)
                self.stmts(st.body, ctx); self.stmts(st.orelse, ctx)
            elif isinstance(st, ast.With):
                for it in st.items: self.expr(it.context_expr, ctx)
                self.stmts(st.body, ctx)
            else:
                self.expr(st, ctx)
                if isinstance(st, (ast.Assign, ast.AugAssign, ast.AnnAssign)):
                    for t in (st.targets if isinstance(st, ast.Assign) else [st.target]):
                        d = dotted(t) if isinstance(t, ast.Attribute) else None
                        if d and d.startswith(WRITE_ROOTS):
                            self.emit(('effect', 'write:' + d.replace('self.supvisors.', '').replace('self.', '')))


def lean_check(c):
    if isinstance(c, tuple):
        return '(.state [' + ', '.join('.' + LEAN_STATE[s] for s in c[1]) + '])'
    return '.' + c


def lean_step(step):
    if step[0] == 'raise':
        if step[2] not in LEAN_FAULT: raise Problem(f'fault {step[2]} unknown to Supv.Rpc.Fault')
        return f'.raise {lean_check(step[1])} .{LEAN_FAULT[step[2]]}'
    if step[0] == 'effect': return f'.effect "{step[1]}"'
    return '.' + step[0]


def show_step(step):
    if step[0] == 'raise':
        c = step[1]
        return f"{'state[' + ','.join(c[1]) + ']' if isinstance(c, tuple) else c}!{step[2]}"
    if step[0] == 'effect': return f'E:{step[1]}'
    return step[0]


def no_master_raise(fn):
    """ exception class raised by FiniteStateMachine.on_restart / on_shutdown in the branch without Master, or None """
    for n in ast.walk(fn):
        if isinstance(n, ast.Raise) and n.exc is not None:
            e = n.exc.func if isinstance(n.exc, ast.Call) else n.exc
            return dotted(e)
    return None


def generate_rpc(repo, outdir):
    results = []
    pkg = os.path.join(repo, 'supvisors')
    try:
        ttree = ast.parse(open(os.path.join(pkg, 'ttypes.py')).read())
        rtree = ast.parse(open(os.path.join(pkg, 'rpcinterface.py')).read())
        stree = ast.parse(open(os.path.join(pkg, 'statemachine.py')).read())
    except (OSError, SyntaxError) as e:
        return [('rpc:source', False, f'{type(e).__name__}: {e}')]
    # --- the state enumeration the Lean type `Supv.Rpc.St` mirrors
    found = None
    for n in ttree.body:
        if isinstance(n, ast.ClassDef) and n.name == 'SupvisorsStates':
            for st in n.body:
                if isinstance(st, ast.Assign) and isinstance(st.targets[0], ast.Tuple):
                    found = [e.id for e in st.targets[0].elts if isinstance(e, ast.Name)]
    results.append(('ttypes:SupvisorsStates', found == STATES, f'found {found}'))
    # --- the class and its helpers
    cls = next((n for n in rtree.body if isinstance(n, ast.ClassDef) and n.name == 'RPCInterface'), None)
    if cls is None:
        return results + [('rpc:RPCInterface', False, 'class RPCInterface not found in rpcinterface.py')]
    methods = {f.name: f for f in cls.body if isinstance(f, ast.FunctionDef)}
    # `_raise` raises an RPCError built on its first parameter
    ok = False; detail = 'method _raise not found'
    if '_raise' in methods:
        fn = methods['_raise']; code = fn.args.args[1].arg if len(fn.args.args) > 1 else None
        raises = [n for n in ast.walk(fn) if isinstance(n, ast.Raise)]
        ok = (len(raises) == 1 and isinstance(raises[0].exc, ast.Call) and dotted(raises[0].exc.func) == 'RPCError'
              and raises[0].exc.args and isinstance(raises[0].exc.args[0], ast.Name) and raises[0].exc.args[0].id == code)
        detail = 'raise RPCError(code, ...)' if ok else 'unexpected body: ' + ast.unparse(fn)[-200:]
    results.append(('rpc:_raise', ok, detail))
    # `_check_state(states)`: `if self.supvisors.fsm.state not in states: self._raise(BAD_SUPVISORS_STATE...)`
    ok = False; detail = 'method _check_state not found'; bad_state_fault = 'BAD_SUPVISORS_STATE'
    if '_check_state' in methods:
        fn = methods['_check_state']; param = fn.args.args[1].arg if len(fn.args.args) > 1 else None
        body = [s for s in fn.body if not (isinstance(s, ast.Expr) and isinstance(s.value, ast.Constant))]
        detail = 'unexpected body: ' + ast.unparse(fn)[-300:]
        if len(body) == 1 and isinstance(body[0], ast.If) and not body[0].orelse:
            test = ast.unparse(body[0].test)
            calls = [n for s in body[0].body for n in ast.walk(s) if isinstance(n, ast.Call) and dotted(n.func) == 'self._raise']
            try:
                if test == f'self.supvisors.fsm.state not in {param}' and len(calls) == 1 and len(body[0].body) == 1:
                    bad_state_fault = fault_of(calls[0].args[0]); ok = True
                    detail = f'if {test}: _raise({bad_state_fault})'
            except Problem as e:
                detail = str(e)
    results.append(('rpc:_check_state', ok, detail))
    # --- the two effects whose failure mode is modelled: FSM.on_restart / on_shutdown without Master
    fsm = next((n for n in stree.body if isinstance(n, ast.ClassDef) and n.name == 'FiniteStateMachine'), None)
    crashes = []
    for meth in ('on_restart', 'on_shutdown'):
        fn = next((f for f in (fsm.body if fsm else []) if isinstance(f, ast.FunctionDef) and f.name == meth), None)
        if fn is None:
            results.append((f'fsm:{meth}', False, 'method not found in FiniteStateMachine')); continue
        exc = no_master_raise(fn)
        src = ast.unparse(fn)
        shape = 'self.state_modes.is_master()' in src and 'self.state_modes.master_identifier' in src
        results.append((f'fsm:{meth}', shape, f'raises {exc} without Master' if exc else 'no raise statement'))
        if exc: crashes.append((f'fsm.{meth}', exc))
    # --- every public method
    table = []
    for name, fn in methods.items():
        if name.startswith('_'): continue
        if any(dotted(d) == 'property' for d in fn.decorator_list): continue      # `logger` is not an XML-RPC
        w = Walker(methods, bad_state_fault, crashes)
        try:
            w.stmts(fn.body, Ctx(fn))
            lean = [lean_step(s) for s in w.steps]
            table.append((name, lean))
            results.append((f'rpc:{name}', True, ' '.join(show_step(s) for s in w.steps) or '(no guard, no effect)'))
        except Problem as e:
            results.append((f'rpc:{name}', False, str(e)))
    lines = ['import Supv.Model.Rpc', '',
             '/-! GENERATED by tools/extract_rpc.py from supvisors/rpcinterface.py, statemachine.py, ttypes.py — do not edit.',
             '    Regenerated on every run of `./check C17`; rewritten only when the source changed. -/',
             '', 'namespace Supv.Gen', 'open Supv.Rpc', '',
             '/-- per public XML-RPC method, in source order: raise steps (check, fault), effects, raw look-ups -/',
             'def rpcTable : List Method := [']
    for k, (name, lean) in enumerate(table):
        sep = ',' if k + 1 < len(table) else ''
        if lean:
            lines.append(f'  {{ name := "{name}", steps := [')
            lines += [f'      {s}{"," if j + 1 < len(lean) else ""}' for j, s in enumerate(lean)]
            lines.append(f'    ] }}{sep}')
        else:
            lines.append(f'  {{ name := "{name}", steps := [] }}{sep}')
    lines += [']', '',
              '/-- effects that raise a non-RPC exception when the local instance is not the Master and no Master is known:',
              '    (effect, exception class) read in `FiniteStateMachine.on_restart` / `on_shutdown` -/',
              'def effectCrashes : List (String × String) := ['
              + ', '.join(f'("{e}", "{x}")' for e, x in crashes) + ']', '', 'end Supv.Gen', '']
    changed = write_if_changed(os.path.join(outdir, 'RpcGuards.lean'), '\n'.join(lines))
    results.append(('rpc:table', bool(table), f'{len(table)} public methods; file {"rewritten" if changed else "unchanged"}'))
    return results


if __name__ == '__main__':
    here = os.path.dirname(os.path.dirname(os.path.abspath(__file__)))
    for r in generate_rpc(os.environ.get('SUPVISORS_REPO', '/repo'), os.path.join(here, 'lean', 'Supv', 'Gen')):
        print(r)
