""" Spike: sensitivity of the correspondence spikes to small mutations of the code (scratch copy, PYTHONPATH shadowing). """
import subprocess, shutil, os, sys
SRC = '/repo/supvisors'; MUT = '/var/tmp/supv-mut'
SPIKES = os.path.dirname(os.path.abspath(__file__))
MUTANTS = [
 ('M1 process.py: EXITED no longer unlists the instance', 'process.py',
  "        if new_state in STOPPED_STATES:\n            self.running_identifiers.discard(identifier)",
  "        if new_state in STOPPED_STATES and new_state != ProcessStates.EXITED:\n            self.running_identifiers.discard(identifier)",
  ['corr_proc.py', '1', '400']),
 ('M2 strategy.py: node cap <= 100 becomes < 100', 'strategy.py',
  "return node_loading + expected_load <= 100, node_loading, instance_loading", "return node_loading + expected_load < 100, node_loading, instance_loading",
  ['corr_cmd.py', '0', '300']),
 ('M3 commander.py: start jobs pick the highest sequence first', 'commander.py',
  "    # override default pickup logic\n    pickup_logic = min\n    # override default process failure state\n    failure_state = ProcessStates.FATAL",
  "    # override default pickup logic\n    pickup_logic = max\n    # override default process failure state\n    failure_state = ProcessStates.FATAL",
  ['corr_cmd.py', '0', '300']),
 ('M4 instancestatus.py: inactivity test > becomes >=', 'instancestatus.py',
  "counter_diff > self.supvisors.options.inactivity_ticks", "counter_diff >= self.supvisors.options.inactivity_ticks",
  ['lockstep_net.py', '0', '40']),
 ('M5 statemodes.py: core identifiers lose their priority', 'statemodes.py',
  "        candidates = core_candidates or all_candidates", "        candidates = all_candidates",
  ['lockstep_net.py', '0', '80']),
 ('M6 statscompiler.py: histories keep depth+1 points', 'statscompiler.py',
  "    while len(lst) > depth:", "    while len(lst) > depth + 1:",
  ['corr_stats.py', '1', '300']),
 ('M7 sparser.py: shortest pattern wins', 'sparser.py',
  "pattern, performance = max(matching_patterns, key=lambda x: len(x[1]))", "pattern, performance = min(matching_patterns, key=lambda x: len(x[1]))",
  ['corr_rules.py', '1', '200', 'xsd']),
 ('M8 application.py: `not` accepts lists', 'application.py',
  "                if type(args_eval) is not bool:\n                    raise ApplicationStatusParseError('cannot apply UnaryOp on unresolved expression')",
  "                if False:\n                    raise ApplicationStatusParseError('cannot apply UnaryOp on unresolved expression')",
  ['corr_formula.py', '1', '1500']),
 ('M9 statemachine.py: slaves leave ELECTION without waiting for the Master', 'statemachine.py',
  "                if self.state_modes.master_state == SupvisorsStates.DISTRIBUTION:\n                    return SupvisorsStates.DISTRIBUTION",
  "                return SupvisorsStates.DISTRIBUTION",
  ['lockstep_net.py', '0', '40']),
 ('M10 context.py: process events accepted from any peer state', 'context.py',
  "        # accept events only in CHECKED / RUNNING state\n        if status.state in [SupvisorsInstanceStates.CHECKED, SupvisorsInstanceStates.RUNNING]:\n            self.logger.debug(f'Context.on_process_event",
  "        # accept events only in CHECKED / RUNNING state\n        if True:\n            self.logger.debug(f'Context.on_process_event",
  ['corr_cmd.py', '0', '50']),
]
for title, fname, old, new, cmd in MUTANTS:
    shutil.rmtree(MUT, ignore_errors=True); os.makedirs(MUT); shutil.copytree(SRC, MUT + '/supvisors')
    p = f'{MUT}/supvisors/{fname}'; s = open(p).read()
    if old not in s: print(f'{title}: ANCHOR NOT FOUND'); continue
    open(p, 'w').write(s.replace(old, new, 1))
    env = dict(os.environ, PYTHONPATH=MUT)
    try:
      r = subprocess.run(['/venv/bin/python', cmd[0]] + cmd[1:], cwd=SPIKES, env=env, capture_output=True, text=True, timeout=300)
    except subprocess.TimeoutExpired:
      print(f'{title}\n      -> {cmd[0]}: TIMEOUT (the mutated code hangs: the registered checks need a per-operation watchdog)'); continue
    last = [l for l in (r.stdout + r.stderr).strip().split('\n') if l.strip() and 'pkg_resources' not in l and 'import pkg' not in l][-1]
    print(f'{title}\n      -> {cmd[0]}: {last[:230]}')
shutil.rmtree(MUT, ignore_errors=True)
