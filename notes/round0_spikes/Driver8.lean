import Probe.Net
open N

def parseNatList (s : String) : List Nat := if s == "-" then [] else (s.splitOn ",").filterMap (·.toNat?)
def parseOptNat (s : String) : Option Nat := if s == "-" then none else s.toNat?
def b (s : String) : Bool := s == "1"

def showErr : Option Err → String
  | none => "ok" | some (.invalidTransition ..) => "InvalidTransition" | some .noMaster => "NoMaster"

def obsInst (g : Net) (i : Nat) : String :=
  let s := g.inst i
  let lm := s.modes.getD i {}
  let master := match lm.master with | none => "-" | some m => toString m
  s!"{lm.fsm.code}/{master}/{String.intercalate "" (lm.inst.map (fun x => toString x.code))}/{if lm.degraded then 1 else 0}"

def obs (g : Net) (o : Obs) : String :=
  let insts := String.intercalate " " ((List.range g.n).map (obsInst g))
  let qs := String.intercalate "," ((List.range g.n).map fun i => String.intercalate "" ((List.range g.n).map fun j => toString (g.queue i j).length))
  let ib := String.intercalate "" ((List.range g.n).map fun j => toString (g.inbox.getD j []).length)
  let errs := String.intercalate "," ((o.filter fun (_, e, _) => e.isSome).map fun (i, e, _) => s!"{i}:{showErr e}")
  s!"{insts} q={qs} in={ib} err=[{errs}]"

structure D where
  cfgs : List Cfg := []
  net : Net := N.Net.init [] 0

def stepLine (d : D) (line : String) : D × String :=
  match (line.trimAscii.toString.splitOn " ") with
  | ["reset"] => ({}, "ok")
  | ["cfg", n, me, nick, core, initial, oS, oL, oT, oC, oU, sto, inact, fence, fs, _now] =>
    let c : Cfg := { n := n.toNat!, me := me.toNat!, nickRank := parseNatList nick, core := parseNatList core,
                     initial := parseNatList initial, optStrict := b oS, optList := b oL, optTimeout := b oT,
                     optCore := b oC, optUser := b oU, syncTimeout := sto.toNat!, syncMin := 15 * 1024,
                     inactivity := inact.toNat!, autoFence := b fence,
                     failStrat := if fs == "RESYNC" then .resync else if fs == "SHUTDOWN" then .shutdown else .cont }
    ({ d with cfgs := d.cfgs ++ [c] }, "ok")
  | ["start", now] => ({ d with net := N.Net.init d.cfgs now.toNat! }, "ok")
  | "act" :: now :: rest =>
    let now := now.toNat!
    let g := d.net
    let r : Option (Net × Obs) := match rest with
      | ["running", i] => some (let (g', e, o) := g.handle now i.toNat! .running; (g', [(i.toNat!, e, o)]))
      | ["tick", i] => some (g.tick now i.toNat!)
      | ["exec", i, j] => some (g.exec now i.toNat! j.toNat!)
      | ["deliver", j] => some (g.deliver now j.toNat!)
      | ["crash", i] => some ({ g with up := g.up.set i.toNat! false }, [])
      | ["cut", i, j] => some ({ g with cut := g.cut ++ [(i.toNat!, j.toNat!)] }, [])
      | ["heal"] => some ({ g with cut := [] }, [])
      | ["rpc", i, "restart"] => some (g.rpcRestart now i.toNat! false)
      | ["rpc", i, "shutdown"] => some (g.rpcRestart now i.toNat! true)
      | ["rpc", i, "end_sync", m] => some (g.rpcEndSync now i.toNat! (parseOptNat m))
      | _ => none
    match r with
    | none => (d, "bad-op")
    | some (g', o) => ({ d with net := g' }, obs g' o)
  | _ => (d, "bad-op")

partial def loop (i : IO.FS.Stream) (o : IO.FS.Stream) (d : D) : IO Unit := do
  let line ← i.getLine
  if line.isEmpty then return ()
  let (d', out) := stepLine d line
  o.putStrLn out
  loop i o d'

def main : IO Unit := do loop (← IO.getStdin) (← IO.getStdout) {}
