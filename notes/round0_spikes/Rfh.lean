/-! Spike: RunningFailureHandler job sets (strategy.py) and their mutual exclusion. -/
structure Rfh where
  stopApps : List Nat := []
  restartApps : List Nat := []
  restartProcs : List (Nat × Nat) := []
  continueProcs : List (Nat × Nat) := []
  deriving Repr

inductive Strat | continue | restartProcess | stopApplication | restartApplication
  deriving DecidableEq, Repr

def ins {α} [DecidableEq α] (x : α) (l : List α) : List α := if x ∈ l then l else l ++ [x]

variable (sequenced : Nat → Nat → Bool)

def addStop (h : Rfh) (a : Nat) : Rfh :=
  { stopApps := ins a h.stopApps,
    restartApps := h.restartApps.erase a,
    restartProcs := h.restartProcs.filter (fun ap => ap.1 ≠ a),
    continueProcs := h.continueProcs.filter (fun ap => ap.1 ≠ a) }

def addRestart (h : Rfh) (a : Nat) : Rfh :=
  if a ∈ h.stopApps then h else
  { h with restartApps := ins a h.restartApps,
           restartProcs := h.restartProcs.filter (fun ap => ¬ (ap.1 = a ∧ sequenced ap.1 ap.2)),
           continueProcs := h.continueProcs.filter (fun ap => ¬ (ap.1 = a ∧ sequenced ap.1 ap.2)) }

def addRestartProc (h : Rfh) (a p : Nat) : Rfh :=
  if a ∈ h.stopApps then h
  else if a ∈ h.restartApps ∧ sequenced a p then h
  else { h with restartProcs := ins (a, p) h.restartProcs, continueProcs := h.continueProcs.erase (a, p) }

def addContinue (h : Rfh) (a p : Nat) : Rfh :=
  if a ∈ h.stopApps then h
  else if a ∈ h.restartApps ∧ sequenced a p then h
  else if (a, p) ∈ h.restartProcs then h
  else { h with continueProcs := ins (a, p) h.continueProcs }

def addJob (h : Rfh) (s : Strat) (a p : Nat) : Rfh :=
  match s with
  | .stopApplication => addStop h a
  | .restartApplication => addRestart sequenced h a
  | .restartProcess => addRestartProc sequenced h a p
  | .continue => addContinue sequenced h a p

structure Excl (h : Rfh) : Prop where
  stop_restart : ∀ a, a ∈ h.stopApps → a ∉ h.restartApps
  stop_procs : ∀ a p, a ∈ h.stopApps → (a, p) ∉ h.restartProcs ∧ (a, p) ∉ h.continueProcs
  restart_procs : ∀ a p, a ∈ h.restartApps → sequenced a p = true → (a, p) ∉ h.restartProcs ∧ (a, p) ∉ h.continueProcs
  proc_continue : ∀ ap, ap ∈ h.restartProcs → ap ∉ h.continueProcs
  nodupC : h.continueProcs.Nodup
  nodupR : h.restartApps.Nodup

theorem mem_ins {α} [DecidableEq α] (x y : α) (l : List α) : y ∈ ins x l ↔ y = x ∨ y ∈ l := by
  unfold ins; split <;> simp_all <;> grind

theorem nodup_ins {α} [DecidableEq α] (x : α) (l : List α) (h : l.Nodup) : (ins x l).Nodup := by
  unfold ins; split
  · exact h
  · rw [List.nodup_append]; simp_all; grind

theorem addJob_excl (h : Rfh) (s : Strat) (a p : Nat) (hx : Excl sequenced h) :
    Excl sequenced (addJob sequenced h s a p) := by
  obtain ⟨h1, h2, h3, h4, h5, h6⟩ := hx
  cases s
  · -- continue
    simp only [addJob, addContinue]
    repeat' split
    all_goals first | exact ⟨h1, h2, h3, h4, h5, h6⟩ | skip
    refine ⟨h1, ?_, ?_, ?_, nodup_ins _ _ h5, h6⟩ <;> simp only [mem_ins] <;> grind
  · -- restartProcess
    simp only [addJob, addRestartProc]
    repeat' split
    all_goals first | exact ⟨h1, h2, h3, h4, h5, h6⟩ | skip
    refine ⟨h1, ?_, ?_, ?_, h5.erase _, h6⟩ <;> simp only [mem_ins] <;> grind [List.Nodup.mem_erase_iff, List.mem_of_mem_erase]
  · -- stopApplication
    simp only [addJob, addStop]
    refine ⟨?_, ?_, ?_, ?_, h5.filter _, h6.erase _⟩ <;> simp only [mem_ins, List.mem_filter] <;>
      grind [List.Nodup.mem_erase_iff, List.mem_of_mem_erase]
  · -- restartApplication
    simp only [addJob, addRestart]
    split
    · exact ⟨h1, h2, h3, h4, h5, h6⟩
    · refine ⟨?_, ?_, ?_, ?_, h5.filter _, nodup_ins _ _ h6⟩ <;> simp only [mem_ins, List.mem_filter] <;> grind

theorem C06_mutual_exclusion (jobs : List (Strat × Nat × Nat)) :
    Excl sequenced (jobs.foldl (fun h j => addJob sequenced h j.1 j.2.1 j.2.2) {}) := by
  have : ∀ (jobs : List (Strat × Nat × Nat)) (h : Rfh), Excl sequenced h →
      Excl sequenced (jobs.foldl (fun h j => addJob sequenced h j.1 j.2.1 j.2.2) h) := by
    intro jobs
    induction jobs with
    | nil => intro h hx; exact hx
    | cons j t ih => intro h hx; exact ih _ (addJob_excl sequenced h _ _ _ hx)
  exact this jobs {} ⟨by simp, by simp, by simp, by simp, by simp, by simp⟩
