/-! Spike: program rule resolution (sparser.py + ProcessRules.check_dependencies), import-free. Namespace `R`. -/
namespace R

/-- a `<program>` or `<model>` element: raw text of its children (none = child absent) -/
structure Elt where
  name : Option String := none
  pattern : Option String := none
  reference : Option String := none
  identifiers : Option String := none
  startSeq : Option String := none
  stopSeq : Option String := none
  required : Option String := none
  waitExit : Option String := none
  loading : Option String := none
  sfs : Option String := none
  rfs : Option String := none
  deriving Repr, Inhabited

structure AppElt where
  name : Option String := none
  pattern : Option String := none
  programs : List Elt := []
  deriving Repr, Inhabited

structure Doc where
  aliases : List (String × List String) := []
  models : List Elt := []
  apps : List AppElt := []
  /-- regex results supplied by the harness: (pattern, name, length of the first match) -/
  matchTable : List (String × String × Nat) := []
  deriving Repr, Inhabited

structure Rules where
  identifiers : List String := ["*"]
  atIdentifiers : List String := []
  hashIdentifiers : List String := []
  startSeq : Nat := 0
  stopSeq : Int := -1
  required : Bool := false
  waitExit : Bool := false
  load : Nat := 0
  sfs : String := "ABORT"
  rfs : String := "CONTINUE"
  deriving Repr, Inhabited, DecidableEq

/-! ### lexing (ASCII) -/
def isWs (c : Char) : Bool := c == ' ' || c == '\t' || c == '\n' || c == '\r' || c.toNat == 11 || c.toNat == 12 ||
  c.toNat == 28 || c.toNat == 29 || c.toNat == 30 || c.toNat == 31
def strip (s : String) : List Char := ((s.toList.dropWhile isWs).reverse.dropWhile isWs).reverse

/-- digits with single underscores strictly between digits -/
def digitsUs : List Char → Bool
  | [] => false
  | cs => cs.head!.isDigit && cs.getLast!.isDigit && go cs false
where go : List Char → Bool → Bool
  | [], _ => true
  | c :: t, prevUs => if c == '_' then (!prevUs && go t true) else (c.isDigit && go t false)

/-- Python `int(str)` on ASCII -/
def pyInt (s : String) : Option Int :=
  let t := strip s
  let (neg, d) := match t with
    | '+' :: r => (false, r) | '-' :: r => (true, r) | r => (false, r)
  if digitsUs d then
    let v : Nat := (d.filter (· != '_')).foldl (fun a c => a * 10 + (c.toNat - '0'.toNat)) 0
    some (if neg then -(v : Int) else v)
  else none

/-- distutils `strtobool` -/
def strtobool (s : String) : Option Bool :=
  let v := s.toLower
  if ["y", "yes", "t", "true", "on", "1"].contains v then some true
  else if ["n", "no", "f", "false", "off", "0"].contains v then some false
  else none

/-- supervisor `list_of_strings`: split on commas, strip each item -/
def listOfStrings (s : String) : List String :=
  if s == "" then [] else (s.splitOn ",").map (fun x => String.ofList (strip x))

def dedup : List String → List String
  | [] => []
  | h :: t => h :: (dedup t).filter (· != h)

/-! ### lookup -/
def matchLen (d : Doc) (pat name : String) : Option Nat :=
  (d.matchTable.find? (fun m => m.1 == pat && m.2.1 == name)).map (·.2.2)

/-- dict semantics for patterns: a later duplicate replaces the value but keeps the first position -/
def patternDict {α} (key : α → Option String) (l : List α) : List (String × α) :=
  l.foldl (fun acc e => match key e with
    | none => acc
    | some k => if acc.any (·.1 == k) then acc.map (fun kv => if kv.1 == k then (k, e) else kv) else acc ++ [(k, e)]) []

/-- get_best_pattern: greatest capture, first one on ties -/
def bestPattern {α} (d : Doc) (name : String) (pats : List (String × α)) : Option α :=
  let ms := pats.filterMap (fun kv => (matchLen d kv.1 name).map (fun n => (n, kv.2)))
  (ms.foldl (fun best x => match best with
    | none => some x
    | some b => if x.1 > b.1 then some x else some b) none).map (·.2)

def getApplicationElement (d : Doc) (app : String) : Option AppElt :=
  match d.apps.find? (fun a => a.name == some app) with
  | some a => some a
  | none => bestPattern d app (patternDict (·.pattern) d.apps)

/-- get_program_element: (element, is_pattern) -/
def getProgramElement (d : Doc) (app proc : String) : Option Elt × Bool :=
  match getApplicationElement d app with
  | none => (none, false)
  | some a =>
    match a.programs.find? (fun p => p.name == some proc) with
    | some p => (some p, false)
    | none =>
      match bestPattern d proc (patternDict (·.pattern) a.programs) with
      | some p => (some p, true)
      | none => (none, false)

/-! ### loading -/
def loadIdentifiers (d : Doc) (value : Option String) (r : Rules) : Rules :=
  match value with
  | none => r
  | some v =>
    if v == "" then r else
    -- check_identifier_list: aliases expanded in declaration order, first occurrence only
    let ids0 := listOfStrings v
    let ids1 := d.aliases.foldl (fun ids al =>
      match ids.idxOf? al.1 with
      | some pos => ids.take pos ++ al.2 ++ ids.drop (pos + 1)
      | none => ids) ids0
    let ids := dedup (ids1.filter (· != ""))
    let hasAt := ids.contains "@"
    let hasHash := ids.contains "#"
    let ids := (ids.erase "@").erase "#"
    let ids := if ((hasAt || hasHash) && ids.isEmpty) || ids.contains "*" then ["*"] else ids
    let r := if hasAt then { r with atIdentifiers := ids, identifiers := [] } else r
    let r := if hasHash then { r with hashIdentifiers := ids, identifiers := [] } else r
    if !hasAt && !hasHash then { r with identifiers := ids } else r

def nonEmpty (v : Option String) : Option String := match v with | some "" => none | x => x

def ldStart (e : Elt) (r : Rules) : Rules :=
  match (nonEmpty e.startSeq).bind pyInt with | some v => if v ≥ 0 then { r with startSeq := v.toNat } else r | none => r
def ldStop (e : Elt) (r : Rules) : Rules :=
  match (nonEmpty e.stopSeq).bind pyInt with | some v => if v ≥ 0 then { r with stopSeq := v } else r | none => r
def ldRequired (e : Elt) (r : Rules) : Rules :=
  match (nonEmpty e.required).bind strtobool with | some b => { r with required := b } | none => r
def ldWaitExit (e : Elt) (r : Rules) : Rules :=
  match (nonEmpty e.waitExit).bind strtobool with | some b => { r with waitExit := b } | none => r
def ldLoading (e : Elt) (r : Rules) : Rules :=
  match (nonEmpty e.loading).bind pyInt with | some v => if 0 ≤ v ∧ v ≤ 100 then { r with load := v.toNat } else r | none => r
def ldSfs (e : Elt) (r : Rules) : Rules :=
  match nonEmpty e.sfs with | some v => if ["ABORT", "STOP", "CONTINUE"].contains v then { r with sfs := v } else r | none => r
def ldRfs (e : Elt) (r : Rules) : Rules :=
  match nonEmpty e.rfs with
  | some v => if ["CONTINUE", "RESTART_PROCESS", "STOP_APPLICATION", "RESTART_APPLICATION", "SHUTDOWN", "RESTART"].contains v then { r with rfs := v } else r
  | none => r

/-- the loaders of `load_model_rules`, in the order of the code -/
def loadElt (d : Doc) (e : Elt) (r : Rules) : Rules :=
  ldRfs e (ldSfs e (ldLoading e (ldWaitExit e (ldRequired e (ldStop e (ldStart e (loadIdentifiers d e.identifiers r)))))))

/-- models dict: later definitions of one name replace earlier ones -/
def findModel (d : Doc) (ref : Option String) : Option Elt :=
  match ref with
  | none => none
  | some n => (d.models.reverse.find? (fun m => m.name == some n))

/-- load_model_rules with LOOP_CHECK as fuel: the referenced model first, then the element's own values -/
def loadModelRules (d : Doc) : Nat → Elt → Rules → Rules
  | 0, _, r => r
  | fuel + 1, e, r =>
    let r := match findModel d e.reference with
      | some m => loadModelRules d fuel m r
      | none => r
    loadElt d e r

/-- ProcessRules.check_dependencies (without the autorestart side effect) -/
def checkDependencies (r : Rules) (isPattern : Bool) : Rules :=
  let r := if !r.atIdentifiers.isEmpty && !isPattern then { r with identifiers := ["*"], atIdentifiers := [] } else r
  let r := if !r.hashIdentifiers.isEmpty && !isPattern then { r with identifiers := ["*"], hashIdentifiers := [] } else r
  let r := if !r.atIdentifiers.isEmpty && !r.hashIdentifiers.isEmpty then { r with hashIdentifiers := [] } else r
  let r := if r.required && r.startSeq == 0 then { r with required := false } else r
  if r.stopSeq < 0 then { r with stopSeq := r.startSeq } else r

/-- Parser.load_program_rules on default rules (application strategies inherited by the caller) -/
def loadProgramRules (d : Doc) (app proc : String) (r0 : Rules) : Rules :=
  let (e, isPattern) := getProgramElement d app proc
  let r := match e with | some e => loadModelRules d 3 e r0 | none => r0
  checkDependencies r isPattern

end R
