import Probe.Inst1

/-! Spike: generic preservation kit for the monadic model `M = StateT St (Except Err)` and a first use:
    a peer that is RUNNING stays RUNNING through every FSM evaluation (only the timer and a failure notification
    can make it FAILED) — the frame half of C07 accuracy. -/

/-- `x` preserves the state predicate `P` on every successful run -/
structure Pres (P : St → Prop) {α} (x : M α) : Prop where
  run : ∀ s a s', x.run s = .ok (a, s') → P s → P s'

namespace Pres
variable {P : St → Prop}

theorem pure {α} (a : α) : Pres P (Pure.pure a : M α) := by
  constructor
  intro s a' s' h hp
  simp [StateT.run, Pure.pure, StateT.pure, Except.pure] at h
  obtain ⟨_, rfl⟩ := h; exact hp

theorem bind {α β} {x : M α} {f : α → M β} (hx : Pres P x) (hf : ∀ a, Pres P (f a)) : Pres P (x >>= f) := by
  constructor
  intro s b s' h hp
  simp only [StateT.run, Bind.bind, StateT.bind, Except.bind] at h
  cases hx1 : x s with
  | error e => simp [hx1] at h
  | ok r =>
    obtain ⟨a, s1⟩ := r
    simp only [hx1] at h
    exact (hf a).run s1 b s' (by simpa [StateT.run] using h) (hx.run s a s1 (by simpa [StateT.run] using hx1) hp)

theorem get : Pres P (MonadState.get : M St) := by
  constructor
  intro s a s' h hp
  simp [StateT.run, MonadState.get, getThe, MonadStateOf.get, StateT.get, Pure.pure, Except.pure] at h
  obtain ⟨_, rfl⟩ := h; exact hp

theorem throw {α} (e : Err) : Pres P (MonadExcept.throw e : M α) := by
  constructor
  intro s a s' h
  have : (MonadExcept.throw e : M α).run s = Except.error e := rfl
  rw [this] at h; cases h

theorem modify (f : St → St) (hf : ∀ s, P s → P (f s)) : Pres P (modify f : M Unit) := by
  constructor
  intro s a s' h hp
  simp [StateT.run, _root_.modify, modifyGet, MonadStateOf.modifyGet, StateT.modifyGet, Pure.pure, Except.pure] at h
  obtain ⟨_, rfl⟩ := h; exact hf s hp

theorem ite {α} (c : Prop) [Decidable c] {x y : M α} (hx : Pres P x) (hy : Pres P y) : Pres P (if c then x else y) := by
  split <;> assumption

/-- loops: `for a in l do …` with a mutable accumulator -/
theorem forIn {α β} (l : List α) (init : β) (f : α → β → M (ForInStep β))
    (hf : ∀ a b, Pres P (f a b)) : Pres P (forIn l init f) := by
  induction l generalizing init with
  | nil => simp only [List.forIn_nil]; exact pure _
  | cons a t ih =>
    simp only [List.forIn_cons]
    apply bind (hf a init)
    intro r
    cases r with
    | done b => exact pure _
    | yield b => exact ih b
end Pres

/-- the predicate: peer `j` is RUNNING -/
def peerRunning (j : Nat) (s : St) : Prop := (s.peers[j]?.getD {}).state = .running

theorem pres_emit (j : Nat) (o : Out) : Pres (peerRunning j) (emit o) :=
  Pres.modify _ (fun s h => h)

theorem pres_getPeer (j k : Nat) : Pres (peerRunning j) (getPeer k) :=
  Pres.bind Pres.get (fun _ => Pres.pure _)

theorem pres_getModes (j k : Nat) : Pres (peerRunning j) (getModes k) :=
  Pres.bind Pres.get (fun _ => Pres.pure _)

theorem pres_setModes (j k : Nat) (m : Modes) : Pres (peerRunning j) (setModes k m) :=
  Pres.modify _ (fun s h => h)

/-- writing peer `k ≠ j`, or writing `j` with a record that is still RUNNING -/
theorem pres_setPeer (j k : Nat) (p : Peer) (h : k ≠ j ∨ p.state = .running) : Pres (peerRunning j) (setPeer k p) := by
  apply Pres.modify
  intro s hp
  unfold peerRunning at *
  by_cases hk : k = j
  · subst hk
    cases h with
    | inl h => exact absurd rfl h
    | inr h =>
      by_cases hlt : k < s.peers.length
      · simp [List.getElem?_set_self hlt, h]
      · have : s.peers.set k p = s.peers := List.set_eq_of_length_le (by omega)
        simp [this]; simpa using hp
  · simp [List.getElem?_set_ne hk]; simpa using hp

/-- structural automation: peel binds / ifs / matches and close leaves with the kit or with hypotheses -/
macro "pres_step" : tactic => `(tactic| first
  | exact Pres.pure _
  | exact Pres.get
  | exact Pres.throw _
  | exact pres_emit _ _
  | exact pres_getPeer _ _
  | exact pres_getModes _ _
  | exact pres_setModes _ _ _
  | assumption
  | exact pres_setPeer _ _ _ (by first | exact Or.inl ‹_› | exact Or.inr rfl)
  | (apply Pres.bind)
  | (apply Pres.forIn)
  | (intro _)
  | (split)
  | (dsimp only))

macro "pres_auto" : tactic => `(tactic| repeat pres_step)

theorem pres_publish (j : Nat) : Pres (peerRunning j) publish := pres_emit j _

theorem pres_localModes (j : Nat) (c : Cfg) : Pres (peerRunning j) (localModes c) := pres_getModes j _

theorem pres_setMaster (j : Nat) (c : Cfg) (m : Option Nat) : Pres (peerRunning j) (setMaster c m) := by
  unfold setMaster
  have := pres_publish j
  have := pres_localModes j c
  pres_auto

theorem pres_setFsm (j : Nat) (c : Cfg) (f : SState) : Pres (peerRunning j) (setFsm c f) := by
  unfold setFsm
  have := pres_publish j
  have := pres_localModes j c
  pres_auto

theorem pres_setDegraded (j : Nat) (c : Cfg) (d : Bool) : Pres (peerRunning j) (setDegraded c d) := by
  unfold setDegraded
  have := pres_publish j
  have := pres_localModes j c
  pres_auto

theorem pres_updateInstanceState (j : Nat) (c : Cfg) (k : Nat) (ns : IState) :
    Pres (peerRunning j) (updateInstanceState c k ns) := by
  unfold updateInstanceState
  have := pres_localModes j c
  have h2 := pres_setMaster j c none
  have h3 : Pres (peerRunning j) (modify fun s => { s with updateMark := true } : M Unit) := Pres.modify _ (fun s h => h)
  pres_auto

/-- the instance-state setter on another peer, or a setter that makes `j` RUNNING, keeps `j` RUNNING -/
theorem pres_setPeerState (j : Nat) (c : Cfg) (k : Nat) (ns : IState) (h : k ≠ j ∨ ns = .running) :
    Pres (peerRunning j) (setPeerState c k ns) := by
  unfold setPeerState
  have h1 := pres_updateInstanceState j c k ns
  by_cases hk : k = j
  · have hns : ns = .running := by cases h with | inl h => exact absurd hk h | inr h => exact h
    subst hns
    simp only [reduceCtorEq, ↓reduceIte]
    pres_auto
  · pres_auto
